"""C07 — iterative solvers report their status truthfully.

Static rules (DESIGN §4 C07) over the resolved program of the 16 Krylov / defect-correction solvers
(tu/c07_solvers.cpp instantiates every member of every solver class) and of the convergence-control
base class IterativeSolver:

  E7  status protocol of every _apply_intern (abstract interpretation of the Status-typed locals over
      the CFG: value sets with origins, branch refinement, guards by edge dominance)
  E13 decision tables of is_converged / is_diverged / _analyse_defect / _set_initial_defect /
      status_success against the documented criteria (oracle transcribed below with its doc anchors)
  E7  apply() ignores / correct() honours the start vector, the measured defect vector is the one
      apply()/correct() initialised, right-hand sides are const and never cast
  E1  configuration keys / setters / getters reach the like-named fields

Nothing of FEAT3 is executed.
"""
import itertools
import re

import featlib
from featlib import Check, walk, render, is_call, rel, children

SOLVER_DIR = "kernel/solver/"
SOLVERS = {
    "PCG": "pcg.hpp", "PCR": "pcr.hpp", "BiCGStab": "bicgstab.hpp", "BiCGStabL": "bicgstabl.hpp",
    "FGMRES": "fgmres.hpp", "GMRES": "gmres.hpp", "Richardson": "richardson.hpp", "RGCR": "rgcr.hpp",
    "IDRS": "idrs.hpp", "PCGNR": "pcgnr.hpp", "PipePCG": "pipepcg.hpp", "GroppPCG": "gropppcg.hpp",
    "RBiCGStab": "rbicgstab.hpp", "PMR": "pmr.hpp", "Chebyshev": "chebyshev.hpp", "PCGNRILU": "pcgnrilu.hpp",
}
STATUS_T = "FEAT::Solver::Status"
_LAMBDAS = []          # every closure function of the parsed translation units (filled by run())
STATUS_QN = "FEAT::Solver::Status::"
ALL_STATUS = ("undefined", "progress", "success", "aborted", "diverged", "max_iter", "stagnated")
UPD = ("_set_initial_defect", "_set_new_defect", "_update_defect", "_analyse_defect")


# -------------------------------------------------------------------------------------------------
# small helpers on fact trees
# -------------------------------------------------------------------------------------------------

def strip_targs(s):
    out, depth = [], 0
    for ch in s or "":
        if ch == "<":
            depth += 1
        elif ch == ">":
            depth -= 1
        elif depth == 0:
            out.append(ch)
    return "".join(out)


def short_cls(cls):
    return strip_targs(cls).rsplit("::", 1)[-1]


def cname(n):
    """unqualified callee name of a call node"""
    return strip_targs(n.get("callee", "")).rsplit("::", 1)[-1]


def strip(e):
    """strip explicit value casts / single-argument copy constructions"""
    while isinstance(e, dict):
        k = e.get("k")
        if k == "Cast" and e.get("ck") in ("functional", "static", "cstyle") and e.get("e") is not None:
            e = e["e"]
        elif k in ("Construct", "TempObj") and len(e.get("a", [])) == 1 and not e.get("callee", "").startswith("std::shared_ptr"):
            e = e["a"][0]
        else:
            break
    return e


class Locals:
    """declared locals of one function: decl id -> Var node, number of (re)assignments"""

    def __init__(self, fn):
        self.fn = fn
        self.var = {}
        self.writes = {}
        for n in fn.nodes():
            k = n.get("k")
            if k == "Decl":
                for v in n.get("vars", []):
                    self.var[v["d"]] = v
            elif k == "ForRange" and isinstance(n.get("var"), dict):
                self.var[n["var"].get("d")] = n["var"]
        for n in fn.nodes():
            k = n.get("k")
            if k == "Assign" and n["lhs"].get("k") == "Ref":
                self.writes[n["lhs"]["d"]] = self.writes.get(n["lhs"]["d"], 0) + 1
            elif k == "Un" and n.get("op") in ("++", "--") and n["e"].get("k") == "Ref":
                self.writes[n["e"]["d"]] = self.writes.get(n["e"]["d"], 0) + 1

    def resolve(self, e, depth=0):
        """follow reference locals and never-reassigned value locals to their initialiser"""
        e = strip(e)
        while isinstance(e, dict) and e.get("k") == "Ref" and e.get("dk") == "local" and depth < 20:
            v = self.var.get(e.get("d"))
            if v is None or v.get("init") is None:
                break
            if not v.get("ref") and self.writes.get(e["d"], 0) > 0:
                break
            e = strip(v["init"])
            depth += 1
        return e


def objkey(lo, e):
    """canonical name of the object an expression denotes (fields of *this, parameters by position)"""
    e = lo.resolve(e)
    k = e.get("k")
    if k == "Member" and e.get("field"):
        b = e.get("b")
        if b is None or b.get("k") == "This":
            return "this." + e["n"]
        return objkey(lo, b) + "." + e["n"]
    if k == "Ref":
        if e.get("dk") == "param":
            for i, p in enumerate(lo.fn.params):
                if p["d"] == e["d"]:
                    return "$%d" % i
        return "%s:%s" % (e.get("dk"), e.get("n"))
    if k == "MCall" and cname(e) in ("at", "front", "back") or (k == "OpCall" and e.get("op") == "[]"):
        if k == "MCall":
            idx = "0" if cname(e) == "front" else ("last" if cname(e) == "back" else term(lo, e["a"][0]))
            return "%s[%s]" % (objkey(lo, e.get("obj")), idx)
        return "%s[%s]" % (objkey(lo, e["a"][0]), term(lo, e["a"][1]))
    if k == "This":
        return "this"
    if k == "Un" and e.get("op") == "*":
        return objkey(lo, e["e"])
    return "?" + render(e)


def term(lo, e):
    """canonical text of a scalar expression: fields by name, parameters as $name, commutative * sorted,
    value casts stripped, single-definition locals resolved"""
    e = lo.resolve(e)
    k = e.get("k")
    if k == "_Term":
        return e["text"]
    if k in ("Int", "Float"):
        v = e.get("text") or e.get("v")
        try:
            f = float(v)
            return str(int(f)) if f == int(f) else repr(f)
        except (TypeError, ValueError):
            return str(v)
    if k == "Bool":
        return "true" if e["v"] else "false"
    if k == "Member" and e.get("field"):
        b = e.get("b")
        if b is None or b.get("k") == "This":
            return e["n"]
        return term(lo, b) + "." + e["n"]
    if k == "Ref":
        if e.get("dk") == "enum":
            return e.get("qn", e["n"]).rsplit("::", 1)[-1]
        if e.get("dk") == "param":
            return "$" + e["n"]
        return "%s:%s" % (e.get("dk"), e["n"])
    if k == "Bin":
        a, b = term(lo, e["lhs"]), term(lo, e["rhs"])
        if e["op"] == "*":
            return "mul(%s)" % ",".join(sorted([a, b]))
        if e["op"] == "+":
            return "add(%s)" % ",".join(sorted([a, b]))
        return "%s(%s,%s)" % ({"-": "sub", "/": "div", "%": "mod"}.get(e["op"], e["op"]), a, b)
    if k == "Un":
        if e["op"] in ("++", "--"):
            return "%s%s(%s)" % ("post" if e.get("post") else "pre", "inc" if e["op"] == "++" else "dec", term(lo, e["e"]))
        return "%s(%s)" % ({"-": "neg", "!": "not", "+": "pos"}.get(e["op"], e["op"]), term(lo, e["e"]))
    if k in ("Call", "MCall"):
        nm = cname(e)
        args = [term(lo, a) for a in e.get("a", [])]
        if k == "MCall" and e.get("obj") is not None and e["obj"].get("k") != "This":
            return "%s.%s(%s)" % (term(lo, e["obj"]), nm, ",".join(args))
        return "%s(%s)" % (nm, ",".join(args))
    if k == "This":
        return "this"
    return "?" + render(e)


def status_lit(e):
    e = strip(e)
    if isinstance(e, dict) and e.get("k") == "Ref" and e.get("dk") == "enum" and e.get("qn", "").startswith(STATUS_QN):
        return e["qn"][len(STATUS_QN):]
    return None


def is_status_type(fn, t):
    s = fn.type(t).replace("const ", "").strip()
    return s == STATUS_T


def leaf_guards(c, pol):
    """decompose a branch fact (expression c has truth value pol) into the leaf facts it implies"""
    c = strip(c)
    if c.get("k") == "Un" and c.get("op") == "!":
        return leaf_guards(c["e"], not pol)
    if c.get("k") == "Bin" and c.get("op") == "&&" and pol:
        return leaf_guards(c["lhs"], True) + leaf_guards(c["rhs"], True)
    if c.get("k") == "Bin" and c.get("op") == "||" and not pol:
        return leaf_guards(c["lhs"], False) + leaf_guards(c["rhs"], False)
    return [(c, pol)]


class Guards:
    """for a block B: the branch facts (condition, polarity) that hold on every path entry -> B"""

    def __init__(self, fn):
        self.fn = fn
        self.cfg = fn.cfg
        self._cache = {}

    def _reach_without_edge(self, d, s):
        cfg = self.cfg
        seen = set()
        st = [cfg.entry]
        while st:
            b = st.pop()
            if b in seen:
                continue
            seen.add(b)
            for t in cfg.succ.get(b, []):
                if b == d and t == s:
                    continue
                st.append(t)
        return seen

    def of_block(self, blk):
        if blk in self._cache:
            return self._cache[blk]
        out = []
        cfg = self.cfg
        for bid, b in cfg.blocks.items():
            ss = b.get("succ", [])
            if len(ss) != 2 or b.get("cond") is None or ss[0] == ss[1] or ss[0] is None or ss[1] is None:
                continue
            c = self.fn.by_id(b["cond"])
            if c is None:
                continue
            for pol, s in ((True, ss[0]), (False, ss[1])):
                if blk not in self._reach_without_edge(bid, s):
                    out.extend(leaf_guards(c, pol))
        self._cache[blk] = out
        return out

    def of_stmt(self, sid):
        w = self.cfg.block_of(sid)
        return self.of_block(w[0]) if w else []


# -------------------------------------------------------------------------------------------------
# E7: abstract interpretation of Status-typed locals
# -------------------------------------------------------------------------------------------------

class Unknown(Exception):
    pass


class StatusFlow:
    """Forward dataflow over the CFG.  State: Status local -> set of (value, origin); origin is
    ('lit', stmt_id) for an enumerator written in statement stmt_id, ('upd', call_id, name) for the
    result of a defect-update call.  Branches on `v == Status::X` / `v != Status::X` refine."""

    def __init__(self, fn, callee_values, helpers=None):
        self.fn = fn
        self.cfg = fn.cfg
        self.lo = Locals(fn)
        self.cv = callee_values
        self.helpers = helpers or {}     # own-class Status helpers: name -> set of (value, kind); kind = underlying update name | 'hlit'
        self.unmodelled_tests = []       # conditions on a Status local that the refinement does not understand
        self.lambda_flows = {}           # name -> (Function, StatusFlow) of the Status-returning closures called here
        self.svars = {d for d, v in self.lo.var.items() if is_status_type(fn, v.get("t")) and not v.get("ref")}
        # by-value Status parameters (of a helper): tracked like locals, initial value the symbolic "$i" (bound at the call site)
        self.pvars = {p["d"]: i for i, p in enumerate(fn.params) if is_status_type(fn, p["t"]) and "&" not in (fn.type(p["t"]) or "")}
        self.svars |= set(self.pvars)
        # bool locals that (somewhere) receive a test of a Status local: tracked as facts ("b", d) -> {id of the test expression}
        self.bvars = set()
        for n in fn.nodes():
            tgt, src = None, None
            if n.get("k") == "Var" and n.get("init") is not None and not n.get("ref"):
                tgt, src = n.get("d"), n["init"]
            elif n.get("k") == "Assign" and strip(n["lhs"]).get("k") == "Ref" and strip(n["lhs"]).get("dk") == "local":
                tgt, src = strip(n["lhs"]).get("d"), n["rhs"]
            if tgt is not None and (fn.type((self.lo.var.get(tgt) or {}).get("t")) or "").replace("const ", "").strip() == "bool" \
                    and any(x.get("k") == "Ref" and x.get("d") in self.svars for x in walk(src)):
                self.bvars.add(tgt)
        self.problems = []
        self.returns = {}      # return stmt id -> set
        self.kills = []        # (stmt id, var name, old set, new set)
        self.instate = {}
        self._run()

    # evaluation
    def ev(self, e, state, sid, ctx=()):
        """ctx: the (?: condition node id, polarity) pairs under which this operand is selected"""
        e = strip(e)
        v = status_lit(e)
        if v is not None:
            return {(v, ("lit", sid, tuple(ctx)))}
        k = e.get("k")
        if k == "Ref" and e.get("d") in self.svars:
            if e["d"] not in state:
                raise Unknown("Status local '%s' read before initialisation" % e["n"])
            return set(state[e["d"]])
        if k in ("MCall", "Call"):
            nm = cname(e)
            if nm in self.cv:
                return {(v, ("upd", e["i"], nm)) for v in self.cv[nm]}
            if nm in self.helpers and (k == "Call" or e.get("obj") is None or e["obj"].get("k") == "This"):
                out = set()
                for v, kind in self.helpers[nm]:
                    if kind == "param":
                        i = int(v[1:])
                        if i >= len(e.get("a", [])):
                            raise Unknown("Status parameter %d of %s has no argument" % (i, nm))
                        out |= self.ev(e["a"][i], state, sid, ctx)       # the helper hands its Status argument back
                    else:
                        out.add((v, ("hlit", e["i"], nm) if kind == "hlit" else ("upd", e["i"], kind)))
                return out
            raise Unknown("Status produced by unmodelled call %s" % render(e)[:80])
        if k == "OpCall" and e.get("op") == "()" and e.get("a"):
            # a local closure (`const auto finish = [this](IterationStats&, Status st) -> Status {...; return st;}`): summarised like a
            # Status helper - literal / defect-update results of its own, and parameters handed back are bound to the call's arguments
            lam = [f for f in _LAMBDAS if f.d.get("decl") is not None and f.d.get("decl") == e.get("cdecl") and f.cfg is not None]
            if lam and lam[0].d.get("ret") is not None and is_status_type(lam[0], lam[0].d["ret"]):
                lname = "<lambda@%s>" % lam[0].line
                if lname not in self.lambda_flows:
                    self.lambda_flows[lname] = (lam[0], StatusFlow(lam[0], self.cv, self.helpers))
                sub = self.lambda_flows[lname][1]
                for pr in sub.problems:
                    raise Unknown("closure called at line %s: %s" % (e.get("l"), pr))
                out = set()
                for rs in sub.returns.values():
                    for v, org in rs:
                        if org[0] == "param":
                            if 1 + org[1] >= len(e["a"]):
                                raise Unknown("Status parameter %d of the closure has no argument" % org[1])
                            out |= self.ev(e["a"][1 + org[1]], state, sid, ctx)
                        elif org[0] == "upd":
                            out.add((v, ("upd", e["i"], org[2])))
                        else:
                            out.add((v, ("hlit", e["i"], lname)))
                if sub.returns:
                    return out
        if k == "Cond":
            ci = strip(e["c"]).get("i")
            return self.ev(e["then"], state, sid, tuple(ctx) + ((ci, True),)) | self.ev(e["else"], state, sid, tuple(ctx) + ((ci, False),))
        if k == "Assign" and e.get("op") == "=":
            return self.ev(e["rhs"], state, sid, ctx)
        raise Unknown("Status value of unmodelled expression %s" % render(e)[:80])

    def bool_facts(self, leaf, state):
        """a bool local that holds a test of a Status local which is still valid here -> the possible test expressions
        (one per reaching definition), None if some reaching definition is unknown / stale"""
        if leaf.get("k") == "Ref" and leaf.get("dk") == "local" and ("b", leaf.get("d")) in state:
            ids = state[("b", leaf["d"])]
            if ids and -1 not in ids and len(ids) <= 3:
                es = [self.fn.by_id(i) for i in sorted(ids)]
                if all(e is not None for e in es):
                    return es
        return None

    def expand_alternatives(self, c, pol, state, depth=0):
        """-> list of alternatives, each a list of (leaf, polarity): bool locals holding Status tests are replaced by the test
        they hold; several reaching definitions give several alternatives (the refined states are joined)"""
        alts = [[]]
        for leaf, p in leaf_guards(c, pol):
            leaf = strip(leaf)
            es = self.bool_facts(leaf, state) if depth < 4 else None
            if es is None:
                opts = [[(leaf, p)]]
            else:
                opts = []
                for e in es:
                    opts += self.expand_alternatives(e, p, state, depth + 1)
            alts = [a + o for a in alts for o in opts][:16]
        return alts

    def expand_leaves(self, c, pol, state, depth=0):
        out = []
        for alt in self.expand_alternatives(c, pol, state):
            out += alt
        return out

    def refine(self, c, pol, state):
        res = None
        for alt in self.expand_alternatives(c, pol, state):
            st = self.refine_leaves(alt, state)
            if st is None:
                continue
            if res is None:
                res = dict(st)
            else:
                for d, vs in st.items():
                    res[d] = (res[d] | vs) if d in res else vs
        return res

    def refine_leaves(self, leaves, state):
        st = dict(state)
        for leaf, p in leaves:
            leaf = strip(leaf)
            if leaf.get("k") == "Bool":
                if bool(leaf.get("v")) != p:
                    return None
                continue
            if leaf.get("k") != "Bin" or leaf.get("op") not in ("==", "!="):
                continue
            l, r = strip(leaf["lhs"]), strip(leaf["rhs"])
            if l.get("k") == "Assign":
                l = strip(l["lhs"])
            if r.get("k") == "Assign":
                r = strip(r["lhs"])
            if status_lit(l) is not None:
                l, r = r, l
            v = status_lit(r)
            if v is None or l.get("k") != "Ref" or l.get("d") not in self.svars or l["d"] not in st:
                continue
            leaf["_refined"] = True
            want_eq = (leaf["op"] == "==") == p
            new = frozenset(x for x in st[l["d"]] if x[0].startswith("$") or (x[0] == v) == want_eq)
            if not new:
                return None
            st[l["d"]] = new
        return st

    def note_unmodelled(self, c, state=None):
        """a branch condition that mentions a Status local in a form refine() does not model"""
        state = state or {}
        for leaf, p in self.expand_leaves(c, True, state) + self.expand_leaves(c, False, state):
            leaf = strip(leaf)
            if leaf.get("_refined"):
                continue
            stale = leaf.get("k") == "Ref" and leaf.get("d") in self.bvars       # a bool holding a Status test that is not (or no longer) known here
            if stale or any(x.get("k") == "Ref" and x.get("d") in self.svars for x in walk(leaf)):
                t = "line %s: `%s`" % (leaf.get("l"), render(leaf)[:60])
                if t not in self.unmodelled_tests:
                    self.unmodelled_tests.append(t)

    def switch_targets(self, blk):
        """for a switch on a Status local: {successor block: set of admitted values} or None"""
        c = strip(self.fn.by_id(blk["cond"])) if blk.get("cond") is not None else None
        if c is None or c.get("k") != "Ref" or c.get("d") not in self.svars:
            return None, None
        out, listed, default = {}, set(), None
        for s in blk.get("succ", []):
            if s is None:
                continue
            lab = self.fn.by_id(self.cfg.blocks[s].get("label")) if self.cfg.blocks[s].get("label") is not None else None
            if lab is not None and lab.get("k") == "Case" and status_lit(lab.get("v")) is not None:
                out.setdefault(s, set()).add(status_lit(lab["v"]))
                listed.add(status_lit(lab["v"]))
            elif lab is not None and lab.get("k") == "Default":
                default = s
            else:
                default = s if default is None else default      # implicit default: the statement after the switch
        if default is not None:
            out.setdefault(default, set()).update(set(ALL_STATUS) - listed)
        return c["d"], out

    def transfer(self, bid, state, record):
        st = dict(state)
        for sid in self.cfg.blocks[bid]["el"]:
            n = self.fn.by_id(sid)
            if n is None:
                continue
            k = n.get("k")
            try:
                if k == "Decl":
                    for v in n.get("vars", []):
                        if v["d"] in self.svars:
                            if v.get("init") is None:
                                continue
                            st[v["d"]] = frozenset(self.ev(v["init"], st, sid))
                            self.stale_bools(st, v["d"])
                        elif v["d"] in self.bvars:
                            st[("b", v["d"])] = frozenset({strip(v["init"])["i"]}) if v.get("init") is not None and "i" in strip(v["init"]) else frozenset({-1})
                elif k == "Assign" and strip(n["lhs"]).get("k") == "Ref" and strip(n["lhs"]).get("d") in self.bvars:
                    st[("b", strip(n["lhs"])["d"])] = frozenset({strip(n["rhs"])["i"]}) if n.get("op") == "=" and "i" in strip(n["rhs"]) else frozenset({-1})
                elif k == "Assign" and n.get("op") == "=" and strip(n["lhs"]).get("k") == "Ref" and strip(n["lhs"])["d"] in self.svars:
                    d = strip(n["lhs"])["d"]
                    new = frozenset(self.ev(n["rhs"], st, sid))
                    if record:
                        self.kills.append((sid, strip(n["lhs"])["n"], st.get(d, frozenset()), new))
                    st[d] = new
                    self.stale_bools(st, d)
                elif k == "Return" and record and n.get("e") is not None:
                    self.returns[sid] = self.ev(n["e"], st, sid)
            except Unknown as u:
                if record:
                    self.problems.append("%s (line %s)" % (u, n.get("l")))
        return st

    def stale_bools(self, st, d):
        """the Status local d was assigned: tests of it held in bool locals no longer describe it"""
        for key in [k2 for k2 in st if isinstance(k2, tuple) and k2[0] == "b"]:
            for i in st[key]:
                e = self.fn.by_id(i) if i != -1 else None
                if e is not None and any(x.get("k") == "Ref" and x.get("d") == d for x in walk(e)):
                    st[key] = frozenset({-1})
                    break

    def _run(self):
        cfg = self.cfg
        self.instate = {cfg.entry: {d: frozenset({("$%d" % i, ("param", i, ""))}) for d, i in self.pvars.items()}}
        work = [cfg.entry]
        while work:
            b = work.pop()
            out = self.transfer(b, self.instate[b], False)
            blk = cfg.blocks[b]
            ss = [s for s in blk.get("succ", [])]
            c = self.fn.by_id(blk["cond"]) if blk.get("cond") is not None else None
            sw_d, sw = (None, None)
            if blk.get("term") == "SwitchStmt":
                sw_d, sw = self.switch_targets(blk)
                if sw is None and c is not None and any(x.get("k") == "Ref" and x.get("d") in self.svars for x in walk(c)):
                    self.note_unmodelled(c, out)
            elif c is not None and len(ss) == 2:
                pass
            for pos, s in enumerate(ss):
                if s is None:
                    continue
                so = out
                if sw is not None and sw_d in out:
                    keep = frozenset(x for x in out[sw_d] if x[0].startswith("$") or x[0] in sw.get(s, set()))
                    if not keep:
                        continue
                    so = dict(out)
                    so[sw_d] = keep
                elif c is not None and len(ss) == 2 and ss[0] != ss[1]:
                    so = self.refine(c, pos == 0, out)
                    if pos == 1:
                        self.note_unmodelled(c, out)
                    if so is None:
                        continue
                old = self.instate.get(s)
                if old is None:
                    self.instate[s] = dict(so)
                    work.append(s)
                else:
                    ch = False
                    for d, vs in so.items():
                        if d not in old:
                            old[d] = vs
                            ch = True
                        elif not vs <= old[d]:
                            old[d] = old[d] | vs
                            ch = True
                    if ch:
                        work.append(s)
        for b in list(self.instate):
            self.transfer(b, self.instate[b], True)

    def feasible(self, bid):
        return bid in self.instate


def callee_value_sets(facts, ck):
    """value sets the defect-update functions of IterativeSolver can return, computed from their bodies"""
    cv = {}
    base = [f for f in facts.functions if short_cls(f.cls) == "IterativeSolver" and f.tk in ("inst", "plain")]
    for nm in ("_analyse_defect", "_set_initial_defect", "_set_new_defect", "_update_defect"):
        vals = None
        for f in base:
            if f.name != nm or f.cfg is None:
                continue
            # Status-returning helpers of the base class (a criterion extracted into its own function) are summarised
            members = {}
            for g in base:
                if g.cls == f.cls and g.name not in UPD:
                    members.setdefault(g.name, []).append(g)
            _c, summ, _fl = status_helpers(members, f.cls, cv, skip=())
            sf = StatusFlow(f, cv, summ)
            if sf.problems:
                ck.incomplete("E7.status-origin", "IterativeSolver::%s: %s" % (nm, "; ".join(sf.problems[:3])))
            v = set()
            for s in sf.returns.values():
                v |= {x[0] for x in s}
            vals = v if vals is None else (vals | v)
        if vals is None:
            ck.incomplete("E7.status-origin", "anchor IterativeSolver::%s not found" % nm)
            vals = set(ALL_STATUS)
        cv[nm] = frozenset(vals)
    return cv


KNOWN_PREDICATES = ("is_converged", "is_diverged", "isfinite", "isnan", "_plot_iter", "_plot_summary", "_progress", "status_success", "abs", "sqr", "sqrt",
                    "dot", "norm2", "wait", "size", "at", "back", "front", "get_num_iter", "min", "max", "empty")


def classify_literal(fn, lo, gd, value, sid, defect_obj, ctx=(), wrappers=(), methods=None, info=None):
    """is the Status enumerator written in statement sid justified by the branch facts that dominate it (and by the
    conditions of the ?: operators that select it inside the statement: ctx = ((condition node id, polarity), ...))?
    -> (ok, why) ; ok None = not decidable (a dominating test goes through a predicate this rule does not model)"""
    guards = []
    todo = list(gd.of_stmt(sid))
    for ci, pol in ctx or ():
        cn = fn.by_id(ci)
        if cn is not None:
            todo += leaf_guards(cn, pol)
    n_exp = 0
    while todo and n_exp < 200:
        c, pol = todo.pop(0)
        n_exp += 1
        r = lo.resolve(c)
        h = (methods or {}).get(cname(r)) if (r.get("k") == "MCall" and (r.get("obj") is None or r["obj"].get("k") == "This") and cname(r) not in wrappers) else None
        hret = [x for x in h.nodes() if x.get("k") == "Return"] if h is not None and h is not fn else []
        if r is not strip(c) and (r.get("k") == "Un" and r.get("op") == "!" or r.get("k") == "Bin" and r.get("op") in ("&&", "||")):
            todo = leaf_guards(r, pol) + todo       # a bool local holding a compound test
        elif len(hret) == 1 and hret[0].get("e") is not None and not any(x.get("k") in ("If", "For", "While", "Do", "Switch") for x in h.nodes()):
            todo = leaf_guards(hret[0]["e"], pol) + todo       # a one-line own predicate: `bool _breakdown(x) const { return !isfinite(x); }`
        else:
            guards.append((r, pol))
    texts, opaque = [], []
    if info is not None:
        info["guards"] = list(guards)
    for c, pol in guards:
        texts.append(("" if pol else "!") + render(c)[:60])
        if (is_call(c) and not cname(c).startswith("_apply_precond") and cname(c) not in wrappers and cname(c) not in KNOWN_PREDICATES) or c.get("k") in ("Ref", "Member", "Lambda"):
            ty = fn.ntype(c) or ""
            if "bool" in ty or is_call(c):
                opaque.append(render(c)[:50])

    def verdict(msg):
        if opaque:
            return None, "Status::%s is guarded by predicate(s) this rule does not model (%s): cannot decide whether they are the required test" % (value, ", ".join(opaque))
        return False, msg
    if value == "aborted":
        for c, pol in guards:
            if is_call(c) and (cname(c).startswith("_apply_precond") or cname(c) in wrappers) and not pol:
                return True, "after failed %s" % cname(c)
            if is_call(c) and cname(c) == "isfinite" and not pol:
                return True, "breakdown: !isfinite(%s)" % term(lo, c["a"][0])
            if is_call(c) and cname(c) == "status_success" and not pol:
                return True, "after an unsuccessful inner solve"
        # a breakdown test: comparison of a scalar computed in this run (floating local, dot/norm result)
        for c, pol in guards:
            if c.get("k") == "Bin" and c.get("op") in ("<", "<=", ">", ">=", "==", "!="):
                for o in (lo.resolve(c["lhs"]), lo.resolve(c["rhs"])):
                    floating = re.search(r"\b(double|float)\b|DataType", fn.ntype(o) or "")
                    computed = (o.get("k") == "Ref" and o.get("dk") == "local") or o.get("k") in ("MCall", "Call", "Bin")
                    if floating and computed:
                        return True, "breakdown test %s" % render(c)[:60]
        return verdict("Status::aborted is returned without a failed _apply_precond or a breakdown test dominating it (guards: %s)" % (", ".join(texts) or "none"))
    if value in ("success", "diverged"):
        want = "is_converged" if value == "success" else "is_diverged"
        for c, pol in guards:
            if is_call(c) and cname(c) == want and pol and len(c.get("a", [])) <= 1:
                return True, "under %s(%s)" % (want, term(lo, c["a"][0]) if c.get("a") else "")
        return verdict("literal Status::%s is not control-dependent on the true edge of %s(norm of the current defect) (guards: %s)" % (value, want, ", ".join(texts) or "none"))
    if value in ("max_iter", "stagnated"):
        need = ("_max_iter",) if value == "max_iter" else ("_min_stag_iter", "_stag_rate")
        for c, pol in guards:
            names = {x.get("n") for x in walk(c) if x.get("k") == "Member"}
            if names & set(need):
                return True, "under a test of %s" % "/".join(sorted(names & set(need)))
        return verdict("literal Status::%s is not guarded by a test of %s (guards: %s)" % (value, " or ".join(need), ", ".join(texts) or "none"))
    return None, "unclassified"


def find_solver_functions(facts):
    """{solver short name: {member name: [Function...]}} for the 16 solver classes"""
    out = {}
    for f in facts.functions:
        sc = short_cls(f.cls)
        if sc in SOLVERS and f.file.endswith("/" + SOLVER_DIR + SOLVERS[sc]) and f.tk in ("inst", "plain"):
            out.setdefault(sc, {}).setdefault(f.name, []).append(f)
    return out


def outer_loops(fn, sf):
    """loops that carry the iteration: loop-condition blocks (while/for/do) whose condition tests a Status local,
    or condition-less / constant-true loops around an assignment of a Status local: [(cond block, var decl id)]"""
    out = []
    kill_blocks = {}
    for sid, vn, old, new in sf.kills:
        w = fn.cfg.block_of(sid)
        if w:
            kill_blocks.setdefault(w[0], strip(fn.by_id(sid)["lhs"])["d"])
    for bid, b in fn.cfg.blocks.items():
        if b.get("term") not in ("WhileStmt", "ForStmt", "DoStmt"):
            continue
        c = fn.by_id(b["cond"]) if b.get("cond") is not None else None
        d = None
        if c is not None:
            for x in walk(c):
                if x.get("k") == "Ref" and x.get("d") in sf.svars:
                    d = x["d"]
                    break
            if d is None:
                # `while(iterating)` with a bool local that holds a test of the Status local
                held = {x.get("d") for x in walk(c) if x.get("k") == "Ref" and x.get("d") in sf.bvars}
                for n in fn.nodes() if held else ():
                    src = None
                    if n.get("k") == "Var" and n.get("d") in held and n.get("init") is not None:
                        src = n["init"]
                    elif n.get("k") == "Assign" and strip(n["lhs"]).get("k") == "Ref" and strip(n["lhs"]).get("d") in held:
                        src = n["rhs"]
                    for x in walk(src) if src is not None else ():
                        if x.get("k") == "Ref" and x.get("d") in sf.svars:
                            d = x["d"]
        if d is None and (c is None or strip(c).get("k") == "Bool"):
            # for(;;) / while(true): the iteration loop if a status assignment lies on its cycle
            succ = [s for s in b.get("succ", []) if s is not None]
            if succ:
                body = fn.cfg.reachable(succ[0], avoid={bid})
                cyc = [k for k in kill_blocks if k in body and bid in fn.cfg.reachable(k)]
                # only the outermost such loop: skip if this loop lies inside another candidate's body (approximation: take it)
                if cyc:
                    d = kill_blocks[cyc[0]]
        if d is not None:
            out.append((bid, d))
    return out


def status_helpers(members, cls, cv, skip=("apply", "correct", "_apply_intern")):
    """own-class members of the same instantiation that return a Status: {name: Function}, their value
    summaries {name: {(value, kind)}} and their flows.  kind = underlying defect-update name or 'hlit'."""
    cands = {}
    for name, fl in members.items():
        for f in fl:
            if f.cls == cls and name not in skip and f.d.get("ret") is not None and is_status_type(f, f.d["ret"]) and f.cfg is not None and not f.d.get("ctor"):
                cands[name] = f
    summ, flows = {}, {}
    for rnd in range(len(cands) + 1):
        for name, f in cands.items():
            if name in summ:
                continue
            sf = StatusFlow(f, cv, summ)
            pending = [c for c in f.calls() if cname(c) in cands and cname(c) not in summ and cname(c) != name]
            if pending and rnd < len(cands):
                continue
            vals = set()
            for rs in sf.returns.values():
                for v, org in rs:
                    vals.add((v, org[2] if org[0] == "upd" else ("param" if org[0] == "param" else "hlit")))
            summ[name] = vals
            flows[name] = sf
    return cands, summ, flows


def precond_wrappers(members, cls):
    """own-class bool functions (not themselves named _apply_precond*) that call _apply_precond*: candidates for
    'the preconditioner behind a private helper'; their inner calls are checked in bool mode (failure => false)"""
    out = {}
    for name, fl in members.items():
        if name.startswith("_apply_precond"):
            continue
        for f in fl:
            if f.cls == cls and f.cfg is not None and not f.d.get("ctor") and f.d.get("ret") is not None \
                    and (f.type(f.d["ret"]) or "").replace("const ", "").strip() == "bool" and any(cname(c).startswith("_apply_precond") for c in f.calls()):
                out[name] = f
    return out


def own_unmodelled_calls(fn, known):
    """calls of non-const own-class methods that the status rules do not model (possible carriers of a missing effect)"""
    out = []
    for c in fn.calls():
        if c.get("k") == "MCall" and (c.get("obj") is None or c["obj"].get("k") == "This") and not c.get("cconst") and cname(c) not in known:
            if short_cls(c.get("ccls", "")) in (short_cls(fn.cls), "IterativeSolver", "PreconditionedIterativeSolver", "SolverBase"):
                out.append(cname(c))
        elif c.get("k") == "OpCall" and c.get("op") == "()":
            out.append("lambda/functor call at line %s" % c.get("l"))
    return sorted(set(out))


PROTOCOL_KNOWN = set(UPD) | {"_apply_precond", "_apply_precond_l", "_apply_precond_r", "_precond_l", "_precond_r", "_plot_iter_line", "_print_line", "_set_shadow_space",
                               "plot_summary", "set_plot_name"}


def find_defect_obj(fn, lo, cands):
    """object measured by _set_initial_defect, looked up in fn or one level down in a helper"""
    inits = [c for c in fn.calls() if cname(c) == "_set_initial_defect"]
    if inits:
        return objkey(lo, inits[0]["a"][0])
    for c in fn.calls():
        h = cands.get(cname(c))
        if h is None:
            continue
        hl = Locals(h)
        for c2 in h.calls():
            if cname(c2) == "_set_initial_defect":
                k = objkey(hl, c2["a"][0])
                if k.startswith("$"):
                    i = int(k[1:])
                    return objkey(lo, c["a"][i]) if i < len(c.get("a", [])) else None
                return k
    return None


def rule_status_protocol(ck, solvers, cv):
    """E7 rules on every _apply_intern (and on the Status-returning private helpers it delegates to)"""
    for sc in sorted(SOLVERS):
        fns = solvers.get(sc, {}).get("_apply_intern", [])
        if not fns:
            ck.incomplete("E7.status-origin", "anchor %s::_apply_intern not instantiated" % sc)
            continue
        res = {}   # category -> list of (ok, detail, line)
        perkey = {}  # (rule, key) -> list of (ok, detail, line)

        def add(cat, ok, detail, line):
            res.setdefault(cat, []).append((ok, detail, line))

        for fn in fns:
            tag = short_inst(fn)
            cands, summ, hflows = status_helpers(solvers.get(sc, {}), fn.cls, cv)
            wrappers = precond_wrappers(solvers.get(sc, {}), fn.cls)
            sf = StatusFlow(fn, cv, summ)
            lo = sf.lo
            units = [("_apply_intern", fn, sf)] + [(n, cands[n], hflows[n]) for n in sorted(cands) if any(cname(c) == n for u in [fn] + list(cands.values()) for c in u.calls())]
            for usf0 in [u[2] for u in units]:
                for lname, (lfn, lsf) in sorted(usf0.lambda_flows.items()):
                    if not any(u[0] == lname for u in units):
                        units.append((lname, lfn, lsf))
            for un, ufn, usf in units:
                for p in usf.problems:
                    ck.incomplete("E7.status-origin", "%s::%s [%s]: %s" % (sc, un, tag, p))
            if not sf.returns:
                ck.incomplete("E7.status-origin", "%s::_apply_intern [%s]: no return found" % (sc, tag))
            opaque_tests = sf.unmodelled_tests
            carriers = own_unmodelled_calls(fn, PROTOCOL_KNOWN | set(cands) | set(wrappers))

            def definite(cat, rule, detail, line, why_not=None):
                """a value-set verdict is definite only if every test of the Status locals was understood"""
                if opaque_tests or why_not:
                    ck.incomplete(rule, "%s::_apply_intern [%s]: %s — not decidable: %s" % (sc, tag, detail[:160], why_not or ("the Status local is tested by " + "; ".join(opaque_tests[:2]))))
                else:
                    add(cat, False, detail, line)
            defect_obj = find_defect_obj(fn, lo, cands)
            # --- returned values of _apply_intern
            for rid, vals in sorted(sf.returns.items()):
                rn = fn.by_id(rid)
                line = rn.get("l")
                prog = [x for x in vals if x[0] == "progress"]
                if prog:
                    definite("progress", "E7.status-origin", "return at line %s may yield Status::progress (internal use only): %s" % (line, render(rn)), line)
                else:
                    add("progress", True, "no return can yield progress", line)
                und = [x for x in vals if x[0] == "undefined"]
                if und:
                    w = fn.cfg.block_of(rid)
                    path = fn.cfg.path_to(w[0]) if w else None
                    definite("undefined", "E7.status-origin", "[%s] `%s` at line %s is reachable: the Status locals admit %s there (CFG path through lines %s); a run whose defect update already returned a terminal status ends with Status::undefined" % (
                        tag, render(rn), line, describe_state(sf, w[0] if w else None), compress(fn.cfg.block_lines(path))), line)
            # --- literal terminal statuses, in _apply_intern and in the helpers
            nlit = 0
            for un, ufn, usf in units:
                ulo, ugd = usf.lo, Guards(ufn)
                seen = set()
                for rid, vals in sorted(usf.returns.items()):
                    for v, org in sorted(vals, key=str):
                        if org[0] != "lit" or v in ("progress", "undefined") or (v, org[1], org[2]) in seen:
                            continue
                        seen.add((v, org[1], org[2]))
                        nlit += 1
                        linfo = {}
                        ok, why = classify_literal(ufn, ulo, ugd, v, org[1], defect_obj, org[2], wrappers,
                                                   {mn: [f for f in mfl if f.cls == fn.cls and f.cfg is not None][0] for mn, mfl in solvers.get(sc, {}).items()
                                                    if [f for f in mfl if f.cls == fn.cls and f.cfg is not None] and mn not in KNOWN_PREDICATES}, linfo)
                        sl = (ufn.by_id(org[1]) or {}).get("l")
                        if ok is None:
                            ck.incomplete("E7.status-origin", "%s::%s [%s] line %s: %s" % (sc, un, tag, sl, why))
                        else:
                            add("literal", ok, ("[%s] %s line %s: " % (tag, un, sl)) + why, sl)
                        if v == "success" and ok:
                            # a convergence exit of the solver's own must honour the minimum number of iterations like _analyse_defect does
                            gs = list(linfo.get("guards", []))
                            if ufn is not fn:
                                fgd = Guards(fn)
                                for c in fn.calls():
                                    if cname(c) == un:
                                        gs += [(lo.resolve(g), p) for g, p in fgd.of_stmt(c["i"])]
                            has_min = any(x.get("k") == "Member" and x.get("n") == "_min_iter" for g, p in gs for x in walk(g))
                            opaque_g = [render(g)[:40] for g, p in gs if is_call(g) and (g.get("obj") is None or (g.get("obj") or {}).get("k") == "This") and cname(g) not in KNOWN_PREDICATES
                                        and not cname(g).startswith("_apply_precond") and cname(g) not in wrappers]
                            mkey = "%s::_apply_intern/literal-success" % sc
                            if not has_min and opaque_g:
                                ck.incomplete("E13.min-iter-guard", "%s [%s] %s line %s: guarded by %s, which this rule does not follow" % (mkey, tag, un, sl, ", ".join(opaque_g[:2])))
                            else:
                                perkey.setdefault(("E13.min-iter-guard", mkey), []).append((has_min, "[%s] %s line %s: %s" % (tag, un, sl,
                                    "Status::success under a test of _min_iter" if has_min else
                                    "literal Status::success (%s) is not guarded by the minimum-iteration test: with _min_iter = m the run can end with success after fewer than m iterations "
                                    "(_analyse_defect returns progress while num_iter < _min_iter before it tests convergence)" % why), sl))
            # tail `return Status::undefined` that is infeasible: fine (c)
            for bid, b in fn.cfg.blocks.items():
                for sid in b["el"]:
                    n = fn.by_id(sid)
                    if n is not None and n.get("k") == "Return" and status_lit(n.get("e")) == "undefined" and not sf.feasible(bid):
                        add("undefined", True, "[%s] tail return of Status::undefined at line %s is infeasible (status is progress on every back edge and tested before the loop)" % (tag, n.get("l")), n.get("l"))
            if "undefined" not in res:
                add("undefined", True, "[%s] Status::undefined is never returned" % tag, fn.line)
            if nlit == 0:
                add("literal", True, "[%s] no literal terminal status" % tag, fn.line)
            # --- a terminal status of a defect update is never overwritten
            nk = 0
            for un, ufn, usf in units:
                for sid, vn, old, new in usf.kills:
                    lost = sorted({"%s from %s" % (x[0], x[1][2]) for x in old if x[0] != "progress" and x[1][0] == "upd"})
                    nk += 1
                    ln = (ufn.by_id(sid) or {}).get("l")
                    if lost:
                        definite("tested", "E7.status-tested", "[%s] %s line %s: `%s` overwrites '%s' while it may still hold a terminal status that was never returned: %s" % (tag, un, ln, render(ufn.by_id(sid))[:90], vn, ", ".join(lost)), ln,
                                 ("the Status local is tested by " + "; ".join(usf.unmodelled_tests[:2])) if usf.unmodelled_tests else None)
                    else:
                        add("tested", True, "[%s] every defect-update status is tested before '%s' is reassigned" % (tag, vn), ln)
            if nk == 0:
                add("tested", True, "[%s] status variable assigned once" % tag, fn.line)
            # --- every _apply_precond result is tested and its failure returns aborted
            used_wrappers = sorted(w for w in wrappers if any(cname(c) == w for u in [fn] + [cands[n] for n in cands] + list(wrappers.values()) for c in u.calls()))
            for un, ufn, usf in units + [(w, wrappers[w], None) for w in used_wrappers]:
                for c in ufn.calls():
                    if not (cname(c).startswith("_apply_precond") or (cname(c) in wrappers and wrappers[cname(c)] is not ufn)) or not re.search(r"\bbool\b", ufn.ntype(c) or "bool"):
                        continue
                    ok, why = precond_tested(ufn, usf, c, bool_mode=(usf is None))
                    key = "%s::%s/%s#%d" % (sc, un, cname(c), ordinal(ufn, c))
                    if ok is None:
                        ck.incomplete("E7.precond-tested", "%s [%s] line %s: %s" % (key, tag, c.get("l"), why))
                        ok = True
                    perkey.setdefault(("E7.precond-tested", key), []).append((ok, "[%s] line %s: %s" % (tag, c.get("l"), why), c.get("l")))
            # --- outer loop passes a defect update on every iteration ; initial defect first
            loops = outer_loops(fn, sf)
            if len(loops) < 1:
                ck.incomplete("E7.loop-defect-update", "%s::_apply_intern [%s]: no loop controlled by a Status local found" % (sc, tag))
            for head, d in loops:
                ok, why = loop_updates(fn, sf, head, d)
                ln = (fn.by_id(fn.cfg.blocks[head]["cond"]) or {}).get("l") if fn.cfg.blocks[head].get("cond") is not None else fn.line
                byp = BYPASS.get((fn.full, head), set())
                if ok and byp:
                    # a finite number of trips (under a first-pass flag) bypass the update: legitimate only while the measured vector is still
                    # the one analysed last, i.e. unmodified since its last measurement when such a trip starts
                    meths = {mn: [f for f in mfl if f.cls == fn.cls and f.cfg is not None][0] for mn, mfl in solvers.get(sc, {}).items() if [f for f in mfl if f.cls == fn.cls and f.cfg is not None]}
                    ff = FilterFlow(fn, {}, meths)
                    for hs in sorted(byp, key=str):
                        stt = ff.ins.get(hs)
                        if stt is None or defect_obj is None:
                            ck.incomplete("E7.loop-defect-update", "%s::_apply_intern [%s]: a pass of the loop at line %s skips the defect update under a flag; the state of the defect vector there could not be determined" % (sc, tag, ln))
                        elif not any(x.startswith("m:") and may_alias(x[2:], defect_obj) for x in stt):
                            ok, why = False, "loop at line %s: a pass that skips the defect update (flag state %s) starts although the defect vector %s has been modified since its last measurement: that iterate is never analysed" % (
                                ln, ", ".join("%s=%s" % (sf.lo.var[dd]["n"], vv) for dd, vv in sorted(hs[1])), defect_obj)
                if ok:
                    add("loop", True, "[%s] %s" % (tag, why), ln)
                else:
                    definite("loop", "E7.loop-defect-update", "[%s] %s" % (tag, why), ln, ("the loop body calls %s, which may perform the defect update" % ", ".join(carriers)) if carriers else None)
            init_helpers = {n for n, h in cands.items() if h.cfg.must_pass(lambda x: is_call(x) and cname(x) == "_set_initial_defect")[0]}
            ok, why = initial_first(fn, sf, loops, init_helpers)
            if ok:
                add("initial", True, "[%s] %s" % (tag, why), fn.line)
            else:
                definite("initial", "E7.initial-defect-first", "[%s] %s" % (tag, why), fn.line, ("%s is called before the iteration and may set the initial defect" % ", ".join(carriers)) if carriers else None)
            # --- norms handed to _update_defect / is_converged / is_diverged are norms of the defect vector
            for un, ufn, usf in units:
                for c in ufn.calls():
                    if cname(c) in ("is_converged", "is_diverged") and not c.get("a") and c.get("k") == "MCall" and (c.get("obj") is None or c["obj"].get("k") == "This"):
                        # the argument-less overloads test the cached _def_cur: judge the value last stored into it (by this function, else by the defect protocol)
                        asg = [a for a in ufn.nodes() if a.get("k") == "Assign" and a.get("op") == "=" and strip(a["lhs"]).get("k") == "Member" and strip(a["lhs"]).get("n") == "_def_cur"
                               and ufn.cfg.block_of(a["i"]) is not None and ufn.cfg.stmt_dominates(a["i"], c["i"])]
                        key = "%s::%s/%s#%d" % (sc, un, cname(c), ordinal(ufn, c))
                        if asg:
                            ok, why = norm_of_defect(ufn, usf.lo, asg[-1]["rhs"], defect_obj if un == "_apply_intern" or not (defect_obj or "").startswith("$") else None)
                            why = "_def_cur = %s (line %s): %s" % (render(asg[-1]["rhs"])[:30], asg[-1].get("l"), why)
                        else:
                            ok, why = True, "tests the cached _def_cur as the defect protocol left it (norm of the vector given to the last defect update; its currency is E7.tested-defect-current)"
                        if ok is None:
                            ck.incomplete("E7.defect-norm-object", "%s [%s] line %s: %s" % (key, tag, c.get("l"), why))
                            ok = True
                        perkey.setdefault(("E7.defect-norm-object", key), []).append((ok, "[%s] line %s: %s" % (tag, c.get("l"), why), c.get("l")))
                        continue
                    if cname(c) in ("_update_defect", "is_converged", "is_diverged") and len(c.get("a", [])) == 1:
                        ok, why = norm_of_defect(ufn, usf.lo, c["a"][0], defect_obj if un == "_apply_intern" or not (defect_obj or "").startswith("$") else None)
                        ra = usf.lo.resolve(c["a"][0])
                        if ok is None and un != "_apply_intern" and ra.get("k") == "Ref" and ra.get("dk") == "param":
                            # the tested value is a parameter of this helper: decide it at the call sites (one level up)
                            pi = [q["d"] for q in ufn.params].index(ra["d"]) if ra["d"] in [q["d"] for q in ufn.params] else None
                            sites = [(cun, cfn, csf, c2) for cun, cfn, csf in units for c2 in cfn.calls() if cname(c2) == un and cfn is not ufn and pi is not None and pi < len(c2.get("a", []))]
                            nres = [norm_of_defect(cfn, csf.lo, c2["a"][pi], defect_obj if cun == "_apply_intern" or not (defect_obj or "").startswith("$") else None) for cun, cfn, csf, c2 in sites]
                            if nres and all(r[0] is True for r in nres):
                                ok, why = True, "parameter '%s' of %s(): at the call site(s) %s" % (ra.get("n"), un, nres[0][1])
                            elif any(r[0] is False for r in nres):
                                ok, why = False, "parameter '%s' of %s(): %s" % (ra.get("n"), un, [r[1] for r in nres if r[0] is False][0])
                        key = "%s::%s/%s#%d" % (sc, un, cname(c), ordinal(ufn, c))
                        if ok is None:
                            ck.incomplete("E7.defect-norm-object", "%s [%s] line %s: %s" % (key, tag, c.get("l"), why))
                            ok = True
                        perkey.setdefault(("E7.defect-norm-object", key), []).append((ok, "[%s] line %s: %s" % (tag, c.get("l"), why), c.get("l")))
        f0 = fns[0]
        for (rule, key), items in sorted(perkey.items()):
            bad = [x for x in items if not x[0]]
            ck.ob(rule, key, not bad, "; ".join(x[1] for x in (bad or items)[:2]), f0.file, (bad or items)[0][2])
        for cat, rule in (("progress", "E7.status-origin"), ("undefined", "E7.status-origin"), ("literal", "E7.status-origin"),
                          ("tested", "E7.status-tested"), ("loop", "E7.loop-defect-update"), ("initial", "E7.initial-defect-first")):
            items = res.get(cat, [])
            bad = [x for x in items if not x[0]]
            key = "%s::_apply_intern" % sc + ("/" + cat if rule == "E7.status-origin" else "")
            if bad:
                ck.ob(rule, key, False, "; ".join(x[1] for x in bad[:3]), f0.file, bad[0][2])
            else:
                ck.ob(rule, key, True, "; ".join(x[1] for x in items[:4]) or "decided only partially, see analysis_incomplete", f0.file, f0.line)


def short_inst(fn):
    m = re.search(r"<(.*)>$", fn.cls)
    s = m.group(1) if m else ""
    s = s.replace("FEAT::LAFEM::", "").replace("FEAT::Global::", "G:").replace("unsigned int", "u32").replace("unsigned long", "u64")
    return s[:70]


def ordinal(fn, node):
    """ordinal of a call among the calls of the same callee name in its function (source order)"""
    nm = cname(node)
    ids = sorted(c["i"] for c in fn.calls() if cname(c) == nm)
    return ids.index(node["i"])


def compress(lines):
    out = []
    for l in lines or []:
        if l is not None and (not out or out[-1] != l):
            out.append(l)
    return ",".join(str(x) for x in out[:25])


def describe_state(sf, bid):
    if bid is None or bid not in sf.instate:
        return "?"
    parts = []
    for d, vs in sf.instate[bid].items():
        if isinstance(d, tuple):
            continue
        nm = sf.lo.var[d]["n"]
        parts.append("%s in {%s}" % (nm, ", ".join(sorted({"%s<-%s" % (x[0], x[1][2] if x[1][0] == "upd" else "literal") for x in vs}))))
    return "; ".join(parts)


def precond_tested(fn, sf, call, bool_mode=False):
    """-> (True|False|None, why).  None: the result flows somewhere this rule does not follow.
    bool_mode: fn is a bool wrapper of the preconditioner call: its failure must make the wrapper return false
    (the result returned as it is, or the failure edge leading only to `return false`)"""
    cfg = fn.cfg
    lo = sf.lo if sf is not None else Locals(fn)
    # the call itself, or a bool local initialised/assigned exactly from it, must be a leaf of a branch condition
    holders = {call["i"]}
    holder_vars = {}          # local -> True if it holds the result, False if it holds its negation

    def holds(e):
        lg = leaf_guards(e, True)
        if len(lg) == 1 and strip(lg[0][0]).get("i") == call["i"]:
            return lg[0][1]
        return None
    for d, v in lo.var.items():
        if v.get("init") is not None and holds(v["init"]) is not None and lo.writes.get(d, 0) == 0:
            holder_vars[d] = holds(v["init"])
    for n in fn.nodes():
        if n.get("k") == "Assign" and n.get("op") == "=" and holds(n["rhs"]) is not None and strip(n["lhs"]).get("k") == "Ref" and lo.writes.get(strip(n["lhs"])["d"], 0) == 1:
            holder_vars[strip(n["lhs"])["d"]] = holds(n["rhs"])

    def is_result(x):
        x = strip(x)
        return x.get("i") in holders or (x.get("k") == "Ref" and x.get("d") in holder_vars)
    if bool_mode:
        for n in fn.nodes():
            if n.get("k") == "Return" and n.get("e") is not None:
                lg = leaf_guards(n["e"], True)
                if len(lg) == 1 and is_result(lg[0][0]):
                    lf = strip(lg[0][0])
                    pos = lg[0][1] if lf.get("i") in holders else (lg[0][1] == holder_vars[lf["d"]])
                    if pos:
                        return True, "the result of %s is returned as the result of %s()" % (cname(call), fn.name)
                    return False, "%s() returns the negation of the %s result" % (fn.name, cname(call))
    for bid, b in cfg.blocks.items():
        if b.get("cond") is None or len(b.get("succ", [])) != 2:
            continue
        c = fn.by_id(b["cond"])
        if c is None or not any(is_result(x) for x in walk(c)):
            continue
        pol = None
        for leaf, p in leaf_guards(c, True):
            if is_result(leaf):
                lf = strip(leaf)
                pol = p if lf.get("i") in holders else (p == holder_vars[lf["d"]])
        if pol is None:
            return None, "result of %s is used inside `%s` in a way that is not a plain success test" % (cname(call), render(c)[:80])
        fail = b["succ"][1] if pol else b["succ"][0]
        # from the failure edge every path must end in a return of aborted without reaching the call again
        seen, st = set(), [fail]
        callblk = (cfg.block_of(call["i"]) or (None,))[0]
        while st:
            x = st.pop()
            if x in seen:
                continue
            seen.add(x)
            if x == callblk:
                return False, "after a failed %s the iteration continues (the failure edge flows back to the call)" % cname(call)
            if x == cfg.exit:
                continue
            rets = [s for s in cfg.blocks[x]["el"] if (fn.by_id(s) or {}).get("k") == "Return"]
            if rets and bool_mode:
                rv = strip(fn.by_id(rets[0]).get("e") or {})
                if rv.get("k") == "Bool" and rv.get("v") is False:
                    continue
                if rv.get("k") == "Bool":
                    return False, "after a failed %s the wrapper %s() returns true at line %s" % (cname(call), fn.name, fn.by_id(rets[0]).get("l"))
                return None, "the value returned at line %s after a failed %s is not a literal" % (fn.by_id(rets[0]).get("l"), cname(call))
            if rets:
                vals = sf.returns.get(rets[0])
                if vals is None:
                    return None, "the value returned at line %s after a failed %s could not be evaluated" % (fn.by_id(rets[0]).get("l"), cname(call))
                if {v[0] for v in vals} != {"aborted"}:
                    return False, "after a failed %s the function returns %s at line %s instead of Status::aborted" % (
                        cname(call), sorted({v[0] for v in vals}), fn.by_id(rets[0]).get("l"))
                continue
            st.extend(s for s in cfg.succ.get(x, []))
        return True, ("failure of %s returns false" if bool_mode else "failure of %s returns Status::aborted") % cname(call)
    # not a branch condition: discarded, or flowing into something else?
    par = parent_map(fn)
    pn = par.get(call["i"])
    while pn is not None and pn.get("k") in ("Cast", "Un"):
        pn = par.get(pn.get("i"))
    used = holder_vars or (pn is not None and pn.get("k") not in ("Block", "If", "While", "For", "Do", "Case", "Default", "Switch"))
    if used:
        return None, "the result of %s is stored / passed on (%s) and not tested by a branch this rule follows" % (cname(call), render(pn)[:50] if pn is not None else "local")
    return False, "the bool result of %s(%s) is discarded: a preconditioner failure goes unnoticed and the iteration continues with an undefined correction" % (
        cname(call), ", ".join(render(a) for a in call.get("a", [])[:2]))


class FlagGraph:
    """the CFG of a function refined by the values of its *flags*: locals with a small value domain that only ever receive
    literals - `bool first_pass(true); ... first_pass = false;`, an enum local assigned enumerators, or a pass counter
    `Index pass(0); ... ++pass;` that is only compared with literals (counted with saturation just above the largest literal it is
    compared with).  Loop counters compared with anything else are not flags.  A state is (block, frozenset of (decl id, value));
    edges whose condition is decided by the flag values are pruned.  Without flags this is the CFG."""

    def __init__(self, fn):
        self.fn, self.cfg = fn, fn.cfg
        self.lo = Locals(fn)
        lo = self.lo

        def lit(e):
            """('b', bool) / ('i', int) / ('e', name) for a literal, else None"""
            e = strip(e) if isinstance(e, dict) else {}
            if e.get("k") == "Bool":
                return ("b", bool(e["v"]))
            if e.get("k") == "Int":
                try:
                    return ("i", int(e["v"]))
                except (TypeError, ValueError):
                    return None
            if e.get("k") == "Ref" and e.get("dk") == "enum":
                return ("e", e.get("qn", e.get("n", "")).rsplit("::", 1)[-1])
            return None
        self.lit = lit
        kind = {}
        for d, v in lo.var.items():
            if v.get("ref"):
                continue
            t = (fn.type(v.get("t")) or "").replace("const ", "").strip()
            if v.get("init") is not None and lit(v["init"]) is None:
                continue
            if t == "bool":
                if lo.writes.get(d, 0) > 0:
                    kind[d] = "b"
            elif v.get("init") is not None and lo.writes.get(d, 0) > 0:
                k0 = lit(v["init"])[0]
                if k0 in ("i", "e"):
                    kind[d] = k0
        cmp_lits = {d: [] for d in kind}
        par = parent_map(fn) if kind else {}
        for n in fn.nodes():
            k = n.get("k")
            if k == "Assign" and strip(n["lhs"]).get("k") == "Ref" and strip(n["lhs"]).get("d") in kind:
                d = strip(n["lhs"])["d"]
                l = lit(n["rhs"])
                ok = (n.get("op") == "=" and l is not None and l[0] == kind[d]) or (kind[d] == "i" and n.get("op") == "+=" and l is not None and l[0] == "i" and l[1] >= 0)
                if not ok:
                    kind.pop(d, None)
            elif k == "Un" and n.get("op") in ("++", "--") and strip(n["e"]).get("k") == "Ref" and strip(n["e"]).get("d") in kind:
                d = strip(n["e"])["d"]
                if not (kind[d] == "i" and n["op"] == "++"):
                    kind.pop(d, None)
            elif is_call(n):
                for i2, a in enumerate(n.get("a", [])):
                    a = strip(a) if isinstance(a, dict) else {}
                    if a.get("k") == "Ref" and a.get("d") in kind:
                        pt = fn.type(n["pt"][i2]) if i2 < len(n.get("pt", [])) else "&"
                        if ("&" in pt or "*" in pt) and "const" not in pt:
                            kind.pop(a["d"], None)
            elif k == "Bin" and n.get("op") in ("==", "!=", "<", "<=", ">", ">="):
                for x, y in ((n["lhs"], n["rhs"]), (n["rhs"], n["lhs"])):
                    x = strip(x)
                    if x.get("k") == "Ref" and x.get("d") in kind and kind[x["d"]] in ("i", "e"):
                        l = lit(y)
                        if l is None or l[0] != kind[x["d"]]:
                            kind.pop(x["d"], None)          # compared with something that is not a literal: a real counter, not a flag
                        else:
                            cmp_lits[x["d"]].append(l[1])
        for d in [d for d in kind if kind[d] in ("i", "e") and not cmp_lits.get(d)]:
            kind.pop(d)
        self.kind = kind
        self.cap = {d: max(cmp_lits[d]) + 1 for d in kind if kind[d] == "i"}
        self.flags = set(kind)

    def after_block(self, b, fv):
        if not self.flags:
            return fv
        vals = dict(fv)
        for sid in self.cfg.blocks[b]["el"]:
            n = self.fn.by_id(sid)
            if n is None:
                continue
            self.step(n, vals)
        return frozenset(vals.items())

    def step(self, n, vals):
        """effect of one CFG element on the flag values (dict, updated in place)"""
        if n.get("k") == "Decl":
            for v in n.get("vars", []):
                if v["d"] in self.flags:
                    if v.get("init") is not None:
                        vals[v["d"]] = self.lit(v["init"])[1]
                    else:
                        vals.pop(v["d"], None)
        elif n.get("k") == "Assign" and strip(n["lhs"]).get("k") == "Ref" and strip(n["lhs"]).get("d") in self.flags:
            d = strip(n["lhs"])["d"]
            l = self.lit(n["rhs"])
            if n.get("op") == "=":
                vals[d] = min(l[1], self.cap[d]) if self.kind[d] == "i" else l[1]
            elif d in vals:
                vals[d] = min(vals[d] + l[1], self.cap[d])
        elif n.get("k") == "Un" and n.get("op") == "++" and strip(n["e"]).get("k") == "Ref" and strip(n["e"]).get("d") in self.flags:
            d = strip(n["e"])["d"]
            if d in vals:
                vals[d] = min(vals[d] + 1, self.cap[d])

    def truth(self, c, vals):
        """three-valued truth of a branch condition under the flag values (dict)"""
        if c is None:
            return None
        c = self.lo.resolve(c)
        k = c.get("k")
        if k == "Bool":
            return bool(c["v"])
        if k == "Ref" and c.get("d") in self.flags and self.kind[c["d"]] == "b":
            return vals.get(c["d"])
        if k == "Un" and c.get("op") == "!":
            t = self.truth(c["e"], vals)
            return None if t is None else not t
        if k == "Bin" and c.get("op") in ("&&", "||"):
            a, b = self.truth(c["lhs"], vals), self.truth(c["rhs"], vals)
            if c["op"] == "&&":
                return False if (a is False or b is False) else (True if (a and b) else None)
            return True if (a or b) else (False if (a is False and b is False) else None)
        if k == "Bin" and c.get("op") in ("==", "!=", "<", "<=", ">", ">="):
            l, r = strip(c["lhs"]), strip(c["rhs"])
            op = c["op"]
            if not (l.get("k") == "Ref" and l.get("d") in self.flags) and r.get("k") == "Ref" and r.get("d") in self.flags:
                l, r = r, l
                op = {"<": ">", "<=": ">=", ">": "<", ">=": "<=", "==": "==", "!=": "!="}[op]
            if l.get("k") == "Ref" and l.get("d") in self.flags and l["d"] in vals:
                d, kd = l["d"], self.kind[l["d"]]
                if kd == "b":
                    t2 = self.truth(r, vals)
                    if t2 is not None and op in ("==", "!="):
                        return (vals[d] == t2) == (op == "==")
                    return None
                lt = self.lit(r)
                if lt is None or lt[0] != kd:
                    return None
                v, x = vals[d], lt[1]
                if kd == "e":
                    return ((v == x) == (op == "==")) if op in ("==", "!=") else None
                if v >= self.cap[d]:          # saturated: the value is at least cap > x
                    return {"==": False, "!=": True, "<": False, "<=": False, ">": True, ">=": True}[op]
                return {"==": v == x, "!=": v != x, "<": v < x, "<=": v <= x, ">": v > x, ">=": v >= x}[op]
            a, b = self.truth(c["lhs"], vals), self.truth(c["rhs"], vals)
            if a is not None and b is not None and op in ("==", "!="):
                return (a == b) == (op == "==")
        return None

    def edges(self, b, fv):
        """successor states of (b, fv)"""
        out = self.after_block(b, fv)
        blk = self.cfg.blocks[b]
        ss = blk.get("succ", [])
        t = None
        if self.flags and blk.get("cond") is not None and len(ss) == 2 and ss[0] != ss[1] and blk.get("term") != "SwitchStmt":
            t = self.truth(self.fn.by_id(blk["cond"]), dict(out))
        res = []
        for pos, x in enumerate(ss):
            if x is None or (t is not None and (pos == 0) != t):
                continue
            res.append((x, out))
        return res

    def reachable(self):
        seen, st = set(), [(self.cfg.entry, frozenset())]
        while st:
            s0 = st.pop()
            if s0 in seen or len(seen) > 20000:
                continue
            seen.add(s0)
            st.extend(self.edges(*s0))
        return seen


BYPASS = {}


def loop_updates(fn, sf, head, d):
    cfg = fn.cfg
    marked = set()
    for sid, vn, old, new in sf.kills:
        n = fn.by_id(sid)
        upd = [x for x in new if x[1][0] == "upd" and x[1][2] != "_set_initial_defect"]
        prog_other = [x for x in new if x[0] == "progress" and x not in upd]
        # an update point: the status can only come back as `progress` out of a (non-initial) defect update
        if strip(n["lhs"])["d"] == d and upd and not prog_other:
            w = cfg.block_of(sid)
            if w:
                marked.add(w[0])
    body = cfg.blocks[head]["succ"][0]
    # inner counted loops are entered at least once (their zero-trip exit is not a path of interest:
    # `for(k = 0; k <= dim; ++k)`); the exit edge of an inner loop head is followed only from its back edge
    inner = {b for b, blk in cfg.blocks.items() if b != head and blk.get("term") in ("ForStmt", "WhileStmt", "DoStmt", "CXXForRangeStmt") and len(blk.get("succ", [])) == 2}
    # The CFG is refined by the values of bool flags (FlagGraph): a trip that bypasses the update under `first_pass` and clears the
    # flag leads to another state of the loop head; only a *cycle* through a head state without an update skips the criteria for good.
    fg = FlagGraph(fn)
    head_states = [x for x in fg.reachable() if x[0] == head]
    cyc = None
    for hs in head_states:
        seen_edges, st = set(), [(hs, x) for x in fg.edges(*hs) if x[0] == body]
        while st and cyc is None:
            p, cur = st.pop()
            b = cur[0]
            if (p, cur) in seen_edges or b in marked:
                continue
            seen_edges.add((p, cur))
            if cur == hs:
                cyc = hs
                break
            if b == head and cur != hs:
                BYPASS.setdefault((fn.full, head), set()).add(hs)          # a trip from hs around the loop without a defect update (it ends in another flag state)
            nxt = fg.edges(*cur)
            if b == head:
                nxt = [x for x in nxt if x[0] == body]
            elif b in inner and b not in cfg.dom.get(p[0], ()):
                first = cfg.blocks[b]["succ"][0]
                nxt = [x for x in nxt if x[0] == first]
            for x in nxt:
                st.append((cur, x))
        if cyc is not None:
            break
    ln = (fn.by_id(cfg.blocks[head]["cond"]) or {}).get("l") if cfg.blocks[head].get("cond") is not None else compress(cfg.block_lines([body])[:1])
    if cyc is not None:
        return False, "loop at line %s: some path from the loop head back to it passes no _set_new_defect/_update_defect assigning '%s' (the stopping criteria are skipped for that iteration)" % (ln, sf.lo.var[d]["n"])
    if not marked:
        return False, "loop at line %s has no defect update" % ln
    return True, "every iteration of the loop at line %s passes a defect update" % ln


def initial_first(fn, sf, loops, init_helpers=()):
    cfg = fn.cfg
    targets = {h for h, d in loops}
    for c in fn.calls():
        if cname(c) in ("_set_new_defect", "_update_defect"):
            w = cfg.block_of(c["i"])
            if w:
                targets.add(w[0])
    ok, bad = cfg.must_pass(lambda n: is_call(n) and (cname(n) == "_set_initial_defect" or cname(n) in init_helpers), target_blocks=sorted(targets))
    if not ok:
        return False, "a path from entry reaches the iteration (block lines %s) without _set_initial_defect: _num_iter/_num_stag_iter/_def_init of the previous solve are reused" % compress(cfg.block_lines(cfg.path_to(bad[0])))
    n = len([c for c in fn.calls() if cname(c) == "_set_initial_defect" or cname(c) in init_helpers])
    return (n >= 1), ("_set_initial_defect precedes the iteration on every path" if n else "_set_initial_defect is never called")


def norm_of_defect(fn, lo, arg, defect_obj):
    """-> (True|False|None, why).  False only if the tested value is the 2-norm of an identified *other* vector"""
    e = lo.resolve(arg)
    # norm2_async().wait()
    if e.get("k") == "MCall" and cname(e) == "wait":
        e = lo.resolve(e.get("obj"))
    ob = None
    if e.get("k") == "MCall" and cname(e) in ("norm2", "norm2_async"):
        ob = objkey(lo, e.get("obj"))
    elif e.get("k") == "Call" and cname(e) == "sqrt" and e.get("a"):
        q = lo.resolve(e["a"][0])
        if q.get("k") == "MCall" and cname(q) == "wait":
            q = lo.resolve(q.get("obj"))
        if q.get("k") == "MCall" and cname(q) in ("dot", "dot_async") and q.get("a") and objkey(lo, q.get("obj")) == objkey(lo, q["a"][0]):
            ob = objkey(lo, q.get("obj"))
        elif q.get("k") == "MCall" and cname(q) == "norm2sqr":
            ob = objkey(lo, q.get("obj"))
    if ob is None:
        return None, "the value tested (%s) is not recognisably a 2-norm of a vector (computed elsewhere?)" % render(e)[:60]
    if defect_obj is None or defect_obj.startswith("?") or ob.startswith("?"):
        return None, "cannot identify the defect vector of this solver (argument of _set_initial_defect: %s; tested: norm of %s)" % (defect_obj, ob)
    if ob == defect_obj:
        return True, "norm of %s, the vector given to _set_initial_defect" % ob
    return False, "the value tested is the norm of %s, but the defect vector of this solver (argument of _set_initial_defect) is %s" % (ob, defect_obj)


# -------------------------------------------------------------------------------------------------
# E13: decision tables of loop-free predicates
# -------------------------------------------------------------------------------------------------

def formula(lo, e):
    """boolean expression -> ('atom', text) | ('not', f) | ('and', f, g) | ('or', f, g) | ('const', b).
    Comparisons are canonicalised to `le` atoms: a<b = !le(b,a), a>b = !le(a,b), a>=b = le(b,a)."""
    e = lo.resolve(e)
    k = e.get("k")
    if k == "_Term":
        return e["f"] if e.get("f") is not None else ("atom", e["text"])
    if k == "Bool":
        return ("const", bool(e["v"]))
    if k == "Un" and e.get("op") == "!":
        return ("not", formula(lo, e["e"]))
    if k == "Bin":
        op = e["op"]
        if op == "&&":
            return ("and", formula(lo, e["lhs"]), formula(lo, e["rhs"]))
        if op == "||":
            return ("or", formula(lo, e["lhs"]), formula(lo, e["rhs"]))
        if op in ("<", "<=", ">", ">=") and not e.get("_mm"):
            # x <= max(a,b) == (x<=a || x<=b), x <= min(a,b) == (x<=a && x<=b), max(a,b) <= x == (a<=x && b<=x), ... (total order)
            for side, other in (("rhs", "lhs"), ("lhs", "rhs")):
                m = lo.resolve(e[side])
                if m.get("k") == "Call" and cname(m) in ("max", "min") and len(m.get("a", [])) == 2 and (m.get("callee", "").startswith("FEAT::Math::") or m.get("callee", "").startswith("std::")):
                    parts = []
                    for a in m["a"]:
                        sub = {"k": "Bin", "op": op, "lhs": e["lhs"], "rhs": e["rhs"]}
                        sub[side] = a
                        parts.append(formula(lo, sub))
                    big_is_weak = (side == "rhs") == (op in ("<", "<="))      # x <= max / max-free side: a larger bound is easier to satisfy
                    conn = "or" if (cname(m) == "max") == big_is_weak else "and"
                    return (conn, parts[0], parts[1])
        if op in ("<", "<=", ">", ">=", "==", "!="):
            a, b = term(lo, e["lhs"]), term(lo, e["rhs"])
            if op == "<=":
                return ("atom", "le(%s,%s)" % (a, b))
            if op == ">=":
                return ("atom", "le(%s,%s)" % (b, a))
            if op == "<":
                return ("not", ("atom", "le(%s,%s)" % (b, a)))
            if op == ">":
                return ("not", ("atom", "le(%s,%s)" % (a, b)))
            x, y = sorted([a, b])
            if x in ALL_STATUS and y in ALL_STATUS:
                return ("const", (x == y) == (op == "=="))      # two enumerators (a Status result of an inlined helper)
            f = ("atom", "eq(%s,%s)" % (x, y))
            return f if op == "==" else ("not", f)
    return ("atom", term(lo, e))


def f_atoms(f, out=None):
    out = set() if out is None else out
    if f[0] == "atom":
        out.add(f[1])
    elif f[0] in ("not",):
        f_atoms(f[1], out)
    elif f[0] in ("and", "or"):
        f_atoms(f[1], out)
        f_atoms(f[2], out)
    return out


def f_eval(f, env):
    if f[0] == "const":
        return f[1]
    if f[0] == "atom":
        return env[f[1]]
    if f[0] == "not":
        return not f_eval(f[1], env)
    if f[0] == "and":
        return f_eval(f[1], env) and f_eval(f[2], env)
    return f_eval(f[1], env) or f_eval(f[2], env)


def split_top(s):
    depth = 0
    for i, ch in enumerate(s):
        if ch == "(":
            depth += 1
        elif ch == ")":
            depth -= 1
        elif ch == "," and depth == 0:
            return s[:i], s[i + 1:]
    return s, ""


class PathLocals:
    """Locals view along one path: re-assigned locals resolve to the value they hold at this point of the path,
    bound parameters (of an inlined helper) to the caller's value, inlined calls (key ('call', node id)) to their result"""

    def __init__(self, base, env):
        self.base, self.env = base, env
        self.fn, self.var, self.writes = base.fn, base.var, base.writes

    def resolve(self, e, depth=0):
        e = strip(e)
        while isinstance(e, dict) and depth < 20:
            k = e.get("k")
            if k in ("MCall", "Call") and ("call", e.get("i")) in self.env:
                return self.env[("call", e["i"])]
            if k != "Ref" or e.get("dk") not in ("local", "param"):
                break
            if e.get("d") in self.env:
                return self.env[e["d"]]
            if e.get("dk") == "param":
                break
            v = self.var.get(e.get("d"))
            if v is None or v.get("init") is None:
                break
            if not v.get("ref") and self.writes.get(e["d"], 0) > 0:
                break
            e = strip(v["init"])
            depth += 1
        return e


def f_text(f):
    """canonical text of a formula tree (used when a bool result of an inlined helper occurs inside a term)"""
    if f[0] == "const":
        return "true" if f[1] else "false"
    if f[0] == "atom":
        return f[1]
    if f[0] == "not":
        return "not(%s)" % f_text(f[1])
    return "%s(%s,%s)" % (f[0], f_text(f[1]), f_text(f[2]))


class Paths:
    """all entry->exit paths of a loop-free function: constraints [(formula, polarity)], field effects, outcome.
    Locals that are assigned more than once are tracked along each path (symbolic store).
    Calls of own-class helpers in `methods` ({name: Function}, the caller decides which are eligible: same class,
    non-virtual or not overridden, not one of the predicates the oracle treats as atoms) are followed: the helper's
    paths are enumerated with its parameters bound to the caller's values (depth <= 3, no recursion) and spliced
    into the caller's path - constraints, field effects in the caller's terms, and the result bound to the call
    expression.  Own non-const calls that could not be followed are listed in `opaque_calls`."""

    MAX_DEPTH = 3

    def __init__(self, fn, bool_result=False, methods=None, bind=None, depth=0, stack=(), start=None, stops=None, eff0=()):
        """start / stops: enumerate only the region from the beginning of block `start` to the first block in
        `stops` ({block: outcome label}); the outcome of a path is then the label of the stop block it reaches"""
        self.fn = fn
        self.stops = stops or {}
        self.lo = Locals(fn)
        self.paths = []
        self.problems = []
        self.bool_result = bool_result
        self.methods = methods or {}
        self.depth, self.stack = depth, tuple(stack) + (fn.name,)
        self.opaque_calls = []
        self.inlined = {}               # name -> Function of the helpers that were followed
        self._sub = {}
        cfg = fn.cfg
        # eff0: the effects of the caller's path so far (an inlined helper continues the caller's write counts)
        self._walk(cfg.entry if start is None else start, [], list(eff0), set(), dict(bind or {}), 0, [])

    def _select(self, lo, e, cons, eff=()):
        """a ?: whose condition was already decided on this path denotes the chosen branch"""
        e = lo.resolve(e)
        n = 0
        while e.get("k") == "Cond" and n < 8:
            f = self._curf(formula(lo, e["c"]), eff)
            hit = [pol for g, pol in cons if g == f]
            if not hit:
                break
            e = lo.resolve(e["then"] if hit[-1] else e["else"])
            n += 1
        return e

    def _value(self, lo, e, ty, cons=(), eff=()):
        e = self._select(lo, e, cons, eff)
        t = term(lo, e)
        f = None
        if ty.strip() in ("bool", "const bool"):
            try:
                f = formula(lo, e)
            except Exception:
                f = None
        return {"k": "_Term", "text": t, "f": f}

    # --- snapshots: a single-assignment local initialised from fields that the function also writes denotes the value the
    # fields had at its declaration.  Such field names are marked with their write count on the path (`_def_cur@0`); a mark is
    # dropped whenever the text is used while the count is still the same (the snapshot equals the current value).
    def written_fields(self):
        w = getattr(self, "_wf", None)
        if w is None:
            w = set()
            for f in [self.fn] + list(self.methods.values()):
                for n in f.nodes():
                    t = None
                    if n.get("k") == "Assign":
                        t = strip(n["lhs"])
                    elif n.get("k") == "Un" and n.get("op") in ("++", "--"):
                        t = strip(n["e"])
                    if isinstance(t, dict) and t.get("k") == "Member" and t.get("field") and (t.get("b") is None or t["b"].get("k") == "This"):
                        w.add(t["n"])
            self._wf = w
        return w

    @staticmethod
    def _nwrites(eff, field):
        return sum(1 for e in eff if re.match(r"^%s\W" % re.escape(field), e[0]))

    def _mark(self, text, eff):
        for f in self.written_fields():
            if f in text:
                text = re.sub(r"(?<![\w$:.@])%s(?![\w@])" % re.escape(f), "%s@%d" % (f, self._nwrites(eff, f)), text)
        return text

    def _cur(self, text, eff):
        if not isinstance(text, str) or "@" not in text:
            return text

        def sub(m):
            return m.group(1) if self._nwrites(eff, m.group(1)) == int(m.group(2)) else m.group(0)
        return re.sub(r"(?<![\w$:.])(_\w+)@(\d+)", sub, text)

    def _curf(self, f, eff):
        if f is None:
            return None
        if f[0] == "atom":
            return ("atom", self._cur(f[1], eff))
        if f[0] == "not":
            return ("not", self._curf(f[1], eff))
        if f[0] in ("and", "or"):
            return (f[0], self._curf(f[1], eff), self._curf(f[2], eff))
        return f

    def _markf(self, f, eff):
        if f is None:
            return None
        if f[0] == "atom":
            return ("atom", self._mark(f[1], eff))
        if f[0] == "not":
            return ("not", self._markf(f[1], eff))
        if f[0] in ("and", "or"):
            return (f[0], self._markf(f[1], eff), self._markf(f[2], eff))
        return f

    def _helper_of(self, n):
        """the own-class helper a call element denotes, if it is to be followed"""
        if n.get("k") != "MCall" or not (n.get("obj") is None or n["obj"].get("k") == "This"):
            return None
        h = self.methods.get(cname(n))
        if h is None or h.cfg is None or h is self.fn:
            return None
        if len(h.params) != len(n.get("a", [])):
            return None
        return h

    def _inline(self, n, h, lo, cons, eff=()):
        """paths of helper h for the call n with the parameters bound -> list of sub paths or None"""
        if self.depth >= self.MAX_DEPTH or h.name in self.stack:
            return None
        bind = {}
        for prm, a in zip(h.params, n.get("a", [])):
            ty = h.type(prm["t"]) or ""
            val = self._value(lo, a, ty, cons, eff)
            if not ("&" in ty and "const" not in ty) and any(f in val["text"] for f in self.written_fields()):
                # a by-value (or const&) parameter is a snapshot of the argument at the call
                val = {"k": "_Term", "text": self._mark(self._cur(val["text"], eff), eff), "f": self._markf(self._curf(val["f"], eff), eff)}
            bind[prm["d"]] = val
        ret = (h.type(h.d["ret"]) or "").replace("const ", "").strip() if h.d.get("ret") is not None else "void"
        sub = Paths(h, bool_result=(ret == "bool"), methods=self.methods, bind=bind, depth=self.depth + 1, stack=self.stack, eff0=eff)
        if sub.problems or not sub.paths:
            return None
        self.inlined[h.name] = h
        self.inlined.update(sub.inlined)
        for x in sub.opaque_calls:
            if x not in self.opaque_calls:
                self.opaque_calls.append(x)
        return sub

    def _walk(self, b, cons, eff, onpath, env, start, seq):
        cfg = self.fn.cfg
        fn = self.fn
        if b in self.stops and start == 0 and onpath:
            self.paths.append({"cons": cons, "eff": list(eff), "out": self.stops[b], "line": None, "seq": list(seq)})
            return
        if b in onpath and start == 0:
            self.problems.append("function is not loop-free (block %d revisited)" % b)
            return
        if len(self.paths) > 4000:
            self.problems.append("too many paths")
            return
        blk = cfg.blocks[b]
        eff = list(eff)
        seq = list(seq)
        env = dict(env)
        lo = PathLocals(self.lo, env)
        for pos in range(start, len(blk["el"])):
            sid = blk["el"][pos]
            n = fn.by_id(sid)
            if n is None:
                continue
            k = n.get("k")
            if k == "MCall" and (n.get("obj") is None or n["obj"].get("k") == "This"):
                h = self._helper_of(n)
                sub = self._inline(n, h, lo, cons, eff) if h is not None else None
                if sub is not None:
                    for sp in sub.paths:
                        out = sp["out"]
                        if sub.bool_result and out is not None:
                            res = {"k": "_Term", "text": f_text(out), "f": out}
                        else:
                            res = {"k": "_Term", "text": out if out is not None else "void", "f": None}
                        env2 = dict(env)
                        env2[("call", n["i"])] = res
                        self._walk(b, cons + list(sp["cons"]), list(sp["eff"]), onpath, env2, pos + 1, seq + list(sp["seq"]))
                    return
                if not n.get("cconst") and cname(n) not in BASE_KNOWN and cname(n) not in self.opaque_calls:
                    self.opaque_calls.append(cname(n))
                seq.append(("call", cname(n), self._cur(term(lo, n), eff)))
            elif k == "OpCall" and n.get("op") == "()" and ("lambda/functor call at line %s" % n.get("l")) not in self.opaque_calls:
                self.opaque_calls.append("lambda/functor call at line %s" % n.get("l"))
            if k == "Decl":
                for v in n.get("vars", []):
                    if not v.get("ref") and v.get("init") is not None and self.lo.writes.get(v["d"], 0) > 0:
                        env[v["d"]] = self._value(lo, v["init"], fn.type(v.get("t")) or "", cons, eff)
                    elif not v.get("ref") and v.get("init") is not None and not is_status_type(fn, v.get("t")):
                        val = self._value(lo, v["init"], fn.type(v.get("t")) or "", cons, eff)
                        if any(f in val["text"] for f in self.written_fields()):
                            cur_t = self._cur(val["text"], eff)
                            env[v["d"]] = {"k": "_Term", "text": self._mark(cur_t, eff), "f": self._markf(self._curf(val["f"], eff), eff)}
            elif k == "Assign":
                lhs = strip(n["lhs"])
                byref = None
                if lhs.get("k") == "Ref" and lhs.get("dk") == "param" and lhs.get("d") in env and "&" in (fn.ntype(lhs) or ""):
                    # write through a reference parameter of an inlined helper: an effect on the caller's field
                    byref = env[lhs["d"]].get("text", "")
                if byref is not None:
                    if re.match(r"^_\w+$", byref):
                        rhs = n["rhs"]
                        eff.append(("%s%s" % (byref, n["op"]), self._cur(term(lo, rhs), eff)))
                        seq.append(("eff",) + eff[-1])
                    else:
                        self.problems.append("write through reference parameter '%s' bound to %s" % (lhs.get("n"), byref[:30]))
                elif lhs.get("k") == "Ref" and lhs.get("dk") in ("local", "param") and not (self.lo.var.get(lhs["d"]) or {}).get("ref"):
                    ty = fn.ntype(lhs) or ""
                    if n.get("op") == "=":
                        env[lhs["d"]] = self._value(lo, n["rhs"], ty, cons, eff)
                    else:
                        old = term(lo, lhs)
                        env[lhs["d"]] = {"k": "_Term", "text": "%s(%s,%s)" % (n["op"], old, term(lo, n["rhs"])), "f": None}
                elif lhs.get("k") == "Member" and lhs.get("field"):
                    # chained assignment a = b = c = v: every link is its own Assign element; record (lhs, value)
                    rhs = n["rhs"]
                    while strip(rhs).get("k") == "Assign" and strip(rhs).get("op") == "=":
                        rhs = strip(rhs)["rhs"]
                    eff.append(("%s%s" % (term(lo, lhs), n["op"]), self._cur(term(lo, rhs), eff)))
                    seq.append(("eff",) + eff[-1])
            elif k == "Un" and n.get("op") in ("++", "--"):
                t = strip(n["e"])
                if t.get("k") == "Member" and t.get("field"):
                    eff.append((term(lo, t) + n["op"], ""))
                    seq.append(("eff",) + eff[-1])
                elif t.get("k") == "Ref" and t.get("dk") == "param" and t.get("d") in env and "&" in (fn.ntype(t) or "") and re.match(r"^_\w+$", env[t["d"]].get("text", "")):
                    eff.append((env[t["d"]]["text"] + n["op"], ""))
                    seq.append(("eff",) + eff[-1])
                elif t.get("k") == "Ref" and t.get("dk") in ("local", "param"):
                    env[t["d"]] = {"k": "_Term", "text": "%s(%s)" % (n["op"], term(lo, t)), "f": None}
            elif k == "Return":
                e = n.get("e")
                if e is not None:
                    e = self._select(lo, e, cons, eff)
                if self.bool_result:
                    out = self._curf(formula(lo, e), eff)
                else:
                    out = self._cur(term(lo, e), eff) if e is not None else None
                self.paths.append({"cons": cons, "eff": eff, "out": out, "line": n.get("l"), "seq": seq})
                return
        if b == cfg.exit:
            self.paths.append({"cons": cons, "eff": eff, "out": None, "line": self.fn.end, "seq": seq})
            return
        ss = [s for s in blk.get("succ", []) if s is not None]
        if blk.get("noreturn"):
            return
        if any((self.fn.by_id(s) or {}).get("k") == "Throw" for s in blk["el"]):
            return
        if len(ss) == 1 or (len(ss) == 2 and ss[0] == ss[1]):
            self._walk(ss[0], cons, eff, onpath | {b}, env, 0, seq)
        elif blk.get("term") == "SwitchStmt" and blk.get("cond") is not None:
            # switch(x): one path per label with eq(x, label) true and the other labels false; default: all false
            c = self.fn.by_id(blk["cond"])
            tc = term(lo, c)
            cases, default = [], None
            for s2 in ss:
                lab = self.fn.by_id(cfg.blocks[s2].get("label")) if cfg.blocks[s2].get("label") is not None else None
                if lab is not None and lab.get("k") == "Case" and lab.get("v") is not None:
                    x, y = sorted([tc, term(lo, lab["v"])])
                    cases.append((s2, ("atom", "eq(%s,%s)" % (x, y))))
                else:
                    default = s2
            for s2, a in cases:
                extra = [(a, True)] + [(a2, False) for s3, a2 in cases if a2 != a]
                self._walk(s2, cons + extra, eff, onpath | {b}, env, 0, seq + [("cons",)] * len(extra))
            if default is not None:
                self._walk(default, cons + [(a, False) for s2, a in cases], eff, onpath | {b}, env, 0, seq + [("cons",)] * len(cases))
        elif len(ss) == 2 and blk.get("cond") is not None:
            c = self.fn.by_id(blk["cond"])
            f = self._curf(formula(lo, c), eff)
            self._walk(ss[0], cons + [(f, True)], eff, onpath | {b}, env, 0, seq + [("cons",)])          # (one event per constraint: seq interleaves tests, effects, calls)
            self._walk(ss[1], cons + [(f, False)], eff, onpath | {b}, env, 0, seq + [("cons",)])
        else:
            self.problems.append("unmodelled terminator %s" % blk.get("term"))

    def atoms(self):
        out = set()
        for p in self.paths:
            for f, pol in p["cons"]:
                f_atoms(f, out)
            if self.bool_result and p["out"] is not None:
                f_atoms(p["out"], out)
        return out

    def outcome(self, env):
        """-> list of (outcome, effects) of the paths consistent with env"""
        res = []
        for p in self.paths:
            if all(f_eval(f, env) == pol for f, pol in p["cons"]):
                o = f_eval(p["out"], env) if self.bool_result else p["out"]
                res.append((o, tuple(sorted(set(p["eff"]))), p["line"]))
        return res


def monotone(ps, var, increasing):
    """semantic monotonicity of a boolean function in a scalar: making `var` smaller (an atom le(var,X) turns
    true, an atom le(X,var) turns false) never turns the result off (increasing) resp. on (decreasing)"""
    atoms = sorted(ps.atoms())
    dirs = {}
    for a in atoms:
        if var not in a:
            continue
        m = re.match(r"le\((.*)\)$", a)
        if not m:
            return None, "atom %s mentions %s outside a comparison" % (a, var)
        l, r = split_top(m.group(1))
        if l == var and var not in r:
            dirs[a] = True        # smaller var => atom may switch F -> T
        elif r == var and var not in l:
            dirs[a] = False
        else:
            return None, "atom %s mentions %s on both sides / inside arithmetic" % (a, var)
    if not dirs:
        return None, "no comparison of %s found" % var
    n = 0
    for bits in itertools.product((False, True), repeat=len(atoms)):
        env = dict(zip(atoms, bits))
        for a, d in dirs.items():
            if env[a] != (not d):
                continue
            env2 = dict(env)
            env2[a] = d          # var got smaller
            if not consistent(env) or not consistent(env2):
                continue
            o1 = {x[0] for x in ps.outcome(env)}
            o2 = {x[0] for x in ps.outcome(env2)}
            if len(o1) != 1 or len(o2) != 1:
                return None, "ambiguous outcome"
            n += 1
            v1, v2 = o1.pop(), o2.pop()
            if increasing and v1 and not v2:
                return False, "a smaller defect can switch the result from true to false: atom %s turning %s under {%s}" % (a, d, ", ".join("%s=%s" % kv for kv in env.items()))
            if not increasing and v2 and not v1:
                return False, "a smaller defect can switch the result from false to true: atom %s turning %s under {%s}" % (a, d, ", ".join("%s=%s" % kv for kv in env.items()))
    return True, "%d single-atom decreases of the defect checked over %d comparisons of def_cur: result is monotone %s" % (n, len(dirs), "increasing" if increasing else "decreasing")


BASE_KNOWN = {"_calc_def_norm", "_analyse_defect", "_plot_iter", "_plot_iter_line", "_print_line", "is_converged", "is_diverged", "name", "get_num_iter"}


def _is_const_term(t):
    return bool(re.match(r"^-?[\w.]+$", t)) and not t.startswith("_")


def consistent(env):
    """totality of <=: le(a,b) and le(b,a) cannot both be false; one quantity cannot equal two different constants"""
    eqs = []
    for a, v in env.items():
        if not v and a.startswith("le("):
            l, r = split_top(a[3:-1])
            o = "le(%s,%s)" % (r, l)
            if o in env and not env[o]:
                return False
        elif v and a.startswith("eq("):
            eqs.append(split_top(a[3:-1]))
    for i, (a1, b1) in enumerate(eqs):
        for a2, b2 in eqs[i + 1:]:
            for x, y in ((a1, b1), (b1, a1)):
                for x2, y2 in ((a2, b2), (b2, a2)):
                    if x == x2 and y != y2 and _is_const_term(y) and _is_const_term(y2) and not _is_const_term(x):
                        return False
    return True


def compare_table(ck, rule, key, fn, paths, oracle_atoms, oracle):
    """enumerate all assignments of the union of code and oracle atoms; code outcome must equal oracle"""
    if paths.problems:
        ck.incomplete(rule, "%s: %s" % (key, "; ".join(sorted(set(paths.problems))[:3])))
        return
    atoms = sorted(paths.atoms() | set(oracle_atoms))
    if len(atoms) > 16:
        ck.incomplete(rule, "%s: %d atoms, table too large" % (key, len(atoms)))
        return
    extra = sorted(set(atoms) - set(oracle_atoms))
    n = 0
    for bits in itertools.product((False, True), repeat=len(atoms)):
        env = dict(zip(atoms, bits))
        if not consistent(env):
            continue
        n += 1
        got = paths.outcome(env)
        want = oracle(env)
        outs = {(g[0], g[1]) for g in got}
        if len(outs) != 1:
            ck.incomplete(rule, "%s: %d distinct outcomes for one assignment (non-deterministic path set)" % (key, len(outs)))
            return
        g = got[0]
        if (g[0], g[1]) != (want[0], tuple(sorted(set(want[1])))):
            if isinstance(g[0], str) and g[0] not in ALL_STATUS:
                ck.incomplete(rule, "%s: the value returned at line %s (%s) is not an enumerator this rule can evaluate" % (key, g[2], g[0][:60]))
                return
            carriers = paths.opaque_calls
            if carriers:
                ck.incomplete(rule, "%s: the body differs from the documented table but delegates to %s, which this rule could not follow (virtual and overridden, recursive, not loop-free or nested too deep)" % (key, ", ".join(carriers)))
                return
            wit = ", ".join("%s=%s" % (a, "T" if env[a] else "F") for a in atoms)
            ck.ob(rule, key, False, "the code deviates from the documented criterion: for {%s} the code (return at line %s) yields %s with effects %s, the documentation says %s with effects %s%s" % (
                wit, g[2], g[0], list(g[1]), want[0], sorted(set(want[1])), ("; atoms not in the documented criterion: %s" % extra) if extra else ""), fn.file, g[2])
            return
    ck.ob(rule, key, True, "%d consistent assignments of %d atoms agree with the documented table%s" % (n, len(atoms), ("; outcome independent of %s" % extra) if extra else ""), fn.file, fn.line,
          sample={"atoms": atoms, "paths": len(paths.paths)})


# --- documentation anchors: the oracle tables below are transcriptions of these texts ----------------

def _norm(s):
    s = re.sub(r"^\s*(/\*\*|\*/|\*|///|//)\s?", "", s)
    return re.sub(r"\s+", " ", s).strip()


def doc_before(path, line):
    """normalised text of the comment block immediately preceding source line `line` (1-based)"""
    try:
        src = open(path, encoding="utf-8", errors="replace").read().split("\n")
    except OSError:
        return None
    i = line - 2
    out = []
    while i >= 0:
        t = src[i].strip()
        if t.startswith("///") or t.startswith("*") or t.startswith("/**") or t.startswith("//"):
            out.append(_norm(src[i]))
            if t.startswith("/**"):
                break
            i -= 1
            continue
        if t == "" and not out:
            i -= 1
            continue
        break
    return " ".join(x for x in reversed(out) if x)


def decl_line(path, regex):
    try:
        src = open(path, encoding="utf-8", errors="replace").read().split("\n")
    except OSError:
        return None
    for i, l in enumerate(src, 1):
        if re.search(regex, l):
            return i
    return None


ITER = SOLVER_DIR + "iterative.hpp"
BASE = SOLVER_DIR + "base.hpp"
# (file, regex locating the declaration, sentences that must occur in the comment block before it)
ANCHORS = [
    (ITER, r"^\s*DataType\s+_tol_rel;", [
        r"(\vert \vert r_k\vert\vert \leq \text{tol\_abs}) \land ((\vert \vert r_k\vert\vert \leq \text{tol\_rel}\cdot\vert \vert r_0\vert\vert) \lor (\vert \vert r_k\vert\vert \leq \text{tol\_abs\_low}))",
        "where \\f$ r_k \\f$ is the defect vector in the current iteration and \\f$ r_0 \\f$ the initial defect vector"]),
    (ITER, r"^\s*DataType\s+_tol_abs;", ["absolute tolerance parameter \\copydetails Solver::IterativeSolver::_tol_rel"]),
    (ITER, r"^\s*DataType\s+_tol_abs_low;", ["absolute tolerance parameter \\copydetails Solver::IterativeSolver::_tol_rel"]),
    (ITER, r"^\s*DataType\s+_div_rel;", ["relative divergence parameter"]),
    (ITER, r"^\s*DataType\s+_div_abs;", ["absolute divergence parameter"]),
    (ITER, r"^\s*DataType\s+_stag_rate;", ["stagnation rate"]),
    (ITER, r"^\s*Index\s+_min_iter;", ["minimum number of iterations"]),
    (ITER, r"^\s*Index\s+_max_iter;", ["maximum number of iterations"]),
    (ITER, r"^\s*Index\s+_num_iter;", ["number of performed iterations"]),
    (ITER, r"^\s*Index\s+_min_stag_iter;", ["minimum number of stagnation iterations"]),
    (ITER, r"^\s*Index\s+_num_stag_iter;", ["number of consecutive stagnated iterations"]),
    (ITER, r"^\s*DataType\s+_def_init;", ["initial defect"]),
    (ITER, r"^\s*DataType\s+_def_cur;", ["current defect"]),
    (ITER, r"^\s*DataType\s+_def_prev;", ["previous iteration defect"]),
    (ITER, r"^\s*bool is_converged\(const DataType def_cur\) const", ["\\copydetails Solver::IterativeSolver::_tol_rel", "\\c true, if converged, else \\c false"]),
    (ITER, r"^\s*bool is_diverged\(const DataType def_cur\) const", ["checks for divergence"]),
    (ITER, r"^\s*virtual Status _analyse_defect\(", ["The updated status code.", "Specifies whether to check (and update) the stagnation criterion."]),
    (ITER, r"^\s*virtual Status _set_new_defect\(", ["computes the defect vector's norm, increments the iteration count"]),
    (ITER, r"^\s*virtual Status _update_defect\(", ["takes a precalculated defect vector's norm, increments the iteration count"]),
    (ITER, r"^\s*virtual Status correct\(VectorType& vec_sol, const VectorType& vec_rhs\) = 0;", [
        "this method uses the vector \\p vec_sol as the initial solution vector for the iterative solution process instead of ignoring its contents upon entry and starting with the null vector"]),
    (BASE, r"^\s*virtual Status apply\(Vector_& vec_cor, const Vector_& vec_def\) = 0;", [
        "It is assumed to be allocated, but its numerical contents may be undefined upon calling this method.",
        "The vector that represents the right-hand-side of the linear system to be solved."]),
    (BASE, r"^\s*inline bool status_success\(Status status\)", [
        "A solving run is interpreted as successful, if one of the following status codes was returned: - Status::success - Status::max_iter - Status::stagnated For any other status code, the solving run is interpreted as unsuccessful."]),
    (BASE, r"^\s*undefined = 0,", ["undefined status"]),
    (BASE, r"^\s*progress,", ["continue iteration (internal use only)"]),
    (BASE, r"^\s*success,", ["solving successful (convergence criterion fulfilled)"]),
    (BASE, r"^\s*aborted,", ["premature abort (solver aborted due to internal errors or preconditioner failure)"]),
    (BASE, r"^\s*diverged,", ["solver diverged (divergence criterion fulfilled)"]),
    (BASE, r"^\s*max_iter,", ["solver reached maximum iterations"]),
    (BASE, r"^\s*stagnated$", ["solver stagnated (stagnation criterion fulfilled)"]),
]


def check_anchors(ck):
    n = 0
    for relp, rx, needs in ANCHORS:
        path = featlib.repo_path(relp)
        ln = decl_line(path, rx)
        if ln is None:
            ck.incomplete("E13.decision-table", "oracle anchor vanished: no declaration matching /%s/ in %s" % (rx, relp))
            continue
        doc = doc_before(path, ln) or ""
        for s in needs:
            if _norm(s) not in doc:
                ck.incomplete("E13.decision-table", "oracle anchor text changed at %s:%d: the documentation no longer contains \"%s\" — re-transcribe the oracle table of checks/c07.py" % (relp, ln, s[:90]))
            else:
                n += 1
    return n


# --- oracle tables (transcribed once from the anchored documentation) ----------------------------------

def oracle_is_converged(env):
    # iterative.hpp, doc of _tol_rel: (|r_k| <= tol_abs) and ((|r_k| <= tol_rel*|r_0|) or (|r_k| <= tol_abs_low))
    return (env["le($def_cur,_tol_abs)"] and (env["le($def_cur,mul(_def_init,_tol_rel))"] or env["le($def_cur,_tol_abs_low)"]), ())


ATOMS_CONV = ["le($def_cur,_tol_abs)", "le($def_cur,mul(_def_init,_tol_rel))", "le($def_cur,_tol_abs_low)"]


def oracle_is_diverged(env):
    # iterative.hpp: _div_abs "absolute divergence parameter", _div_rel "relative divergence parameter" (relative
    # to the initial defect, as tol_rel): diverged iff the defect exceeds either bound
    return ((not env["le($def_cur,_div_abs)"]) or (not env["le($def_cur,mul(_def_init,_div_rel))"]), ())


ATOMS_DIV = ["le($def_cur,_div_abs)", "le($def_cur,mul(_def_init,_div_rel))"]

ATOMS_ANA = ["isfinite($def_cur)", "is_diverged($def_cur)", "le(_min_iter,$num_iter)", "is_converged($def_cur)", "le(_max_iter,$num_iter)",
             "$check_stag", "le(_min_stag_iter,0)", "le(mul($def_prev,_stag_rate),$def_cur)", "le(_min_stag_iter,preinc(_num_stag_iter))"]


def oracle_analyse_defect(env):
    # ordered decision list: Status enum docs (base.hpp) + member docs (iterative.hpp):
    # aborted: internal error (non-finite defect) | diverged: divergence criterion | below the minimum number of
    # iterations nothing else is tested | success: convergence criterion | max_iter: maximum iterations reached |
    # stagnated: _min_stag_iter consecutive iterations with def_cur >= _stag_rate*def_prev (only if check_stag and
    # _min_stag_iter > 0; a non-stagnating iteration resets the counter)
    if not env["isfinite($def_cur)"]:
        return ("aborted", ())
    if env["is_diverged($def_cur)"]:
        return ("diverged", ())
    if not env["le(_min_iter,$num_iter)"]:
        return ("progress", ())
    if env["is_converged($def_cur)"]:
        return ("success", ())
    if env["le(_max_iter,$num_iter)"]:
        return ("max_iter", ())
    if env["$check_stag"] and not env["le(_min_stag_iter,0)"]:
        if env["le(mul($def_prev,_stag_rate),$def_cur)"]:
            if env["le(_min_stag_iter,preinc(_num_stag_iter))"]:
                return ("stagnated", (("_num_stag_iter++", ""),))
            return ("progress", (("_num_stag_iter++", ""),))
        return ("progress", (("_num_stag_iter=", "0"),))
    return ("progress", ())


ATOMS_INI = ["isfinite(_def_init)", "le(_tol_abs_low,_def_init)", "le(_def_init,sqr(eps()))"]
INI_EFFECTS = (("_def_init=", "_calc_def_norm($vec_def,$vec_sol)"), ("_def_cur=", "_calc_def_norm($vec_def,$vec_sol)"),
               ("_def_prev=", "_calc_def_norm($vec_def,$vec_sol)"), ("_num_iter=", "0"), ("_num_stag_iter=", "0"))


def oracle_set_initial_defect(env):
    # (re)initialises all convergence-control state of the previous solve, then: non-finite -> aborted;
    # below the lower absolute tolerance or numerically zero (eps^2) -> success; else progress
    if not env["isfinite(_def_init)"]:
        return ("aborted", INI_EFFECTS)
    if not env["le(_tol_abs_low,_def_init)"]:
        return ("success", INI_EFFECTS)
    if env["le(_def_init,sqr(eps()))"]:
        return ("success", INI_EFFECTS)
    return ("progress", INI_EFFECTS)


_INL_CACHE = {}


def inlinable_methods(facts, fn):
    """own-class helpers of fn's class that Paths may follow: members of the same instantiation with a body, not the
    predicates the oracles treat as atoms (BASE_KNOWN) nor the defect-update protocol itself, and statically bound:
    non-virtual, or virtual but defined by no other class of the solver directory (nothing to dispatch to)"""
    key = (id(facts), fn.cls)
    if key not in _INL_CACHE:
        defined = {}
        for f in facts.functions:
            if f.tk in ("inst", "plain") and ("/" + SOLVER_DIR) in f.file:
                defined.setdefault(f.name, set()).add(short_cls(f.cls))
        out = {}
        for f in facts.functions:
            if f.cls != fn.cls or f.cfg is None or f.d.get("ctor") or f.d.get("dtor") or f.tk not in ("inst", "plain"):
                continue
            if f.name in BASE_KNOWN or f.name in UPD or f.name.startswith("set_") or f.name.startswith("get_"):
                continue
            if f.d.get("virtual") and len(defined.get(f.name, ())) > 1:
                continue
            out.setdefault(f.name, f)
        _INL_CACHE[key] = out
    return _INL_CACHE[key]


def base_functions(facts, name, nparams=None):
    out = []
    for f in facts.functions:
        if short_cls(f.cls) == "IterativeSolver" and f.name == name and f.tk in ("inst", "plain") and (nparams is None or len(f.params) == nparams):
            out.append(f)
    return out


def rule_decision_tables(ck, facts):
    check_anchors(ck)
    specs = [("is_converged", 1, True, ATOMS_CONV, oracle_is_converged),
             ("is_diverged", 1, True, ATOMS_DIV, oracle_is_diverged),
             ("_analyse_defect", 4, False, ATOMS_ANA, oracle_analyse_defect),
             ("_set_initial_defect", 2, False, ATOMS_INI, oracle_set_initial_defect)]
    for name, npar, isbool, atoms, orc in specs:
        fns = base_functions(facts, name, npar)
        if not fns:
            ck.incomplete("E13.decision-table", "anchor IterativeSolver::%s not found" % name)
            continue
        done = set()
        for fn in fns:
            ps = Paths(fn, bool_result=isbool, methods=inlinable_methods(facts, fn))
            sig = repr([(p["cons"], p["eff"], p["out"]) for p in ps.paths])
            if sig in done:
                continue        # identical body in another instantiation
            done.add(sig)
            key = "IterativeSolver::%s" % name + ("" if len(done) == 1 else "#%d" % len(done))
            compare_table(ck, "E13.decision-table", key, fn, ps, atoms, orc)
            if isbool:
                # monotonicity in the defect: def_cur only on the small side of <= in is_converged, only on the
                # large side in is_diverged
                ok, why = monotone(ps, "$def_cur", increasing=(name == "is_converged"))
                if ok is None:
                    ck.incomplete("E13.monotone", "%s: %s" % (key, why))
                else:
                    ck.ob("E13.monotone", key, ok, why, fn.file, fn.line)
    # each terminal literal of the base-class functions is guarded by its configuration field
    # (the literal may sit in a helper that the function delegates to: the guards of the call site count as well)
    for name in ("_analyse_defect", "_set_initial_defect"):
        for fn in base_functions(facts, name)[:1]:
            units = [(fn, [])]
            seen_h = {fn.name}
            meth = inlinable_methods(facts, fn)
            k = 0
            while k < len(units) and k < 8:
                ufn, outer = units[k]
                k += 1
                ugd = Guards(ufn)
                for c in ufn.calls():
                    if c.get("k") == "MCall" and (c.get("obj") is None or c["obj"].get("k") == "This") and cname(c) in meth and cname(c) not in seen_h:
                        seen_h.add(cname(c))
                        units.append((meth[cname(c)], outer + [(ufn, g) for g in ugd.of_stmt(c["i"])]))
            for ufn, outer in units:
                lo, gd = Locals(ufn), Guards(ufn)
                par = parent_map(ufn)
                for x in ufn.nodes():
                    v = status_lit(x) if x.get("k") == "Ref" else None
                    if v not in ("max_iter", "stagnated"):
                        continue
                    # a produced value (returned / assigned / selected by ?:), not an operand of a comparison or a case label
                    ctx, cur, produced = [], x, True
                    while True:
                        pn = par.get(cur.get("i"))
                        if pn is None:
                            break
                        if pn.get("k") == "Bin" and pn.get("op") in ("==", "!="):
                            produced = False
                        if pn.get("k") == "Case" and pn.get("v") is not None and any(y is cur for y in walk(pn["v"])):
                            produced = False
                        if pn.get("k") == "Cond" and "i" in strip(pn["c"]):
                            if any(y.get("i") == cur.get("i") for y in walk(pn["then"])):
                                ctx.append((strip(pn["c"])["i"], True))
                            elif any(y.get("i") == cur.get("i") for y in walk(pn["else"])):
                                ctx.append((strip(pn["c"])["i"], False))
                        if "i" in pn and ufn.cfg.block_of(pn["i"]) is not None and pn.get("k") in ("Return", "Assign", "Decl"):
                            cur = pn
                            break
                        cur = pn
                    if not produced:
                        continue
                    if cur.get("k") not in ("Return", "Assign", "Decl") or ufn.cfg.block_of(cur["i"]) is None:
                        ck.incomplete("E13.guard-field", "IterativeSolver::%s/%s: the literal at line %s is not part of a return / assignment this rule can locate" % (name, v, x.get("l")))
                        continue
                    ok, why = classify_literal(ufn, lo, gd, v, cur["i"], None, tuple(ctx))
                    if not ok and outer:
                        # guards of the call site(s) that lead here
                        need = ("_max_iter",) if v == "max_iter" else ("_min_stag_iter", "_stag_rate")
                        for ofn, (c, pol) in outer:
                            names = {y.get("n") for y in walk(Locals(ofn).resolve(c)) if y.get("k") == "Member"}
                            if names & set(need):
                                ok, why = True, "under a test of %s at the call site in %s" % ("/".join(sorted(names & set(need))), ofn.name)
                    if ok is None:
                        ck.incomplete("E13.guard-field", "IterativeSolver::%s/%s line %s: %s" % (name, v, x.get("l"), why))
                        continue
                    ck.ob("E13.guard-field", "IterativeSolver::%s/%s" % (name, v), bool(ok), "line %s: %s" % (x.get("l"), why), ufn.file, x.get("l"))


def rule_status_success(ck, facts):
    fns = [f for f in facts.functions if f.qn == "FEAT::Solver::status_success"]
    if not fns:
        ck.incomplete("E13.status-success", "anchor FEAT::Solver::status_success not found")
        return
    fn = fns[0]
    want = {"success": True, "max_iter": True, "stagnated": True, "undefined": False, "progress": False, "aborted": False, "diverged": False}
    got = {}
    sw = [n for n in fn.nodes() if n.get("k") == "Switch"]
    try:
        if sw:
            if len(sw) != 1 or strip(sw[0]["c"]).get("dk") != "param":
                raise Unknown("switch on something else than the parameter")
            items = []      # flattened ('label', value|None) / ('stmt', node)

            def flat(n):
                if n.get("k") in ("Case", "Default"):
                    items.append(("label", status_lit(n["v"]) if n.get("k") == "Case" else None))
                    if isinstance(n.get("s"), dict):
                        flat(n["s"])
                else:
                    items.append(("stmt", n))
            body = sw[0]["body"]
            for s in (body.get("s", []) if body.get("k") == "Block" else [body]):
                flat(s)
            labels = {v for k, v in items if k == "label"}
            for v in ALL_STATUS:
                tgt = v if v in labels else (None if None in labels else "none")
                if tgt == "none":
                    raise Unknown("no case and no default for %s" % v)
                i = items.index(("label", tgt))
                res = None
                for k, n in items[i:]:
                    if k == "stmt":
                        if n.get("k") == "Return" and strip(n.get("e")).get("k") == "Bool":
                            res = bool(strip(n["e"])["v"])
                            break
                        raise Unknown("statement %s inside the switch" % render(n)[:40])
                if res is None:
                    raise Unknown("case %s falls out of the switch" % v)
                got[v] = res
        else:
            ps = Paths(fn, bool_result=True)
            if ps.problems:
                raise Unknown("; ".join(ps.problems))
            for v in ALL_STATUS:
                env = {a: False for a in ps.atoms()}
                for a in env:
                    m = re.match(r"eq\((.*)\)$", a)
                    if not m:
                        raise Unknown("atom %s" % a)
                    l, r = split_top(m.group(1))
                    if {l, r} == {"$status", v}:
                        env[a] = True
                    elif "$status" not in (l, r):
                        raise Unknown("atom %s" % a)
                o = ps.outcome(env)
                if len({x[0] for x in o}) != 1:
                    raise Unknown("ambiguous outcome for %s" % v)
                got[v] = bool(o[0][0])
    except Unknown as u:
        ck.incomplete("E13.status-success", "status_success: %s" % u)
        return
    for v in ALL_STATUS:
        ck.ob("E13.status-success", "status_success/%s" % v, got[v] == want[v],
              "status_success(Status::%s) is %s; documented: %s (base.hpp: exactly success, max_iter, stagnated count as successful)" % (v, got[v], want[v]), fn.file, fn.line)



ANALYSE_ROLES = {"num_iter": "_num_iter", "def_cur": "_def_cur", "def_prev": "_def_prev", "check_stag": "true"}


def rule_defect_update(ck, facts):
    """_set_new_defect / _update_defect: iteration count, defect history, status = _analyse_defect(...)"""
    for name, npar, newdef in (("_set_new_defect", 2, "_calc_def_norm($vec_def,$vec_sol)"), ("_update_defect", 1, None)):
        fns = base_functions(facts, name, npar)
        if not fns:
            ck.incomplete("E7.num-iter-once", "anchor IterativeSolver::%s not found" % name)
            continue
        fn = fns[0]
        key = "IterativeSolver::%s" % name
        ps = Paths(fn, methods=inlinable_methods(facts, fn))
        if ps.problems or not ps.paths:
            ck.incomplete("E7.num-iter-once", "%s: %s" % (key, "; ".join(sorted(set(ps.problems))[:3]) or "no paths"))
            continue
        carriers = ps.opaque_calls
        if carriers:
            ck.incomplete("E7.num-iter-once", "%s delegates to %s, which this rule does not follow (may update _num_iter/_def_prev/_def_cur)" % (key, ", ".join(carriers)))
            continue
        bad_inc, bad_hist, bad_def = [], [], []
        for p in ps.paths:
            effs = p["eff"]
            incs = [e for e in effs if e[0] in ("_num_iter++", "_num_iter+=", "_num_iter=")]
            if len(incs) != 1 or not (incs[0][0] == "_num_iter++" or incs[0] == ("_num_iter+=", "1") or incs[0] == ("_num_iter=", "add(1,_num_iter)")):
                bad_inc.append((p["line"], incs))
            names = [e[0] for e in effs]
            if ("_def_prev=", "_def_cur@0") in effs and names.count("_def_prev=") == 1:
                pass        # _def_prev receives a snapshot of _def_cur taken before its first write on this path
            elif ("_def_prev=", "_def_cur") not in effs:
                bad_hist.append((p["line"], "no `_def_prev = _def_cur`"))
            else:
                ip = effs.index(("_def_prev=", "_def_cur"))
                if any(n == "_def_cur=" for n in names[:ip]):
                    bad_hist.append((p["line"], "_def_cur is overwritten before it is saved to _def_prev"))
                if names.count("_def_prev=") != 1:
                    bad_hist.append((p["line"], "_def_prev written %d times" % names.count("_def_prev=")))
            curs = [e for e in effs if e[0] == "_def_cur="]
            exp = newdef if newdef is not None else "$" + fn.params[0]["n"]
            if any(e[1] != exp for e in curs) or len(curs) > 1 or (newdef is None and len(curs) != 1):
                bad_def.append((p["line"], curs))
        ck.ob("E7.num-iter-once", key, not bad_inc,
              ("on a path to the return at line %s _num_iter is incremented %d times %s (every defect update counts as exactly one iteration: max_iter/min_iter are tested against it)" % (bad_inc[0][0], len(bad_inc[0][1]), bad_inc[0][1])) if bad_inc
              else "_num_iter is incremented exactly once on each of the %d paths" % len(ps.paths), fn.file, fn.line)
        ck.ob("E7.defect-history", key, not bad_hist and not bad_def,
              ("; ".join("%s (path to line %s)" % (b[1], b[0]) for b in (bad_hist + bad_def)[:3])) if (bad_hist or bad_def)
              else "_def_prev = _def_cur precedes the only write `_def_cur = %s` on each of the %d paths" % (newdef or "$" + fn.params[0]["n"], len(ps.paths)), fn.file, fn.line)
        # --- skipping the norm computation (skip_defect_calc) is a matter of configuration only
        if name == "_set_new_defect":
            protocol = base_written_fields(facts) | {"_status"}
            skip_paths = [p for p in ps.paths if not any(e[0] == "_def_cur=" for e in p["eff"])]
            all_atoms = sorted(ps.atoms())
            sbad, sinc = [], []
            for p in skip_paths:
                # the tests that decide the skip: those evaluated before the defect is analysed
                ana = [ix for ix, ev in enumerate(p["seq"]) if ev[0] == "call" and ev[1] == "_analyse_defect"]
                ncons = sum(1 for ev in p["seq"][:ana[0]] if ev[0] == "cons") if ana else len(p["cons"])
                pcons = p["cons"][:ncons]
                patoms = set()
                for f, pol in pcons:
                    f_atoms(f, patoms)
                dyn = sorted(a for a in patoms if any(re.search(r"(?<![\w$])%s(?!\w)" % re.escape(x), a) for x in protocol))
                if dyn:
                    sbad.append("on the path to line %s the defect norm is not computed depending on %s, i.e. on the state of the running iteration: _analyse_defect then judges the defect of an earlier "
                                "iteration in some iterations of a convergence-controlled run (e.g. the one whose number equals max_iter: 'max_iter' instead of 'success', stale get_def_final())" % (p["line"], ", ".join(dyn)))
                    continue
                need_true = ["le(_max_iter,_min_iter)", "le(_min_stag_iter,0)"]
                if len(all_atoms) > 14:
                    sinc.append("too many atoms (%d)" % len(all_atoms))
                    continue
                for bits in itertools.product((False, True), repeat=len(all_atoms)):
                    env = dict(zip(all_atoms, bits))
                    if not consistent(env) or not all(f_eval(f, env) == pol for f, pol in pcons):
                        continue
                    miss = [a for a in need_true if not env.get(a, False)]
                    plots = [a for a in sorted(patoms) if a.startswith("_plot_iter(") and env[a]]
                    if miss or plots:
                        related = [a for a in patoms if a not in need_true and re.search(r"_min_iter|_max_iter|_min_stag_iter|_stag_rate", a)]
                        msg = "the norm computation can be skipped (path to line %s, e.g. under {%s}) although %s: the skipped norm is only dispensable in a run with a fixed number of iterations (min_iter >= max_iter), without stagnation check and without iteration plot" % (
                            p["line"], ", ".join("%s=%s" % (a, "T" if env[a] else "F") for a in sorted(patoms)),
                            "; ".join(["%s does not hold" % a for a in miss] + ["%s holds" % a for a in plots]))
                        (sinc if related else sbad).append(msg if not related else msg + " - but the path tests %s, which this rule does not relate to the requirement" % ", ".join(related))
                        break
            for m in sorted(set(sinc))[:2]:
                ck.incomplete("E13.skip-defect-calc", "%s: %s" % (key, m))
            if not sinc or sbad:
                ck.ob("E13.skip-defect-calc", key, not sbad, "; ".join(sorted(set(sbad))[:2]) if sbad else
                      ("%d of %d paths skip the norm computation, all of them only under skip_defect_calc with min_iter >= max_iter, no stagnation check, no iteration plot" % (len(skip_paths), len(ps.paths))
                       if skip_paths else "the defect norm is computed on every path"), fn.file, fn.line)
        # the returned status is _analyse_defect(_num_iter, _def_cur, _def_prev, true), roles by callee parameter name;
        # decided per path on the spliced event sequence (so it survives helpers and shared tails)
        ana = base_functions(facts, "_analyse_defect")
        pn = [q["n"] for q in ana[0].params] if ana else []
        ok, why = True, []
        for p in ps.paths:
            out = p["out"] or ""
            m = re.match(r"^_analyse_defect\((.*)\)$", out)
            if not m:
                if out in ALL_STATUS:
                    ok = False
                    why.append("the path to line %s returns the literal Status::%s, not the result of _analyse_defect" % (p["line"], out))
                else:
                    ck.incomplete("E1.analyse-roles", "%s line %s: the returned status %s is not directly the result of _analyse_defect (computed elsewhere)" % (key, p["line"], out[:60]))
                continue
            args, rest = [], m.group(1)
            while rest:
                a, rest = split_top(rest)
                args.append(a)
            if len(args) != len(pn):
                ck.incomplete("E1.analyse-roles", "%s: _analyse_defect is called with %d arguments, its definition has %d parameters" % (key, len(args), len(pn)))
                continue
            for q, got in zip(pn, args):
                want = ANALYSE_ROLES.get(q)
                if want is None:
                    ck.incomplete("E1.analyse-roles", "%s: _analyse_defect has an unknown parameter '%s'" % (key, q))
                elif got != want:
                    ok = False
                    why.append("path to line %s: parameter '%s' of _analyse_defect receives %s, expected %s" % (p["line"], q, got, want))
            # the analysed state is the updated one: no write of _num_iter/_def_cur/_def_prev after the call on this path
            calls = [ix for ix, ev in enumerate(p["seq"]) if ev[0] == "call" and ev[1] == "_analyse_defect" and ev[2] == out]
            if not calls:
                ck.incomplete("E1.analyse-roles", "%s line %s: the _analyse_defect call whose result is returned was not found on the path" % (key, p["line"]))
                continue
            late = [ev for ev in p["seq"][calls[-1] + 1:] if ev[0] == "eff" and re.match(r"^(_num_iter|_def_cur|_def_prev)\W", ev[1])]
            if late:
                ok = False
                why.append("path to line %s: %s %s happens after the defect was analysed" % (p["line"], late[0][1], late[0][2]))
        why = sorted(set(why))
        ck.ob("E1.analyse-roles", key, ok and bool(ps.paths), "; ".join(why[:3]) if why else "returns _analyse_defect(num_iter<-_num_iter, def_cur<-_def_cur, def_prev<-_def_prev, check_stag<-true) after the state update", fn.file, fn.line)



def refs_of(fn, d):
    return [n for n in fn.nodes() if n.get("k") == "Ref" and n.get("d") == d]


def parent_map(fn):
    par = {}
    for n in fn.nodes():
        for c in children(n):
            if "i" in c:
                par[c["i"]] = n
    return par


def stmt_of(fn, par, n):
    """the CFG element (call/assignment/decl/return) that contains node n and is listed in a block"""
    cur = n
    best = None
    while cur is not None:
        if "i" in cur and fn.cfg.block_of(cur["i"]) is not None:
            best = cur
        cur = par.get(cur.get("i"))
    return best


def is_zero(lo, e):
    t = term(lo, e)
    return t in ("0", "0.0")


def is_minus_one(lo, e):
    return term(lo, e) in ("neg(1)", "-1", "neg(1.0)", "-1.0")


NUMERIC_READS = ("dot", "norm2", "norm2sqr", "max_abs_element", "min_abs_element", "dot_async", "norm2_async", "triple_dot")
OVERWRITES = ("format", "clear", "copy", "convert")


def object_uses(fn, lo, key, before=None):
    """uses of the object `key` (by objkey, so aliases count) in calls not dominated by statement `before`:
    -> list of (kind, call node) with kind 'recv-const' | 'recv-mut' | 'arg-const' | 'arg-mut'"""
    out = []
    for c in fn.calls():
        if before is not None and (c["i"] == before["i"] or fn.cfg.stmt_dominates(before["i"], c["i"])):
            continue
        if c.get("k") == "MCall" and c.get("obj") is not None and c["obj"].get("k") != "This" and objkey(lo, c["obj"]) == key:
            out.append(("recv-const" if c.get("cconst") else "recv-mut", c))
        for i, x in enumerate(c.get("a", [])):
            if isinstance(x, dict) and x.get("k") in ("Ref", "Member", "MCall") and objkey(lo, x) == key:
                pt = fn.type(c["pt"][i]) if i < len(c.get("pt", [])) else ""
                out.append(("arg-const" if ("const" in pt or not ("&" in pt or "*" in pt)) else "arg-mut", c))
    return out


def scalar_value(lo, e):
    t = term(lo, e)
    m = re.match(r"^neg\((\d+(\.\d+)?)\)$", t)
    if m:
        return -float(m.group(1))
    try:
        return float(t)
    except ValueError:
        return None


def defect_value(fn, lo, dobj, before):
    """straight-line symbolic value of the vector dobj before statement `before`, as coefficients of
    {'rhs', 'A*sol'}; None if some step is not modelled (other operands, unknown scalars, branches)"""
    val = {}
    known = False
    cfg = fn.cfg
    wb = cfg.block_of(before["i"])
    if wb is None:
        return None
    for sid in cfg.blocks[wb[0]]["el"]:
        if sid == before["i"]:
            break
        c = fn.by_id(sid)
        if c is None or c.get("k") != "MCall":
            continue
        nm = cname(c)
        roles = dict(zip(c.get("pn", []), c.get("a", [])))
        obj = objkey(lo, c.get("obj")) if c.get("obj") is not None else None

        def vec(e):
            k = objkey(lo, e)
            if k == "$1":
                return {"rhs": 1.0}
            if k == dobj:
                return dict(val) if known else None
            return None
        if nm == "apply" and obj == "this._system_matrix" and objkey(lo, roles.get("r", {})) == dobj:
            if objkey(lo, roles.get("x", {})) != "$0":
                return None
            if "y" in roles:
                a = scalar_value(lo, roles["alpha"])
                y = vec(roles["y"])
                if a is None or y is None:
                    return None
                val = dict(y)
                val["A*sol"] = val.get("A*sol", 0.0) + a
            else:
                val = {"A*sol": 1.0}
            known = True
        elif obj == dobj and nm == "scale":
            x, a = vec(roles.get("x", {})), scalar_value(lo, roles.get("alpha", {}))
            if x is None or a is None:
                return None
            val, known = {k: v * a for k, v in x.items()}, True
        elif obj == dobj and nm == "axpy":
            x = vec(roles.get("x", {}))
            a = scalar_value(lo, roles["alpha"]) if "alpha" in roles else 1.0
            if x is None or a is None or not known:
                return None
            for k, v in x.items():
                val[k] = val.get(k, 0.0) + a * v
        elif obj == dobj and nm == "copy":
            x = vec(c["a"][0]) if c.get("a") else None
            if x is None:
                return None
            val, known = x, True
        elif obj == dobj and not c.get("cconst"):
            return None
    if not known:
        return None
    return {k: v for k, v in val.items() if v != 0.0}


def rule_apply_correct(ck, solvers):
    for sc in sorted(SOLVERS):
        ai = solvers.get(sc, {}).get("_apply_intern", [])
        for meth in ("apply", "correct"):
            rule = "E7.apply-ignores-start" if meth == "apply" else "E7.correct-honours-start"
            fns = solvers.get(sc, {}).get(meth, [])
            if not fns:
                ck.incomplete(rule, "anchor %s::%s not instantiated" % (sc, meth))
                continue
            problems, notes = [], []
            fwd_bad = []
            for fn in fns:
                tag = short_inst(fn)
                where = "%s::%s [%s]" % (sc, meth, tag)
                if len(fn.params) != 2:
                    ck.incomplete(rule, "%s has %d parameters" % (where, len(fn.params)))
                    continue
                lo = Locals(fn)
                p0, p1 = fn.params[0], fn.params[1]
                calls = [c for c in fn.calls() if cname(c) == "_apply_intern"]
                via = None
                if not calls and meth == "apply":
                    # apply() as `vec_cor.format(); return correct(vec_cor, vec_def);`: with the null start vector the defect that
                    # correct() computes is the right-hand side itself, so apply() inherits the obligations decided for correct()
                    cc = [c for c in fn.calls() if cname(c) == "correct" and c.get("k") == "MCall" and (c.get("obj") is None or c["obj"].get("k") == "This")]
                    if len(cc) == 1 and len(cc[0].get("a", [])) == 2 and fn.cfg.must_pass(lambda n, _i=cc[0]["i"]: n.get("i") == _i)[0] \
                            and objkey(lo, cc[0]["a"][0]) == "$0" and objkey(lo, cc[0]["a"][1]) == "$1":
                        uses = object_uses(fn, lo, "$0", before=cc[0])
                        fm = [c for k, c in uses if k == "recv-mut" and cname(c) == "format" and all(is_zero(lo, a) for a in c.get("a", [])) and fn.cfg.stmt_dominates(c["i"], cc[0]["i"])]
                        early = [c for k, c in uses if fm and c["i"] != fm[0]["i"] and not fn.cfg.stmt_dominates(fm[0]["i"], c["i"]) and (k in ("recv-mut", "arg-mut") or cname(c) in NUMERIC_READS)]
                        if fm and not early:
                            notes.append("[%s] %s.format(0); return correct(%s, %s) (the defect of the null vector is %s)" % (tag, p0["n"], p0["n"], p1["n"], p1["n"]))
                            for n in fn.nodes():
                                if n.get("k") == "Return" and lo.resolve(n.get("e")).get("i") != cc[0]["i"]:
                                    e = lo.resolve(n.get("e"))
                                    if status_lit(e) is not None:
                                        fwd_bad.append("[%s] line %s: apply() returns the literal %s, not the status of correct()" % (tag, n.get("l"), render(e)[:50]))
                                    elif not (e.get("k") == "Member" and e.get("field") and e.get("n") == "_status"):
                                        ck.incomplete("E7.status-forwarded", "%s line %s: returned status %s is not directly the result of correct()" % (where, n.get("l"), render(e)[:50]))
                            continue
                        if not fm:
                            problems.append("[%s] apply() forwards to correct(%s, %s) without %s.format(0) before it: correct() takes the undefined contents of %s as the initial guess" % (tag, p0["n"], p1["n"], p0["n"], p0["n"]))
                            continue
                if not calls:
                    # the iteration (and the common tail of apply/correct) behind a shared private helper: follow one level
                    hc = []
                    for c in fn.calls():
                        if c.get("k") != "MCall" or not (c.get("obj") is None or c["obj"].get("k") == "This") or cname(c) in ("apply", "correct", "_apply_intern"):
                            continue
                        hs = [h for h in solvers.get(sc, {}).get(cname(c), []) if h.cls == fn.cls and h.cfg is not None]
                        if not hs:
                            continue
                        inner = [x for x in hs[0].calls() if cname(x) == "_apply_intern"]
                        if len(inner) == 1 and hs[0].cfg.must_pass(lambda n, _i=inner[0]["i"]: n.get("i") == _i)[0]:
                            hc.append((c, hs[0], inner[0]))
                    if len(hc) == 1:
                        c, hfn, inner = hc[0]
                        hlo = Locals(hfn)
                        amap, okmap = [], True
                        for a in inner.get("a", []):
                            k = objkey(hlo, a)
                            if re.match(r"^\$\d+$", k) and int(k[1:]) < len(c.get("a", [])):
                                amap.append(c["a"][int(k[1:])])
                            elif k.startswith("this."):
                                amap.append(a)
                            else:
                                okmap = False
                        pre = [x for x in hfn.calls() if x["i"] != inner["i"] and not hfn.cfg.stmt_dominates(inner["i"], x["i"]) and x.get("k") == "MCall" and not x.get("cconst")
                               and ((x.get("obj") is not None and x["obj"].get("k") != "This" and "Vector" in strip_targs(hfn.ntype(x["obj"]) or "")) or cname(x) in ("apply", "filter_def", "filter_cor"))]
                        if okmap and not pre:
                            via = (hfn, inner)
                            call0 = dict(c)
                            call0["a"] = amap
                            calls = [call0]
                        else:
                            ck.incomplete(rule, "%s: the iteration is delegated to %s(), which %s" % (where, hfn.name, "modifies vectors before it calls _apply_intern" if pre else "passes arguments to _apply_intern that this rule cannot map to the caller's"))
                            continue
                if len(calls) != 1:
                    ck.incomplete(rule, "%s: %d calls of _apply_intern (iteration delegated differently)" % (where, len(calls)))
                    continue
                call = calls[0]
                okp, _bad = fn.cfg.must_pass(lambda n: n.get("i") == call["i"])
                if not okp:
                    ck.incomplete(rule, "%s: a path returns without running _apply_intern (early-out not modelled)" % where)
                    continue
                if not call.get("a"):
                    ck.incomplete(rule, "%s: _apply_intern takes no iterate" % where)
                    continue
                it_key = objkey(lo, call["a"][0])
                if it_key != "$0":
                    if it_key.startswith("?") or any(k == "arg-mut" and cname(c) != "_apply_intern" for k, c in object_uses(fn, lo, "$0")):
                        ck.incomplete(rule, "%s: _apply_intern iterates on %s; relation to %s not modelled" % (where, render(call["a"][0])[:40], p0["n"]))
                    else:
                        problems.append("[%s] _apply_intern iterates on %s instead of the caller's %s" % (tag, render(call["a"][0])[:40], p0["n"]))
                    continue
                # the defect vector of the matching _apply_intern
                same = [f for f in ai if f.cls == fn.cls]
                dobj = None
                if same:
                    cands, _summ, _fl = status_helpers(solvers.get(sc, {}), fn.cls, {})
                    dobj = find_defect_obj(same[0], Locals(same[0]), cands)
                if dobj is not None and re.match(r"^\$\d+$", dobj):
                    # _set_initial_defect measures a parameter of _apply_intern: identify it in this caller
                    j = int(dobj[1:])
                    cal = objkey(lo, call["a"][j]) if j < len(call.get("a", [])) else "?"
                    if cal == "$1" and meth == "apply":
                        # with the null start vector the right-hand side *is* the initial defect
                        notes.append("[%s] _set_initial_defect measures %s itself (= the defect for the null start vector)" % (tag, p1["n"]))
                        continue
                    if cal == "$1":
                        problems.append("[%s] _set_initial_defect in _apply_intern measures its parameter %d, i.e. the right-hand side %s itself, not the defect %s - A*%s that correct() computes: "
                                        "for a non-zero start vector the initial defect, the relative tolerance base and an 'already converged' verdict belong to the wrong vector" % (tag, j, p1["n"], p1["n"], p0["n"]))
                        continue
                    if cal == "$0":
                        problems.append("[%s] _set_initial_defect in _apply_intern measures the iterate %s instead of a defect vector" % (tag, p0["n"]))
                        continue
                    dobj = cal
                if dobj is None or dobj.startswith("?") or dobj.startswith("$"):
                    ck.incomplete(rule, "%s: defect vector of _apply_intern not identified (%s)" % (where, dobj))
                    continue
                sol_uses = [(k, c) for k, c in object_uses(fn, lo, "$0", before=call)]
                def_uses = [(k, c) for k, c in object_uses(fn, lo, dobj, before=call)]
                # own non-const helpers called before the iteration: they may provide what the rules below look for
                pre_helpers = []
                for c in fn.calls():
                    if c.get("k") == "MCall" and (c.get("obj") is None or c["obj"].get("k") == "This") and not c.get("cconst") and c["i"] != call["i"] \
                            and not fn.cfg.stmt_dominates(call["i"], c["i"]) and cname(c) not in ("_apply_intern", "plot_summary") \
                            and short_cls(c.get("ccls", "")) in (sc, "IterativeSolver", "PreconditionedIterativeSolver", "SolverBase"):
                        hs = [h for h in solvers.get(sc, {}).get(cname(c), []) if h.cls == fn.cls and h.cfg is not None]
                        pre_helpers.append((c, hs[0] if hs else None))
                helper_names = ", ".join(sorted({cname(c) for c, h in pre_helpers}))
                intern_formats = same and any(c.get("k") == "MCall" and cname(c) in OVERWRITES and objkey(Locals(same[0]), c.get("obj")) == "$0" for c in same[0].calls())
                if meth == "apply":
                    fm = [c for k, c in sol_uses if k == "recv-mut" and cname(c) == "format" and all(is_zero(lo, a) for a in c.get("a", []))
                          and fn.cfg.stmt_dominates(c["i"], call["i"])]
                    if not fm:
                        others = [c for k, c in sol_uses if k in ("recv-mut", "arg-mut")]
                        if others or intern_formats or pre_helpers:
                            ck.incomplete(rule, "%s: no %s.format(0) before the iteration, but %s may define it" % (where, p0["n"], ", ".join(sorted({cname(c) for c in others})) or helper_names or "_apply_intern"))
                        else:
                            problems.append("[%s] %s is neither formatted nor otherwise written before the iteration: apply() starts from whatever the caller left in it (documented: contents may be undefined on entry, the solver starts with the null vector)" % (tag, p0["n"]))
                    else:
                        f0 = fm[0]
                        for k, c in sol_uses:
                            if c["i"] == f0["i"] or fn.cfg.stmt_dominates(f0["i"], c["i"]):
                                continue
                            numeric = (k == "recv-const" and cname(c) in NUMERIC_READS) or (k == "arg-const" and cname(c) in ("copy", "axpy", "scale", "apply", "dot", "component_product") + NUMERIC_READS)
                            if numeric:
                                problems.append("[%s] line %s: %s reads the numerical contents of %s before it is formatted" % (tag, c.get("l"), render(c)[:60], p0["n"]))
                    cp = [c for k, c in def_uses if k == "recv-mut" and cname(c) == "copy" and c.get("a") and objkey(lo, c["a"][0]) == "$1" and fn.cfg.stmt_dominates(c["i"], call["i"])]
                    if cp:
                        notes.append("[%s] %s := copy(%s); %s.format(0)" % (tag, dobj, p1["n"], p0["n"]))
                    else:
                        writers = [c for k, c in def_uses if k in ("recv-mut", "arg-mut")]
                        rhs_elsewhere = [c for k, c in object_uses(fn, lo, "$1", before=call) if not (k == "arg-const" and cname(c) == "_apply_intern")]
                        asg = [n for n in fn.nodes() if as_assign(n) is not None and objkey(lo, as_assign(n)[0]) == dobj]
                        hcopy = []
                        for c, h in pre_helpers:
                            # `_store_defect(vec_def)`: the copy inside a helper, its source bound to our right-hand side
                            if h is None or not fn.cfg.stmt_dominates(c["i"], call["i"]):
                                continue
                            hl = Locals(h)
                            for c2 in h.calls():
                                if c2.get("k") == "MCall" and cname(c2) == "copy" and c2.get("obj") is not None and objkey(hl, c2["obj"]) == dobj and c2.get("a") \
                                        and h.cfg.must_pass(lambda n, _i=c2["i"]: n.get("i") == _i)[0]:
                                    k2 = objkey(hl, c2["a"][0])
                                    if re.match(r"^\$\d+$", k2) and int(k2[1:]) < len(c.get("a", [])) and objkey(lo, c["a"][int(k2[1:])]) == "$1":
                                        hcopy.append(c)
                        if hcopy:
                            notes.append("[%s] %s := copy(%s) inside %s(); %s.format(0)" % (tag, dobj, p1["n"], cname(hcopy[0]), p0["n"]))
                        elif writers or asg or pre_helpers:
                            ck.incomplete(rule, "%s: %s is not set by %s.copy(%s) but written by %s" % (where, dobj, dobj, p1["n"], ", ".join(sorted({cname(c) for c in writers})) or helper_names or "assignment"))
                        elif any(k == "arg-mut" or (k.startswith("arg") and cname(c) not in ("copy",)) for k, c in [(k, c) for k, c in object_uses(fn, lo, "$1", before=call)] if cname(c) != "_apply_intern"):
                            ck.incomplete(rule, "%s: %s is handed to %s; whether that defines %s is not modelled" % (where, p1["n"], ", ".join(sorted({cname(c) for c in rhs_elsewhere})), dobj))
                        else:
                            problems.append("[%s] the vector measured by _set_initial_defect (%s) is never written by apply(): the initial defect is not the given %s (copies of it go to: %s)" % (
                                tag, dobj, p1["n"], sorted({objkey(lo, c.get("obj")) for c in fn.calls() if c.get("k") == "MCall" and cname(c) == "copy" and c.get("a") and objkey(lo, c["a"][0]) == "$1"}) or "nowhere"))
                else:
                    for k, c in sol_uses:
                        if k == "recv-mut" and cname(c) in OVERWRITES:
                            problems.append("[%s] line %s: correct() calls %s.%s(...) before iterating: the initial guess of the caller is destroyed (documented: vec_sol is the initial solution)" % (tag, c.get("l"), p0["n"], cname(c)))
                        elif k in ("recv-mut", "arg-mut"):
                            ck.incomplete(rule, "%s line %s: the start vector is modified by %s before the iteration (effect not modelled)" % (where, c.get("l"), cname(c)))
                    # defect := rhs - A*sol, filtered, into the vector measured by _set_initial_defect
                    good, wrong = None, []
                    for k, c in def_uses:
                        if not (k == "arg-mut" and c.get("k") == "MCall" and cname(c) == "apply" and objkey(lo, c.get("obj")) == "this._system_matrix" and fn.cfg.stmt_dominates(c["i"], call["i"])):
                            continue
                        roles = dict(zip(c.get("pn", []), c.get("a", [])))
                        if set(roles) != {"r", "x", "y", "alpha"}:
                            continue
                        got = (objkey(lo, roles["r"]), objkey(lo, roles["x"]), objkey(lo, roles["y"]), is_minus_one(lo, roles["alpha"]))
                        if got == (dobj, "$0", "$1", True):
                            good = c
                        elif got[0] == dobj:
                            wrong.append("[%s] line %s: defect computation %s has (r,x,y,alpha) = (%s,%s,%s,%s); expected (%s, %s, %s, -1), i.e. rhs - A*sol into the vector measured by _set_initial_defect" % (
                                tag, c.get("l"), render(c)[:50], got[0], got[1], got[2], term(lo, roles["alpha"]), dobj, p0["n"], p1["n"]))
                    other_writers = [c for k, c in def_uses if k in ("recv-mut", "arg-mut") and (good is None or c["i"] != good["i"]) and cname(c) != "filter_def"]
                    stepwise = defect_value(fn, lo, dobj, call) if good is None else None
                    via_helper = None
                    if good is None and not wrong and not other_writers:
                        # the defect computation behind a helper `_calc_defect(sol, rhs)`: decide it in the helper with its parameters bound here
                        for c, h in pre_helpers:
                            if h is None or not fn.cfg.stmt_dominates(c["i"], call["i"]):
                                continue
                            hl = Locals(h)
                            for c2 in h.calls():
                                if not (c2.get("k") == "MCall" and cname(c2) == "apply" and c2.get("obj") is not None and objkey(hl, c2["obj"]) == "this._system_matrix"):
                                    continue
                                roles = dict(zip(c2.get("pn", []), c2.get("a", [])))
                                if set(roles) != {"r", "x", "y", "alpha"} or objkey(hl, roles["r"]) != dobj or not h.cfg.must_pass(lambda n, _i=c2["i"]: n.get("i") == _i)[0]:
                                    continue

                                def bound(e):
                                    k2 = objkey(hl, e)
                                    if re.match(r"^\$\d+$", k2) and int(k2[1:]) < len(c.get("a", [])):
                                        return objkey(lo, c["a"][int(k2[1:])])
                                    return k2
                                got = (bound(roles["x"]), bound(roles["y"]), is_minus_one(hl, roles["alpha"]))
                                filt = any(cname(c3) == "filter_def" and c3.get("a") and objkey(hl, c3["a"][0]) == dobj and objkey(hl, c3.get("obj")) == "this._system_filter"
                                           and h.cfg.stmt_dominates(c2["i"], c3["i"]) and h.cfg.must_pass(lambda n, _i=c3["i"]: n.get("i") == _i)[0] for c3 in h.calls())
                                later_w = [c3 for c3 in h.calls() if c3["i"] != c2["i"] and h.cfg.stmt_dominates(c2["i"], c3["i"]) and c3.get("k") == "MCall" and not c3.get("cconst")
                                           and c3.get("obj") is not None and c3["obj"].get("k") != "This" and objkey(hl, c3["obj"]) == dobj]
                                via_helper = (c, h, got, filt, later_w)
                    if via_helper is not None:
                        c, h, got, filt, later_w = via_helper
                        if later_w:
                            ck.incomplete(rule, "%s: %s() modifies %s after computing the defect (%s)" % (where, h.name, dobj, ", ".join(sorted({cname(x) for x in later_w}))))
                        elif got != ("$0", "$1", True):
                            problems.append("[%s] line %s: the defect computation in %s() called as %s has (x,y,alpha = -1?) = (%s,%s,%s); expected (%s, %s, True), i.e. rhs - A*sol into the vector measured by _set_initial_defect" % (
                                tag, c.get("l"), h.name, render(c)[:50], got[0], got[1], got[2], p0["n"], p1["n"]))
                        elif not filt and not any(k == "arg-mut" and cname(c3) == "filter_def" and fn.cfg.stmt_dominates(c["i"], c3["i"]) and fn.cfg.stmt_dominates(c3["i"], call["i"]) for k, c3 in def_uses):
                            ck.incomplete(rule, "%s: the defect computed in %s() is not followed by a _system_filter.filter_def this rule can order" % (where, h.name))
                        else:
                            notes.append("[%s] %s := filter_def(%s - A*%s) inside %s()" % (tag, dobj, p1["n"], p0["n"], h.name))
                    elif good is None and stepwise == {"rhs": 1.0, "A*sol": -1.0}:
                        # rhs - A*sol assembled in several vector operations
                        fl = [c for k, c in def_uses if k == "arg-mut" and cname(c) == "filter_def" and objkey(lo, c.get("obj")) == "this._system_filter" and fn.cfg.stmt_dominates(c["i"], call["i"])]
                        last_writer = max([c["i"] for k, c in def_uses if k == "recv-mut" or (k == "arg-mut" and cname(c) == "apply")] or [0])
                        if fl and all(fn.cfg.stmt_dominates(by, f["i"]) for f in fl[-1:] for by in [last_writer] if by):
                            notes.append("[%s] %s := filter_def(%s - A*%s) (assembled stepwise)" % (tag, dobj, p1["n"], p0["n"]))
                        else:
                            ck.incomplete(rule, "%s: stepwise defect %s is not followed by a filter_def this rule can order" % (where, dobj))
                    elif good is None and stepwise is not None and not wrong:
                        problems.append("[%s] the vector measured by _set_initial_defect is initialised to %s, not to rhs - A*sol" % (tag, " + ".join("%g*%s" % (v, k) for k, v in sorted(stepwise.items())) or "0"))
                    elif good is None:
                        if other_writers and not wrong:
                            ck.incomplete(rule, "%s: the defect %s is not computed by one _system_matrix.apply(r,x,y,alpha) but through %s" % (where, dobj, ", ".join(sorted({cname(c) for c in other_writers}))))
                        elif wrong and len(other_writers) > len(wrong):
                            ck.incomplete(rule, "%s: %s; further writers of %s: %s" % (where, wrong[0][:160], dobj, ", ".join(sorted({cname(c) for c in other_writers}))))
                        elif wrong:
                            problems.extend(wrong[:1])
                        elif pre_helpers:
                            ck.incomplete(rule, "%s: correct() does not write %s itself, but calls %s before the iteration, which this rule could not follow" % (where, dobj, helper_names))
                        else:
                            problems.append("[%s] correct() never writes %s, the vector measured by _set_initial_defect: the initial defect is not rhs - A*sol" % (tag, dobj))
                    else:
                        fl = [c for k, c in def_uses if k == "arg-mut" and cname(c) == "filter_def" and objkey(lo, c.get("obj")) == "this._system_filter"
                              and fn.cfg.stmt_dominates(good["i"], c["i"]) and fn.cfg.stmt_dominates(c["i"], call["i"])]
                        if fl:
                            notes.append("[%s] %s := filter_def(%s - A*%s)" % (tag, dobj, p1["n"], p0["n"]))
                        else:
                            later = [c for k, c in def_uses if k in ("arg-mut", "recv-mut") and c["i"] != good["i"]]
                            in_intern = same and any(cname(c) == "filter_def" for c in same[0].calls() if c.get("a") and objkey(Locals(same[0]), c["a"][0]) == dobj)
                            if later or in_intern or pre_helpers:
                                ck.incomplete(rule, "%s: no _system_filter.filter_def(%s) between the defect computation and the iteration, but %s may filter it" % (where, dobj, ", ".join(sorted({cname(c) for c in later})) or helper_names or "_apply_intern"))
                            else:
                                problems.append("[%s] the initial defect %s is not passed through _system_filter.filter_def before the iteration (constrained dofs keep a non-zero defect)" % (tag, dobj))
                # the status of the run is what the caller gets (through the shared helper, if the iteration is delegated)
                for ufn, ulo, ucall, uname, what in [(fn, lo, call, meth, "_apply_intern" if via is None else via[0].name)] + ([(via[0], Locals(via[0]), via[1], via[0].name, "_apply_intern")] if via is not None else []):
                    for n in ufn.nodes():
                        if n.get("k") != "Return":
                            continue
                        e = ulo.resolve(n.get("e"))
                        if e.get("i") == ucall["i"]:
                            continue
                        if e.get("k") == "Member" and e.get("field"):
                            asg = [a for a in ufn.nodes() if a.get("k") == "Assign" and term(ulo, a["lhs"]) == term(ulo, e)]
                            if len(asg) == 1 and ulo.resolve(asg[0]["rhs"]).get("i") == ucall["i"] and ufn.cfg.stmt_dominates(asg[0]["i"], n["i"]):
                                continue
                        if status_lit(e) is not None:
                            fwd_bad.append("[%s] line %s: %s() returns the literal %s, not the status of %s" % (tag, n.get("l"), uname, render(e)[:50], what))
                        else:
                            ck.incomplete("E7.status-forwarded", "%s line %s: returned status %s is not directly the result of %s" % (where, n.get("l"), render(e)[:50], what))
            f0 = fns[0]
            ck.ob(rule, "%s::%s" % (sc, meth), not problems, "; ".join(problems[:3]) if problems else "; ".join(notes[:2]) or "see analysis_incomplete", f0.file, f0.line)
            ck.ob("E7.status-forwarded", "%s::%s" % (sc, meth), not fwd_bad, "; ".join(fwd_bad[:2]) if fwd_bad else "returns the status computed by _apply_intern (stored in _status)", f0.file, f0.line)


def rule_rhs_const(ck, facts, solvers):
    """right-hand side / defect parameters are const references and never cast"""
    for sc in sorted(SOLVERS):
        for meth in ("apply", "correct", "_apply_intern"):
            fns = solvers.get(sc, {}).get(meth, [])
            bad, n = [], 0
            for fn in fns:
                ps = fn.params[1:2] if meth != "_apply_intern" else fn.params[1:]
                for prm in ps:
                    ty = fn.type(prm["t"])
                    if meth == "_apply_intern" and "Vector" not in ty and "VectorType" not in ty:
                        continue
                    n += 1
                    if not re.match(r"^const\b.*&$", ty.strip()):
                        bad.append("[%s] parameter %d '%s' of %s has type %s, not a const reference" % (short_inst(fn), fn.params.index(prm), prm["n"], meth, ty))
                    for c in fn.nodes():
                        if c.get("k") == "Cast" and any(x.get("k") == "Ref" and x.get("d") == prm["d"] for x in walk(c.get("e"))):
                            to = c.get("to", "")
                            if c.get("ck") in ("const", "reinterpret") or ((c.get("ck") in ("cstyle", "functional", "static")) and "const" not in to and ("&" in to or "*" in to)):
                                bad.append("[%s] line %s: %s_cast of the right-hand side '%s' to %s" % (short_inst(fn), c.get("l"), c.get("ck"), prm["n"], to))
            if n:
                ck.ob("E2.rhs-const", "%s::%s" % (sc, meth), not bad, "; ".join(bad[:2]) if bad else "right-hand side parameter is `const VectorType&` and never cast (a write would need a cast: the type system rejects every mutable use)", fns[0].file, fns[0].line)
    # the abstract interface
    for relp, rx, what in ((BASE, r"virtual Status apply\(Vector_& vec_cor, const Vector_& vec_def\) = 0;", "SolverBase::apply"),
                           (ITER, r"virtual Status correct\(VectorType& vec_sol, const VectorType& vec_rhs\) = 0;", "IterativeSolver::correct")):
        ln = decl_line(featlib.repo_path(relp), rx)
        ck.ob("E2.rhs-const", what + "/interface", ln is not None, "pure virtual declared with a const right-hand side at line %s" % ln if ln else "the interface declaration `%s` was not found" % rx, featlib.repo_path(relp), ln or 0)



# key -> field exceptions to the like-named rule, each with the documentation it comes from
KEY_FIELD_EXCEPT = {
    ("BiCGStabL", "polynomial_degree"): ("_l", "bicgstabl.hpp: `int _l` \"Parameter l configuring the solver\" = the polynomial degree l of BiCGStab(l)"),
}
SETTER_FIELD_EXCEPT = {
    ("PCGNRILU", "set_fill_in_param"): ("_ilu_p", "pcgnrilu.hpp: `int _ilu_p` \"ilu fill-in\""),
    ("IterativeSolver", "skip_defect_calc"): ("_skip_def_calc", "iterative.hpp: \"whether to skip defect computation if possible\""),
}
GETTER_FIELD_EXCEPT = {
    ("IterativeSolver", "get_def_initial"): ("_def_init", "\"Returns the initial defect\""),
    ("IterativeSolver", "get_def_final"): ("_def_cur", "\"Returns the final defect\" = the current defect after the run"),
}
CONFIG_CLASSES = list(SOLVERS) + ["IterativeSolver", "PreconditionedIterativeSolver"]


def class_functions(facts, sc):
    out = []
    for f in facts.functions:
        if short_cls(f.cls) == sc and f.tk in ("inst", "plain") and ("/" + SOLVER_DIR) in f.file:
            out.append(f)
    return out


def as_assign(n):
    """(lhs, rhs) of a plain assignment, built-in or through an overloaded operator= (String fields)"""
    if n.get("k") == "Assign" and n.get("op") == "=":
        return n["lhs"], n["rhs"]
    if n.get("k") == "OpCall" and n.get("op") == "=" and len(n.get("a", [])) == 2:
        return n["a"][0], n["a"][1]
    return None


def field_written_from(fn, lo, src_pred):
    """fields of *this assigned (on some statement) from an expression satisfying src_pred -> {field: stmt}"""
    out = {}
    for n in fn.nodes():
        lr = as_assign(n)
        if lr is not None:
            l = strip(lr[0])
            if l.get("k") == "Member" and l.get("field") and (l.get("b") is None or l["b"].get("k") == "This"):
                if any(src_pred(x) for x in walk(lr[1])):
                    out[l["n"]] = n
    return out


def through_moves(lo, e):
    """strip std::move / std::forward / value casts around an expression"""
    e = lo.resolve(e)
    while is_call(e) and cname(e) in ("move", "forward") and len(e.get("a", [])) == 1:
        e = lo.resolve(e["a"][0])
    return e


def setter_field(fn):
    """set_X(p): -> (field, stmt) if parameter p is stored directly into exactly one field on every path;
    (None, why, definite): definite=True only if the parameter demonstrably reaches no field at all"""
    if len(fn.params) != 1:
        return None, "setter with %d parameters" % len(fn.params), False
    lo = Locals(fn)
    d = fn.params[0]["d"]
    direct = []
    for n in fn.nodes():
        lr = as_assign(n)
        if lr is not None:
            l, r = strip(lr[0]), through_moves(lo, lr[1])
            if l.get("k") == "Member" and l.get("field") and r.get("k") == "Ref" and r.get("d") == d:
                direct.append((l["n"], n))
    if not direct:
        uses = [x for x in fn.nodes() if x.get("k") == "Ref" and x.get("d") == d]
        par = parent_map(fn)
        flows = [u for u in uses if (par.get(u["i"]) or {}).get("callee", "").find("assertion") < 0]
        # uses inside XASSERT(...) do not store anything
        real = []
        for u in flows:
            q = par.get(u["i"])
            in_assert = False
            while q is not None:
                if is_call(q) and "assertion" in q.get("callee", ""):
                    in_assert = True
                    break
                q = par.get(q.get("i")) if "i" in q else None
            if not in_assert:
                real.append(u)
        if real:
            return None, "the parameter is not assigned to a field directly but flows into %s" % render(par.get(real[0]["i"]) or real[0])[:50], False
        return None, "the parameter is stored nowhere", True
    ok = [x for x in direct if fn.cfg.must_pass(lambda s, _i=x[1]["i"]: s.get("i") == _i)[0]]
    if not ok:
        return None, "the assignment of the parameter is conditional", False
    if len({x[0] for x in ok}) > 1:
        return None, "the parameter is stored into several fields: %s" % sorted({x[0] for x in ok}), False
    return ok[0][0], ok[0][1], True


def rule_config(ck, facts):
    setters = {}      # (class, name) -> field
    # --- setters
    for sc in CONFIG_CLASSES:
        seen = set()
        for fn in class_functions(facts, sc):
            if not (fn.name.startswith("set_") or (sc, fn.name) in SETTER_FIELD_EXCEPT) or fn.name in seen or fn.d.get("ctor"):
                continue
            seen.add(fn.name)
            fld, info, definite = setter_field(fn)
            want, src = SETTER_FIELD_EXCEPT.get((sc, fn.name), ("_" + fn.name[4:], "like-named field"))
            if fld is None:
                if definite:
                    ck.ob("E1.setter-field", "%s::%s" % (sc, fn.name), False, "%s (expected: %s := parameter)" % (info, want), fn.file, fn.line)
                else:
                    ck.incomplete("E1.setter-field", "%s::%s: %s (expected: %s := parameter)" % (sc, fn.name, info, want))
                continue
            setters[(sc, fn.name)] = fld
            ck.ob("E1.setter-field", "%s::%s" % (sc, fn.name), fld == want,
                  "%s(%s) stores its argument into %s; expected %s (%s): the configured value never reaches the field the solver tests" % (fn.name, fn.params[0]["n"], fld, want, src) if fld != want
                  else "%s(%s) assigns %s" % (fn.name, fn.params[0]["n"], fld), fn.file, fn.line)
    # --- getters
    for sc in CONFIG_CLASSES:
        seen = set()
        for fn in class_functions(facts, sc):
            if not fn.name.startswith("get_") or fn.params or fn.name in seen:
                continue
            want, src = GETTER_FIELD_EXCEPT.get((sc, fn.name), ("_" + fn.name[4:], "like-named field"))
            rets = [n for n in fn.nodes() if n.get("k") == "Return"]
            if len(rets) != 1:
                continue
            e = Locals(fn).resolve(rets[0].get("e"))          # through const locals / reference aliases
            if not (e.get("k") == "Member" and e.get("field")):
                continue            # computed summaries (get_summary, ...) are not configuration getters
            seen.add(fn.name)
            ck.ob("E1.getter-field", "%s::%s" % (sc, fn.name), e["n"] == want,
                  "%s() returns %s; expected %s (%s)" % (fn.name, e["n"], want, src), fn.file, fn.line)
    # --- PropertyMap keys parsed in constructors (directly, or through a local lambda called with key and target)
    for sc in CONFIG_CLASSES:
        seen = set()
        cfs = class_functions(facts, sc)
        ctor_qns = {f.qn for f in cfs if f.d.get("ctor")}
        lambdas = [f for f in facts.functions if "<lambda@" in f.qn and any(f.qn.startswith(q + "::<lambda@") for q in ctor_qns)]
        # member / static helpers that read a PropertyMap entry whose key is one of their parameters (called by a constructor)
        parsers, seen_p = [], set()
        for f in cfs:
            if f.d.get("ctor") or f.d.get("decl") in seen_p:
                continue
            if any(q.get("k") == "MCall" and cname(q) in ("get_entry", "query") and "PropertyMap" in q.get("callee", "") and q.get("a")
                   and Locals(f).resolve(q["a"][0]).get("dk") == "param" for q in f.calls()):
                seen_p.add(f.d.get("decl"))
                parsers.append(f)
        for fn in [f for f in cfs if f.d.get("ctor")] + lambdas + parsers:
            lo = Locals(fn)
            is_lambda = "<lambda@" in fn.qn or any(fn is x for x in parsers)
            own_calls = [x for x in walk(fn.body, prune=lambda n: n.get("k") == "Lambda") if is_call(x)]
            for q in own_calls:
                if q.get("k") != "MCall" or cname(q) not in ("get_entry", "query") or "PropertyMap" not in q.get("callee", ""):
                    continue
                karg = lo.resolve(q["a"][0]) if q.get("a") else {}
                keys = [x["v"] for x in walk(q) if x.get("k") == "Str"]
                kparam = None
                if len(keys) != 1:
                    if is_lambda and karg.get("k") == "Ref" and karg.get("dk") == "param":
                        kparam = [p["d"] for p in fn.params].index(karg["d"])
                    else:
                        ck.incomplete("E1.config-key-field", "%s constructor line %s: key of %s is not a string literal" % (sc, q.get("l"), render(q)[:60]))
                        continue
                # the variable holding the (value, found) pair
                var = None
                for v in lo.var.values():
                    if v.get("init") is not None and any(x.get("i") == q["i"] for x in walk(v["init"])):
                        var = v
                if var is None:
                    ck.incomplete("E1.config-key-field", "%s constructor line %s: result of %s is not stored in a local" % (sc, q.get("l"), render(q)[:50]))
                    continue
                vd = var["d"]

                def from_value(x, _vd=vd):
                    return x.get("k") == "Member" and x.get("n") == "first" and strip(x.get("b") or {}).get("k") == "Ref" and strip(x["b"]).get("d") == _vd
                targets, ptargets, opaque = {}, [], []
                for c in fn.calls():
                    if c.get("k") == "MCall" and cname(c) == "parse" and c.get("obj") is not None and from_value(strip(c["obj"])) and c.get("a"):
                        t = strip(c["a"][0])
                        if t.get("k") == "Member" and t.get("field"):
                            targets[t["n"]] = c
                        elif t.get("k") == "Ref" and t.get("dk") == "param" and is_lambda:
                            ptargets.append([p["d"] for p in fn.params].index(t["d"]))
                        elif t.get("k") == "Ref" and t.get("dk") == "local":
                            # parsed into a local that is then stored into a field
                            fw = field_written_from(fn, lo, lambda x, _d=t["d"]: x.get("k") == "Ref" and x.get("d") == _d)
                            for fname, st in fw.items():
                                targets[fname] = st
                            for c2 in fn.calls():
                                if c2.get("k") == "MCall" and cname(c2).startswith("set_") and any(x.get("k") == "Ref" and x.get("d") == t["d"] for x in walk(c2)):
                                    f2 = setters.get((sc, cname(c2))) or setters.get(("IterativeSolver", cname(c2)))
                                    if f2 is not None:
                                        fw[f2] = c2
                                        targets[f2] = c2
                            if not fw:
                                opaque.append("parsed into local '%s' that reaches no field directly" % t["n"])
                        else:
                            opaque.append("parsed into %s" % render(t)[:40])
                    elif c.get("k") == "MCall" and cname(c).startswith("set_") and (c.get("obj") is None or c["obj"].get("k") == "This") and any(from_value(x) for x in walk(c)):
                        f2 = setters.get((sc, cname(c))) or setters.get(("IterativeSolver", cname(c)))
                        if f2 is None:
                            opaque.append("goes through setter %s, whose field is not known" % cname(c))
                        else:
                            targets[f2] = c
                    elif is_call(c) and cname(c) not in ("parse", "ParseError", "String", "operator+", "basic_string") and "ParseError" not in c.get("callee", "") \
                            and any(from_value(x) for a in c.get("a", []) for x in walk(a)):
                        opaque.append("handed to %s" % cname(c))
                for fname, st in field_written_from(fn, lo, from_value).items():
                    targets[fname] = st
                # the (key, targets) pairs this query stands for
                sites = []
                if kparam is None:
                    sites.append((keys[0], dict(targets), q.get("l"), fn))
                else:
                    ncalls = 0
                    for caller in cfs:
                        clo = None
                        for c in caller.calls():
                            is_functor = c.get("k") == "OpCall" and c.get("op") == "()" and c.get("cdecl") == fn.d.get("decl")
                            is_member = c.get("k") in ("MCall", "Call") and c.get("cdecl") == fn.d.get("decl") and caller is not fn
                            if is_functor or is_member:
                                ncalls += 1
                                clo = clo or Locals(caller)
                                args = c["a"][1:] if is_functor else c["a"]
                                ks = [x["v"] for x in walk(args[kparam]) if x.get("k") == "Str"] if kparam < len(args) else []
                                if len(ks) != 1:
                                    ck.incomplete("E1.config-key-field", "%s line %s: key argument of the parsing lambda is not a string literal" % (sc, c.get("l")))
                                    continue
                                tg = dict(targets)
                                for j in ptargets:
                                    t = clo.resolve(args[j]) if j < len(args) else {}
                                    if t.get("k") == "Member" and t.get("field"):
                                        tg[t["n"]] = c
                                    else:
                                        ck.incomplete("E1.config-key-field", "%s line %s: key \"%s\" is parsed into %s (not a field)" % (sc, c.get("l"), ks[0], render(t)[:40]))
                                sites.append((ks[0], tg, c.get("l"), caller))
                    if ncalls == 0:
                        ck.incomplete("E1.config-key-field", "%s: no call of the parsing lambda at line %s found" % (sc, fn.line))
                for key, tg, line, where in sites:
                    if key in seen:
                        continue
                    seen.add(key)
                    if (sc, key) in KEY_FIELD_EXCEPT:
                        want, src = KEY_FIELD_EXCEPT[(sc, key)]
                    elif (sc, "set_" + key) in SETTER_FIELD_EXCEPT:
                        want, src = SETTER_FIELD_EXCEPT[(sc, "set_" + key)][0], "the documented field of %s::set_%s" % (sc, key)
                    else:
                        want, src = "_" + key, "like-named field"
                    if opaque and sorted(tg) != [want]:
                        ck.incomplete("E1.config-key-field", "%s: value of key \"%s\" %s (expected to reach %s)" % (sc, key, "; ".join(opaque[:2]), want))
                    elif not tg:
                        ck.ob("E1.config-key-field", "%s/%s" % (sc, key), False, "the value of key \"%s\" is read from the section but neither parsed, assigned nor passed on (expected %s)" % (key, want), where.file, line)
                    else:
                        got = sorted(tg)
                        ck.ob("E1.config-key-field", "%s/%s" % (sc, key), got == [want],
                              ("the value of key \"%s\" is stored into %s; expected %s (%s): a configured \"%s\" silently changes another criterion" % (key, got, want, src, key)) if got != [want]
                              else "key \"%s\" -> %s" % (key, want), where.file, line)


def flat_mul(t):
    """canonical product: nested mul(...) flattened and sorted: mul(a,mul(c,b)) -> mul(a,b,c)"""
    m = re.match(r"^mul\((.*)\)$", t)
    if not m:
        return t
    fs, rest = [], m.group(1)
    while rest:
        a, rest = split_top(rest)
        a = flat_mul(a)
        m2 = re.match(r"^mul\((.*)\)$", a)
        if m2:
            r2 = m2.group(1)
            while r2:
                b, r2 = split_top(r2)
                fs.append(b)
        else:
            fs.append(a)
    return "mul(%s)" % ",".join(sorted(fs))


CRIT_FIELDS = ("_tol_abs", "_tol_rel", "_tol_abs_low", "_div_abs", "_div_rel")
INNER_S = "_inner_res_scale"
# documented criteria in terms of the pseudo-residual $D (class docs of GMRES/FGMRES + IterativeSolver::_tol_rel)
INNER_ATOMS = {
    "div_abs": "le($D,_div_abs)", "div_rel": "le($D,mul(_def_init,_div_rel))",
    "tol_abs": "le($D,mul(_inner_res_scale,_tol_abs))", "tol_rel": "le($D,mul(_def_init,_inner_res_scale,_tol_rel))",
    "tol_low": "le($D,mul(_inner_res_scale,_tol_abs_low))", "min": "le(_min_iter,_num_iter)", "max": "le(_max_iter,_num_iter)",
}


def inner_oracle(env):
    A = INNER_ATOMS
    div = (not env[A["div_abs"]]) or (not env[A["div_rel"]])
    conv = env[A["tol_abs"]] and (env[A["tol_rel"]] or env[A["tol_low"]])
    return div, env[A["min"]], conv, env[A["max"]]


def _map_formula(f, fn_atom):
    if f[0] == "atom":
        return ("atom", fn_atom(f[1]))
    if f[0] == "not":
        return ("not", _map_formula(f[1], fn_atom))
    if f[0] in ("and", "or"):
        return (f[0], _map_formula(f[1], fn_atom), _map_formula(f[2], fn_atom))
    return f


def _without_scale(t):
    m = re.match(r"^mul\((.*)\)$", t)
    if not m:
        return t
    fs = [x for x in m.group(1).split(",") if x != INNER_S] if "(" not in m.group(1) else None
    if fs is None:
        return t
    return fs[0] if len(fs) == 1 else "mul(%s)" % ",".join(fs)


def rule_inner_criteria(ck, solvers, facts=None):
    """(F)GMRES replicate the stopping tests for the inner (pseudo-residual) iterations.  Decided on the CFG region from the first
    criterion test of the inner Krylov loop to the loop head (iteration continues) or a loop exit (iteration stops): decision table
    of all paths (own helpers followed) against  stop <=> diverged(D) or (num_iter >= min_iter and (converged_scaled(D) or num_iter >= max_iter))"""
    for sc in ("FGMRES", "GMRES"):
        path = featlib.repo_path(SOLVER_DIR + SOLVERS[sc])
        need = "one can ensure that the inner GMRES loop has to fulfill a tighter tolerance than the outer loop"
        try:
            alltext = " ".join(_norm(l) for l in open(path, encoding="utf-8", errors="replace").read().split("\n"))
        except OSError:
            alltext = ""
        if need not in re.sub(r"\s+", " ", alltext):
            ck.incomplete("E13.inner-criteria", "oracle anchor text changed: the %s class documentation no longer explains the inner residual scaling (\"%s\")" % (sc, need))
            continue
        for fn in solvers.get(sc, {}).get("_apply_intern", [])[:1]:
            cfg = fn.cfg
            lo = Locals(fn)
            keys = {"converged": "%s::_apply_intern/inner-converged" % sc, "diverged": "%s::_apply_intern/inner-diverged" % sc}

            def give_up(msg):
                ck.incomplete("E13.inner-criteria", "%s::_apply_intern: %s" % (sc, msg))
            methods = {}
            for mname, mfl in solvers.get(sc, {}).items():
                cand = [f for f in mfl if f.cls == fn.cls and f.cfg is not None and not f.d.get("ctor") and not f.d.get("virtual")]
                if cand and mname not in BASE_KNOWN and mname not in UPD and not mname.startswith("_apply_precond"):
                    methods[mname] = cand[0]
            # blocks whose branch condition tests a tolerance (directly or through an own helper that does)
            def mentions_criterion(f, depth=0):
                for x in walk(f.body):
                    if x.get("k") == "Member" and x.get("n") in CRIT_FIELDS:
                        return True
                    if depth < 2 and x.get("k") == "MCall" and cname(x) in methods and methods[cname(x)] is not f and mentions_criterion(methods[cname(x)], depth + 1):
                        return True
                return False
            crit_helpers = {n for n, f in methods.items() if mentions_criterion(f)}
            crit_blocks = []
            for bid, b in cfg.blocks.items():
                ids = list(b["el"]) + ([b["cond"]] if b.get("cond") is not None else [])
                hit = False
                for sid in ids:
                    n = fn.by_id(sid)
                    for x in walk(n) if n is not None else ():
                        if (x.get("k") == "Member" and x.get("n") in CRIT_FIELDS) or (x.get("k") == "MCall" and cname(x) in crit_helpers):
                            hit = True
                if hit:
                    crit_blocks.append(bid)
            if not crit_blocks:
                give_up("no replicated inner stopping test found (no branch of _apply_intern mentions %s)" % "/".join(CRIT_FIELDS[:2]))
                continue
            # innermost loop containing all of them
            loops = []
            for head, hb in cfg.blocks.items():
                if hb.get("term") in ("WhileStmt", "ForStmt", "DoStmt", "CXXForRangeStmt"):
                    body = natural_loop(cfg, head)
                    if all(cb in body for cb in crit_blocks):
                        loops.append((len(body), head, body))
            if not loops:
                give_up("the inner stopping tests (lines %s) do not lie in one loop" % compress(cfg.block_lines(crit_blocks)))
                continue
            _n, head, body = min(loops)
            firsts = [cb for cb in crit_blocks if all(cb in cfg.dom.get(o, ()) for o in crit_blocks)]
            if not firsts:
                give_up("no inner stopping test dominates the others (lines %s)" % compress(cfg.block_lines(crit_blocks)))
                continue
            start = firsts[0]
            stops = {head: "stay"}
            for b in body:
                for x in cfg.succ.get(b, []):
                    if x is not None and x not in body:
                        stops[x] = "stop"
            ps = Paths(fn, methods=methods, start=start, stops=stops)
            if ps.problems or not ps.paths:
                give_up("the region of the inner stopping tests (from line %s) is not a loop-free decision region: %s" % (compress(cfg.block_lines([start])[:1]), "; ".join(sorted(set(ps.problems))[:2]) or "no path"))
                continue
            if any(p["out"] not in ("stay", "stop") for p in ps.paths):
                give_up("a path through the inner stopping tests leaves the function (%s)" % sorted({str(p["out"])[:30] for p in ps.paths if p["out"] not in ("stay", "stop")}))
                continue
            # identify the pseudo-residual D and normalise the atoms
            raw = sorted(ps.atoms())
            dcands = set()
            for a in raw:
                m = re.match(r"^le\((.*)\)$", a)
                if not m or not any(cf in a for cf in CRIT_FIELDS):
                    continue
                l, r = split_top(m.group(1))
                for side, other in ((l, r), (r, l)):
                    if not any(cf in side for cf in CRIT_FIELDS) and any(cf in other for cf in CRIT_FIELDS):
                        dcands.add(side)
            if len(dcands) != 1:
                give_up("the comparisons of the inner stopping tests share no single tested quantity (%s)" % sorted(dcands))
                continue
            dterm = dcands.pop()

            def norm_atom(a):
                m = re.match(r"^(le|eq)\((.*)\)$", a)
                if not m:
                    return a
                l, r = split_top(m.group(2))
                l, r = ["$D" if x == dterm else flat_mul(x) for x in (l, r)]
                return "%s(%s,%s)" % (m.group(1), l, r)
            paths = [{"cons": [(_map_formula(f, norm_atom), pol) for f, pol in p["cons"]], "out": p["out"]} for p in ps.paths]
            code_atoms = set()
            for p in paths:
                for f, pol in p["cons"]:
                    f_atoms(f, code_atoms)
            doc = set(INNER_ATOMS.values())
            relevant, unknown, notes = set(), [], []
            for a in sorted(code_atoms):
                if a in doc:
                    relevant.add(a)
                    continue
                m = re.match(r"^le\((.*)\)$", a)
                l, r = split_top(m.group(1)) if m else ("", "")
                if m and "le(%s,%s)" % (r, l) in doc:
                    relevant.add(a)         # same operands compared the other way round (strictness / orientation)
                    notes.append("%s compares the operands of the documented %s the other way round" % (a, "le(%s,%s)" % (r, l)))
                    continue
                if m and l == "$D" and any(_without_scale(r) == _without_scale(split_top(d[3:-1])[1]) for d in doc if d.startswith("le($D,")):
                    relevant.add(a)         # a documented bound with / without the _inner_res_scale factor
                    notes.append("%s: the bound is %s by _inner_res_scale" % (a, "scaled" if INNER_S in r else "not scaled"))
                    continue
                if "$D" in a or any(x in a for x in CRIT_FIELDS + ("_min_iter", "_max_iter")):
                    unknown.append(a)
            if unknown:
                give_up("line %s: comparison(s) %s are not of the form <pseudo-residual> <= [_inner_res_scale *] tolerance / _num_iter vs _min_iter, _max_iter" % (compress(cfg.block_lines([start])[:1]), ", ".join(unknown[:3])))
                continue
            atoms = sorted(doc | relevant)
            other = sorted(code_atoms - set(atoms))
            bad = {"converged": [], "diverged": []}
            nenv = 0
            for bits in itertools.product((False, True), repeat=len(atoms)):
                env = dict(zip(atoms, bits))
                if not consistent(env):
                    continue
                nenv += 1
                div, minok, conv, mx = inner_oracle(env)
                want = "stop" if (div or (minok and (conv or mx))) else "stay"
                grp = "diverged" if (div or not minok) else "converged"
                if bad[grp]:
                    continue
                # the outcome must not depend on the atoms outside the criterion (plot flags, ...): try all of them
                for obits in itertools.product((False, True), repeat=min(len(other), 6)):
                    full = dict(env)
                    full.update({a: False for a in other})
                    full.update(zip(other, obits))
                    outs = {p["out"] for p in paths if all(f_eval(f, full) == pol for f, pol in p["cons"])}
                    if outs != {want}:
                        wit = ", ".join("%s=%s" % (a, "T" if env[a] else "F") for a in atoms)
                        word = {"stay": "continues", "stop": "stops"}
                        bad[grp].append("for {%s} the inner iteration %s, but by the documented criteria (diverged: unscaled; converged: every tolerance times _inner_res_scale, only after _min_iter iterations; _max_iter) it %s%s" % (
                            wit, "/".join(word[o] for o in sorted(outs)) or "has no path", word[want], ("; " + "; ".join(notes[:2])) if notes else ""))
                        break
            ln = compress(cfg.block_lines([start])[:1])
            for grp in ("converged", "diverged"):
                ck.ob("E13.inner-criteria", keys[grp], not bad[grp], ("line %s: " % ln) + bad[grp][0] if bad[grp] else
                      "region from line %s: inner %s test on %s equals the %s criterion with %s tolerances (%d assignments of %d atoms, %d paths)" % (
                          ln, grp, dterm, grp, "_inner_res_scale-scaled" if grp == "converged" else "unscaled", nenv, len(atoms), len(paths)), fn.file, int(ln) if ln.isdigit() else fn.line)



# -------------------------------------------------------------------------------------------------
# E7: parallel recycled lists keep equal length
# -------------------------------------------------------------------------------------------------

# groups of co-indexed std::vector<VectorType> fields confirmed by reading the classes (anti-vacuity)
EXPECTED_LIST_GROUPS = {
    "RGCR": {"p_list", "q_list"},                      # rgcr.hpp "descent vectors for later recycling": q[k] = A p[k]
    "FGMRES": {"_vec_v", "_vec_z"},                    # Krylov basis v[k+1] ~ A z[k], z[k] = M^-1 v[k]
    "IDRS": {"_vec_P", "_vec_dR", "_vec_dX"},          # shadow space / residual and iterate differences
    "BiCGStabL": {"_vec_rj_hat", "_vec_uj_hat"},       # "vector 'list' for the algorithm (size = l+1)"
}
LEN_DELTA = {"push_back": 1, "emplace_back": 1, "pop_back": -1}
LEN_NEUTRAL = ("at", "front", "back", "size", "reserve", "empty", "capacity", "begin", "end", "cbegin", "cend", "data", "shrink_to_fit")
TOP = ("?", 0)


def is_vector_list(fn, e):
    t = fn.ntype(e) or ""
    m = re.match(r"^(const )?std::vector<(.*)>( &)?$", t.strip())
    if not m:
        return False
    inner = m.group(2)
    return "Vector" in strip_targs(inner.replace("std::vector", "stdvector")) and "stdvector" not in strip_targs(inner.replace("std::vector", "stdvector"))


def list_field_of(fn, lo, e):
    """name of the std::vector<VectorType> field of *this that e denotes, else None"""
    e = lo.resolve(e)
    if e.get("k") == "Member" and e.get("field") and (e.get("b") is None or e["b"].get("k") == "This") and is_vector_list(fn, e):
        return e["n"]
    return None


def index_core(t):
    """index term with constant offsets stripped: add(1,X) -> X"""
    m = re.match(r"^(add|sub)\((.*)\)$", t)
    if m:
        a, b = split_top(m.group(2))
        if re.match(r"^-?\d+$", a):
            return index_core(b)
        if re.match(r"^-?\d+$", b):
            return index_core(a)
    return t


def discover_list_groups(members):
    """connected components of vector-list fields that are subscripted with the same index in one function"""
    edges, fields = set(), set()
    for name, fl in members.items():
        for fn in fl[:1]:
            lo = Locals(fn)
            byidx = {}
            for c in fn.calls():
                fld = None
                if c.get("k") == "MCall" and cname(c) == "at" and c.get("obj") is not None:
                    fld, idx = list_field_of(fn, lo, c["obj"]), c["a"][0]
                elif c.get("k") == "OpCall" and c.get("op") == "[]" and len(c.get("a", [])) == 2:
                    fld, idx = list_field_of(fn, lo, c["a"][0]), c["a"][1]
                if fld:
                    fields.add(fld)
                    byidx.setdefault(index_core(term(lo, idx)), set()).add(fld)
            for fs in byidx.values():
                for a in fs:
                    for b in fs:
                        if a < b:
                            edges.add((a, b))
    groups, seen = [], set()
    for f in sorted(fields):
        if f in seen:
            continue
        comp, st = set(), [f]
        while st:
            x = st.pop()
            if x in comp:
                continue
            comp.add(x)
            for a, b in edges:
                if a == x:
                    st.append(b)
                elif b == x:
                    st.append(a)
        seen |= comp
        if len(comp) > 1:
            groups.append(frozenset(comp))
    return groups


def len_str(v):
    return v[0] if v[1] == 0 else "add(%s,%d)" % (v[0], v[1])


class ListFlow:
    """forward dataflow of symbolic list lengths.  State: list -> (base term, integer offset), scalar locals
    -> evaluated term.  Lists with one common base are 'parallel' with the difference vector of their offsets;
    such a state is renamed to a program-point symbol so that loops reach a fixpoint."""

    def __init__(self, fn, group, entry, touching, rel=None, counters=(), any_vector=False):
        self.fn, self.group, self.touching, self.rel = fn, sorted(group), touching, rel
        self.counters = set(counters)          # decl ids of integer step counters, tracked under the key "c:<d>"
        self.any_vector = any_vector
        self.lo = Locals(fn)
        self.problems, self.bad_uses = [], []
        self.splits = []
        self.exits = []
        self.outs = {}
        cfg = fn.cfg
        self.loops = {} if self.counters else self.counted_loops()
        back = {(b, h) for h, lp in self.loops.items() for b in lp["body"] if b != h and h in cfg.succ.get(b, [])}
        self.ins = {cfg.entry: dict(entry)}
        work = [cfg.entry]
        n = 0
        while work and n < 5000:
            n += 1
            b = work.pop()
            out = self.transfer(b, dict(self.ins[b]), False)
            for s in cfg.succ.get(b, []):
                if (b, s) in back:
                    continue                      # a summarised counted loop: its effect is applied on the exit edge in closed form
                o2 = out
                if b in self.loops and s not in self.loops[b]["body"]:
                    o2 = self.after_loop(out, self.loops[b])
                new = self.join(self.ins.get(s), o2, s)
                if new != self.ins.get(s):
                    self.ins[s] = new
                    work.append(s)
        for b in list(self.ins):
            out = self.transfer(b, dict(self.ins[b]), True)
            self.outs[b] = out
            if b in cfg.normal_exit_preds():
                # (the head of a summarised loop that is the last statement of the function: its exit edge leads to the exit block)
                self.exits.append((b, self.after_loop(out, self.loops[b]) if b in self.loops else out))

    def field_of(self, e):
        if self.any_vector:
            e2 = self.lo.resolve(e)
            if e2.get("k") == "Member" and e2.get("field") and (e2.get("b") is None or e2["b"].get("k") == "This") and re.match(r"^(const )?std::vector<", (self.fn.ntype(e2) or "").strip()):
                return e2["n"]
            return None
        return list_field_of(self.fn, self.lo, e)

    # --- counted loops `for(i = c0; i < E; ++i) { X.push_back(..); Y.push_back(..); }` in closed form: |X| += k_X * (E - c0).
    # With that, one fused allocation loop and one loop per list leave the same symbolic lengths.
    def counted_loops(self):
        fn, cfg, lo = self.fn, self.fn.cfg, self.lo
        out = {}
        where = {}
        for bid, b in cfg.blocks.items():
            for sid in b["el"]:
                where[sid] = bid
        for head, hb in cfg.blocks.items():
            if hb.get("term") not in ("ForStmt", "WhileStmt") or hb.get("cond") is None:
                continue
            body = natural_loop(cfg, head)
            if len(body) < 2:
                continue
            # the only way out is the head's condition; the body is one straight line
            if any(x not in body for b in body if b != head for x in cfg.succ.get(b, [])):
                continue
            if any(len({x for x in cfg.succ.get(b, []) if x is not None}) != 1 for b in body if b != head):
                continue
            c = strip(fn.by_id(hb["cond"]) or {})
            if c.get("k") != "Bin" or c.get("op") not in ("<", "<=", "!="):
                continue
            iv = strip(c["lhs"])
            if iv.get("k") != "Ref" or iv.get("dk") != "local":
                continue
            d = iv["d"]
            v = lo.var.get(d)
            if v is None or v.get("ref") or v.get("init") is None or strip(v["init"]).get("k") != "Int":
                continue
            decl_b = [where.get(x["i"]) for x in fn.nodes() if x.get("k") == "Decl" and any(vv["d"] == d for vv in x.get("vars", []))]
            if not decl_b or decl_b[0] in body or decl_b[0] is None:
                continue
            steps, other_writes = 0, 0
            for x in fn.nodes():
                tgt = None
                if x.get("k") == "Un" and x.get("op") in ("++", "--"):
                    tgt = strip(x["e"])
                elif x.get("k") == "Assign":
                    tgt = strip(x["lhs"])
                if tgt is None or tgt.get("k") != "Ref" or tgt.get("d") != d:
                    continue
                st_ = x if "i" in x and where.get(x["i"]) is not None else None
                inside = st_ is not None and where.get(st_["i"]) in body
                if inside and ((x.get("k") == "Un" and x.get("op") == "++") or (x.get("k") == "Assign" and plus_one(x) == 1)):
                    steps += 1
                else:
                    other_writes += 1
            if steps != 1 or other_writes:
                continue
            bound = c["rhs"]
            if any(y.get("k") == "Ref" and y.get("dk") == "local" and lo.writes.get(y.get("d"), 0) > 0 for y in walk(bound)):
                continue
            # list operations in the body: pushes only
            k, ok = {}, True
            for b in body:
                for sid in cfg.blocks[b]["el"]:
                    x = fn.by_id(sid)
                    if x is None or not is_call(x):
                        continue
                    nm = cname(x)
                    fld = self.field_of(x["obj"]) if (x.get("k") == "MCall" and x.get("obj") is not None) else None
                    if fld in self.group:
                        if nm in ("push_back", "emplace_back"):
                            k[fld] = k.get(fld, 0) + 1
                        elif nm not in LEN_NEUTRAL and nm not in ("at", "front", "back"):
                            ok = False
                    elif x.get("k") == "MCall" and (x.get("obj") is None or x["obj"].get("k") == "This") and nm in self.touching:
                        ok = False
                    if any(y.get("k") == "MCall" and cname(y) == "size" and y.get("obj") is not None and self.field_of(y["obj"]) in self.group for y in walk(bound)) and fld in self.group and nm in LEN_DELTA:
                        ok = False
            if not ok or not k:
                continue
            out[head] = {"body": body, "k": k, "bound": bound, "c0": int(strip(v["init"])["v"]), "op": c["op"]}
        return out

    def after_loop(self, st, lp):
        st = dict(st)
        t = self.ev(lp["bound"], st)
        toff = -lp["c0"] + (1 if lp["op"] == "<=" else 0)          # trip count = bound + toff
        for fld, k in lp["k"].items():
            cur = st.get(fld, TOP)
            if cur == TOP:
                continue
            parts = [] if cur[0] == "0" else (cur[0][4:-1].split(";") if cur[0].startswith("sum(") else [cur[0]])
            parts = sorted(parts + [t] * k)
            st[fld] = (parts[0] if len(parts) == 1 else "sum(%s)" % ";".join(parts), cur[1] + k * toff)
        return st

    def erase_tail(self, n, fld):
        """X.erase(X.begin() + E, X.end()) -> E (the new length, for E <= size), else None"""
        a = n.get("a", [])
        if len(a) != 2:
            return None
        first, last = strip(a[0]), strip(a[1])
        if not (last.get("k") == "MCall" and cname(last) in ("end", "cend") and self.field_of(last.get("obj")) == fld):
            return None
        if first.get("k") in ("OpCall", "Bin") and first.get("op") == "+":
            ops = first.get("a") if first.get("k") == "OpCall" else [first.get("lhs"), first.get("rhs")]
            if len(ops) == 2:
                for x, y in ((ops[0], ops[1]), (ops[1], ops[0])):
                    x = strip(x)
                    if x.get("k") == "MCall" and cname(x) in ("begin", "cbegin") and self.field_of(x.get("obj")) == fld:
                        return y
        return None

    def counter_step(self, n, st):
        """effect of a CFG element on the tracked integer counters; returns True if it was one"""
        k = n.get("k")
        if k == "Decl":
            for v in n.get("vars", []):
                if v["d"] in self.counters:
                    ck2 = "c:%s" % v["d"]
                    init = strip(v["init"]) if v.get("init") is not None else None
                    st[ck2] = ("0", 0) if init is not None and init.get("k") == "Int" and str(init.get("v")) == "0" else TOP
            return False
        if k == "Un" and n.get("op") in ("++", "--") and strip(n["e"]).get("k") == "Ref" and strip(n["e"]).get("d") in self.counters:
            ck2 = "c:%s" % strip(n["e"])["d"]
            if st.get(ck2, TOP) != TOP:
                st[ck2] = (st[ck2][0], st[ck2][1] + (1 if n["op"] == "++" else -1))
            return True
        if k == "Assign" and strip(n["lhs"]).get("k") == "Ref" and strip(n["lhs"]).get("d") in self.counters:
            ck2 = "c:%s" % strip(n["lhs"])["d"]
            r = strip(n["rhs"])
            if n.get("op") in ("+=", "-=") and r.get("k") == "Int" and st.get(ck2, TOP) != TOP:
                st[ck2] = (st[ck2][0], st[ck2][1] + (int(r["v"]) if n["op"] == "+=" else -int(r["v"])))
            elif n.get("op") == "=" and plus_one(n) is not None and st.get(ck2, TOP) != TOP:
                st[ck2] = (st[ck2][0], st[ck2][1] + plus_one(n))
            elif n.get("op") == "=" and r.get("k") == "Int" and str(r.get("v")) == "0":
                st[ck2] = ("0", 0)
            else:
                st[ck2] = TOP
            return True
        return False

    def diffs(self, st):
        """difference vector if all lists share one base, else None"""
        vals = [st.get(g, TOP) for g in self.group]
        if any(v == TOP for v in vals) or len({v[0] for v in vals}) != 1:
            return None
        m = min(v[1] for v in vals)
        return tuple(v[1] - m for v in vals)

    def normalise(self, st, point):
        d = self.diffs(st)
        if d is not None and st[self.group[0]][0] != "0":
            for g, k in zip(self.group, d):
                st[g] = ("N@%s" % point, k)
        elif d is not None:
            m = min(st[g][1] for g in self.group)
            if m != 0:
                for g, k in zip(self.group, d):
                    st[g] = ("N@%s" % point, k)
        return st

    def join(self, old, new, blk):
        if old is None:
            return dict(new)
        if old == new:
            return old
        res = {}
        d1, d2 = self.diffs(old), self.diffs(new)
        if d1 is not None and d1 == d2:
            same = all(old.get(g, TOP) == new.get(g, TOP) for g in self.group)
            for g, k in zip(self.group, d1):
                res[g] = old.get(g, TOP) if same else ("N@B%d" % blk, k)
        else:
            for g in self.group:
                if old.get(g, TOP) != new.get(g, TOP):
                    if old.get(g, TOP) != TOP and new.get(g, TOP) != TOP:
                        self.note_split(blk)
                    res[g] = TOP
                else:
                    res[g] = old.get(g, TOP)
        for k in set(old) | set(new):
            if k in self.group:
                continue
            if k in old and k in new and old[k] == new[k]:
                res[k] = old[k]
        return res

    def note_split(self, blk):
        """the branch whose two sides left the lists with different lengths (immediate dominator of the join)"""
        cfg = self.fn.cfg
        doms = [d for d in cfg.dom.get(blk, ()) if d != blk and len(cfg.succ.get(d, [])) >= 2]
        if not doms:
            return
        idom = max(doms, key=lambda d: len(cfg.dom.get(d, ())))
        c = self.fn.by_id(cfg.blocks[idom].get("cond")) if cfg.blocks[idom].get("cond") is not None else None
        txt = render(c) if c is not None else "?"
        if txt not in self.splits:
            self.splits.append(txt)

    def split_is_single_branch(self):
        """True if every length-splitting condition occurs in exactly one branch of the function (no correlated twin)"""
        if not self.splits or "?" in self.splits:
            return False
        conds = []
        for b in self.fn.cfg.blocks.values():
            if b.get("cond") is not None and len(b.get("succ", [])) >= 2:
                c = self.fn.by_id(b["cond"])
                if c is not None:
                    conds.append(render(c))
        return all(sum(1 for x in conds if x == t or x == "(!%s)" % t or t == "(!%s)" % x) == 1 for t in self.splits)

    def ev(self, e, st):
        e = strip(e)
        k = e.get("k")
        if k == "Int":
            return str(e["v"])
        if k == "Ref" and e.get("dk") == "local":
            key = "l:%s" % e["d"]
            if key in st:
                return st[key]
            v = self.lo.var.get(e["d"])
            if v is not None and v.get("ref") and v.get("init") is not None:
                return self.ev(v["init"], st)
            return "local:%s@?" % e["n"] if self.lo.writes.get(e["d"], 0) else term(self.lo, e)
        if k == "Bin" and e["op"] in ("+", "-", "*", "/", "%"):
            a, b = self.ev(e["lhs"], st), self.ev(e["rhs"], st)
            nm = {"+": "add", "-": "sub", "*": "mul", "/": "div", "%": "mod"}[e["op"]]
            if nm in ("add", "mul"):
                a, b = sorted([a, b])
            return "%s(%s,%s)" % (nm, a, b)
        if k == "MCall" and cname(e) == "size" and e.get("obj") is not None:
            f = self.field_of(e["obj"])
            if f in self.group:
                return len_str(st[f])
        if k == "Call" and cname(e) in ("min", "max") and len(e.get("a", [])) == 2:
            return "%s(%s)" % (cname(e), ",".join(sorted(self.ev(a, st) for a in e["a"])))
        return term(self.lo, e)

    def transfer(self, b, st, record):
        fn = self.fn
        for sid in fn.cfg.blocks[b]["el"]:
            n = fn.by_id(sid)
            if n is None:
                continue
            k = n.get("k")
            if self.counters and self.counter_step(n, st):
                self.normalise(st, sid)
                continue
            if k == "Decl":
                for v in n.get("vars", []):
                    if v.get("ref") or v.get("init") is None:
                        continue
                    if any(x.get("k") == "MCall" and cname(x) == "size" for x in walk(v["init"])):
                        st["l:%s" % v["d"]] = self.ev(v["init"], st)
                continue
            if k == "Assign" and strip(n["lhs"]).get("k") == "Ref" and ("l:%s" % strip(n["lhs"]).get("d")) in st:
                st["l:%s" % strip(n["lhs"])["d"]] = self.ev(n["rhs"], st) if n.get("op") == "=" else "?"
                continue
            if k == "Assign" or (k == "OpCall" and n.get("op") == "="):
                lr = as_assign(n)
                if lr is not None and self.field_of(lr[0]) in self.group:
                    st[self.field_of(lr[0])] = TOP
                    if record:
                        self.problems.append("line %s: whole-list assignment %s" % (n.get("l"), render(n)[:50]))
                continue
            if not is_call(n):
                continue
            nm = cname(n)
            fld = self.field_of(n["obj"]) if (k == "MCall" and n.get("obj") is not None) else None
            if k == "OpCall" and n.get("op") == "[]" and n.get("a"):
                fld, nm = self.field_of(n["a"][0]), "at"
            if fld in self.group:
                if nm in LEN_DELTA:
                    if st[fld] != TOP:
                        st[fld] = (st[fld][0], st[fld][1] + LEN_DELTA[nm])
                elif nm == "clear":
                    st[fld] = ("0", 0)
                elif nm == "resize":
                    st[fld] = (self.ev(n["a"][0], st), 0)
                elif nm == "erase" and self.erase_tail(n, fld) is not None:
                    st[fld] = (self.ev(self.erase_tail(n, fld), st), 0)     # erase(begin()+E, end()) keeps the first E entries
                elif nm in ("at", "front", "back"):
                    if record and self.diffs(st) != self.rel and not any(st[g] == TOP for g in self.group):
                        self.bad_uses.append((n.get("l"), render(n)[:50], self.describe(st)))
                elif nm not in LEN_NEUTRAL:
                    st[fld] = TOP
                    if record:
                        self.problems.append("line %s: unmodelled list operation %s" % (n.get("l"), render(n)[:50]))
                self.normalise(st, sid)
                continue
            # calls of own methods that change the lists: they need parallel lists and leave them parallel
            if k == "MCall" and (n.get("obj") is None or n["obj"].get("k") == "This") and nm in self.touching and short_cls(n.get("ccls", "")) == short_cls(fn.cls):
                if record and self.diffs(st) != self.rel:
                    self.bad_uses.append((n.get("l"), render(n)[:50], self.describe(st)))
                d = self.diffs(st)
                if d is not None:
                    for g, kk in zip(self.group, d):
                        st[g] = ("N@%s" % sid, kk)
                continue
            # a list handed to some other callee
            for a in n.get("a", []):
                f2 = self.field_of(a)
                if f2 in self.group and empty_temp_swap(n):
                    st[f2] = ("0", 0)          # std::vector<T>().swap(list) empties the list
                    self.normalise(st, sid)
                    continue
                if f2 in self.group:
                    pt = fn.type(n["pt"][n["a"].index(a)]) if n.get("pt") and n["a"].index(a) < len(n["pt"]) else ""
                    if "const" not in pt:
                        st[f2] = TOP
                        if record:
                            self.problems.append("line %s: list %s passed to %s" % (n.get("l"), f2, nm))
        return st

    def name_of(self, g):
        if g.startswith("c:"):
            v = self.lo.var.get(int(g[2:]))
            return v["n"] if v else g
        return "|%s|" % g

    def describe(self, st):
        return ", ".join("%s = %s" % (self.name_of(g), "unknown" if st.get(g, TOP) == TOP else len_str(st[g])) for g in self.group)


def plus_one(n):
    """`x += c` / `x = x + c` / `x = c + x` with an integer literal c -> c, else None"""
    l, r = strip(n["lhs"]), strip(n["rhs"])
    if n.get("op") == "+=" and r.get("k") == "Int":
        return int(r["v"])
    if n.get("op") == "=" and r.get("k") == "Bin" and r.get("op") == "+":
        a, b = strip(r["lhs"]), strip(r["rhs"])
        for x, y in ((a, b), (b, a)):
            if x.get("k") == "Ref" and x.get("d") == l.get("d") and y.get("k") == "Int":
                return int(y["v"])
    return None


def natural_loop(cfg, head):
    """natural loop of the back edges into `head`: head plus every block that reaches a back-edge source without passing head"""
    tails = [p for p in cfg.pred.get(head, []) if head in cfg.dom.get(p, ())]
    body, st = {head}, list(tails)
    while st:
        b = st.pop()
        if b in body:
            continue
        body.add(b)
        st.extend(cfg.pred.get(b, []))
    return body


def rule_step_counters(ck, solvers):
    """a loop whose number of performed steps is read afterwards: every exit (condition and breaks) leaves the
    live-out step counter and the per-step containers advanced by the same number of steps"""
    ninst = 0
    for sc in sorted(SOLVERS):
        for fn in solvers.get(sc, {}).get("_apply_intern", [])[:1]:
            cfg = fn.cfg
            lo = Locals(fn)
            where = {}
            for bid, b in cfg.blocks.items():
                for sid in b["el"]:
                    where[sid] = bid
            par = parent_map(fn)
            for head, hb in sorted(cfg.blocks.items()):
                if hb.get("term") not in ("WhileStmt", "ForStmt", "DoStmt"):
                    continue
                loop = natural_loop(cfg, head)
                if len(loop) < 2:
                    continue
                after = set()
                for b in loop:
                    for x in cfg.succ.get(b, []):
                        if x not in loop:
                            after |= cfg.reachable(x)
                after -= loop
                # integer locals incremented inside, declared outside, read after the loop
                counters = set()
                for b in loop:
                    for sid in cfg.blocks[b]["el"]:
                        n = fn.by_id(sid)
                        inc = None
                        if n is not None and n.get("k") == "Un" and n.get("op") == "++" and strip(n["e"]).get("k") == "Ref" and strip(n["e"]).get("dk") == "local":
                            inc = strip(n["e"])
                        elif n is not None and n.get("k") == "Assign" and strip(n["lhs"]).get("k") == "Ref" and strip(n["lhs"]).get("dk") == "local" and plus_one(n) is not None:
                            inc = strip(n["lhs"])
                        if inc is not None:
                            d = inc["d"]
                            v = lo.var.get(d)
                            if v is None or v.get("ref") or not re.search(r"Index|int|long|size_t", fn.type(v.get("t")) or ""):
                                continue
                            decl_blocks = [where.get(x["i"]) for x in fn.nodes() if x.get("k") == "Decl" and any(vv["d"] == d for vv in x.get("vars", []))]
                            if any(db in loop for db in decl_blocks):
                                continue
                            read_after = False
                            for r in refs_of(fn, d):
                                st_ = stmt_of(fn, par, r)
                                if st_ is not None and where.get(st_["i"]) in after:
                                    read_after = True
                            if not read_after:
                                # a condition of a block after the loop may read it too
                                for b2 in after:
                                    c = fn.by_id(cfg.blocks[b2].get("cond")) if cfg.blocks[b2].get("cond") is not None else None
                                    if c is not None and any(x.get("k") == "Ref" and x.get("d") == d for x in walk(c)):
                                        read_after = True
                            if read_after:
                                counters.add(d)
                if not counters:
                    continue
                # containers that grow by one per step inside the loop
                lists = set()
                probe = ListFlow.__new__(ListFlow)
                probe.fn, probe.lo, probe.any_vector = fn, lo, True
                for b in loop:
                    for sid in cfg.blocks[b]["el"]:
                        n = fn.by_id(sid)
                        if n is not None and n.get("k") == "MCall" and cname(n) in LEN_DELTA and n.get("obj") is not None:
                            f = probe.field_of(n["obj"])
                            if f:
                                lists.add(f)
                if not lists:
                    continue
                ninst += 1
                group = sorted(lists) + ["c:%s" % d for d in sorted(counters)]
                cnames = [lo.var[d]["n"] for d in sorted(counters)]
                key = "%s::_apply_intern/loop{%s}" % (sc, ",".join(sorted(lists) + cnames))
                entry = {g: ("len(%s)" % g, 0) for g in lists}
                lf = ListFlow(fn, group, entry, set(), None, counters=counters, any_vector=True)
                for pr in lf.problems[:2]:
                    ck.incomplete("E8.step-counter-balance", "%s: %s" % (key, pr))
                # relation on entering the loop
                pre = [p for p in cfg.pred.get(head, []) if p not in loop and p in lf.outs]
                d0s = {lf.diffs(lf.outs[p]) for p in pre}
                if len(d0s) != 1 or None in d0s:
                    ck.incomplete("E8.step-counter-balance", "%s: counters and containers are not in a known relation when the loop at line %s is entered (%s)" % (
                        key, compress(cfg.block_lines([head])[:1]), "; ".join(lf.describe(lf.outs[p]) for p in pre)))
                    continue
                d0 = d0s.pop()
                bad, nexit = [], 0
                for b in sorted(loop):
                    if b not in lf.outs:
                        continue
                    for x in cfg.succ.get(b, []):
                        if x in loop or x is None:
                            continue
                        nexit += 1
                        st = lf.outs[b]
                        d = lf.diffs(st)
                        ln_b, seen_b, cur = "", set(), [b]
                        while cur and not ln_b:
                            nb = cur.pop(0)
                            if nb in seen_b:
                                continue
                            seen_b.add(nb)
                            ls = [l for l in cfg.block_lines([nb]) if l]
                            cnd = fn.by_id(cfg.blocks[nb].get("cond")) if cfg.blocks[nb].get("cond") is not None else None
                            ln_b = str(ls[-1]) if ls else (str(cnd.get("l")) if cnd is not None else "")
                            cur.extend(cfg.pred.get(nb, []))
                        how = "its condition" if b == head else "the break after line %s" % ln_b
                        if d is None and any(st.get(g, TOP) == TOP for g in group):
                            ck.incomplete("E8.step-counter-balance", "%s: at the loop exit through %s the step counts cannot be related (%s)" % (key, how, lf.describe(st)))
                        elif d != d0:
                            bad.append("leaving the loop through %s: %s — relative to loop entry the counter%s %s and the containers %s have advanced by different numbers of steps, "
                                       "so the code after the loop (which reads %s) processes fewer/more steps than were performed" % (how, lf.describe(st), "s" if len(cnames) > 1 else "", ", ".join(cnames), ", ".join(sorted(lists)), ", ".join(cnames)))
                ck.ob("E8.step-counter-balance", key, not bad, "; ".join(bad[:2]) if bad else "all %d exits of the loop at line %s leave %s in step" % (nexit, compress(cfg.block_lines([head])[:1]), ", ".join(sorted(lists) + cnames)),
                      fn.file, (fn.by_id(hb["cond"]) or {}).get("l") if hb.get("cond") is not None else fn.line)
    return ninst


def rule_parallel_lists(ck, solvers):
    found = {}
    for sc in sorted(SOLVERS):
        gs = discover_list_groups(solvers.get(sc, {}))
        if gs:
            found[sc] = gs
    for sc, want in EXPECTED_LIST_GROUPS.items():
        if frozenset(want) not in found.get(sc, []):
            ck.incomplete("E7.parallel-lists", "%s: the co-indexed vector lists %s were not found (found: %s)" % (sc, sorted(want), [sorted(g) for g in found.get(sc, [])]))
    for sc, gs in sorted(found.items()):
        members = solvers[sc]
        for group in gs:
            glist = sorted(group)
            # methods that change a list length, transitively through own-method calls
            direct = set()
            for name, fl in members.items():
                fn = fl[0]
                lo = Locals(fn)
                for c in fn.calls():
                    if c.get("k") == "MCall" and c.get("obj") is not None and list_field_of(fn, lo, c["obj"]) in group and cname(c) not in LEN_NEUTRAL:
                        direct.add(name)
            touching = set(direct)
            changed = True
            while changed:
                changed = False
                for name, fl in members.items():
                    if name in touching:
                        continue
                    for c in fl[0].calls():
                        if c.get("k") == "MCall" and (c.get("obj") is None or c["obj"].get("k") == "This") and cname(c) in touching and short_cls(c.get("ccls", "")) == sc:
                            touching.add(name)
                            changed = True
                            break
            # the relation established by init_symbolic from empty lists
            rel = tuple(0 for _ in glist)
            order = sorted(touching, key=lambda x: (x != "init_symbolic", x))
            for name in order:
                fl = members[name]
                key = "%s::%s/{%s}" % (sc, name, ",".join(glist))
                bad, notes = [], []
                for fn in fl:
                    if fn.d.get("ctor") or fn.d.get("dtor"):
                        continue
                    tag = short_inst(fn)
                    if name == "init_symbolic":
                        entry = {g: ("0", 0) for g in glist}
                    else:
                        entry = {g: ("N", k) for g, k in zip(glist, rel)}
                    lf = ListFlow(fn, group, entry, touching - {name}, rel if name != "init_symbolic" else None)
                    for pr in lf.problems[:3]:
                        ck.incomplete("E7.parallel-lists", "%s [%s]: %s" % (key, tag, pr))
                    for b, st in lf.exits:
                        d = lf.diffs(st)
                        cleared = all(st[g] == ("0", 0) for g in glist)
                        if name == "init_symbolic":
                            if d is None and any(st[g] == TOP for g in glist):
                                ck.incomplete("E7.parallel-lists", "%s [%s]: list lengths after init_symbolic depend on loop trip counts the length dataflow does not relate (%s)" % (key, tag, lf.describe(st)))
                            elif d is None and lf.loops and len({x for g in glist for x in (st[g][0][4:-1].split(";") if st[g][0].startswith("sum(") else [st[g][0]]) if x != "0"}) > 1:
                                # (one and the same bound expression, used a different number of times per list, is a definite mismatch)
                                ck.incomplete("E7.parallel-lists", "%s [%s]: the lists are filled by counted loops whose bounds this rule cannot relate (%s)" % (key, tag, lf.describe(st)))
                            elif d is None:
                                bad.append("[%s] at the exit through line %s the lists are not sized from one common length: %s" % (tag, compress(fn.cfg.block_lines([b])[-1:]), lf.describe(st)))
                            else:
                                rel = d
                                notes.append("establishes %s" % ", ".join("|%s| = n%s" % (g, "+%d" % k if k else "") for g, k in zip(glist, d)))
                        elif not cleared and d != rel and any(st[g] == TOP for g in glist) and lf.split_is_single_branch():
                            bad.append("[%s] the list lengths depend on the branch `%s` (one side changes the length of only some of the lists): at the exit through line %s %s" % (
                                tag, "; ".join(lf.splits)[:80], compress(fn.cfg.block_lines([b])[-1:]), lf.describe(st)))
                        elif not cleared and d != rel and any(st[g] == TOP for g in glist):
                            ck.incomplete("E7.parallel-lists", "%s [%s]: the length of a list depends on the path in a way the length dataflow cannot relate (%s)" % (key, tag, lf.describe(st)))
                        elif not cleared and d != rel:
                            bad.append("[%s] at the exit through line %s the parallel lists have different lengths: %s (on entry: %s). Entries k of the lists belong together (co-indexed): after this the next solve pairs entries of different generations" % (
                                tag, compress(fn.cfg.block_lines([b])[-1:]), lf.describe(st), ", ".join("|%s| = N%s" % (g, "+%d" % k if k else "") for g, k in zip(glist, rel))))
                        else:
                            notes.append("exit: %s" % ("all cleared" if cleared else lf.describe(st)))
                    if name != "init_symbolic":
                        for ln, what, desc in lf.bad_uses[:2]:
                            bad.append("[%s] line %s: %s is used while the lists are out of step: %s" % (tag, ln, what, desc))
                    if not lf.exits:
                        ck.incomplete("E7.parallel-lists", "%s [%s]: no normal exit reached" % (key, tag))
                f0 = fl[0]
                ck.ob("E7.parallel-lists", key, not bad, "; ".join(bad[:2]) if bad else "; ".join(sorted(set(notes))[:3]), f0.file, f0.line)



# -------------------------------------------------------------------------------------------------
# E8: derived state is fresh (numeric re-initialisation, solution/defect in step, validity flags)
# -------------------------------------------------------------------------------------------------

def base_key(k):
    j = k.find("[")
    return k[:j] if j >= 0 else k


def matrix_derived_members(fn, methods=None, depth=0):
    """taint analysis of one function: fields of *this whose new value is computed from _system_matrix
    (directly or through locals / other derived fields) -> {field key: [writing nodes]}.
    methods ({name: Function}): own-class helpers are followed (depth <= 2): a helper that reads the matrix returns a
    matrix-derived value, and the fields it derives count as written by the call statement"""
    lo = Locals(fn)
    taint = {"this._system_matrix"}
    writes = {}
    tainted_calls = set()
    for n in fn.nodes() if (methods and depth < 2) else ():
        if n.get("k") == "MCall" and (n.get("obj") is None or n["obj"].get("k") == "This") and cname(n) in methods and methods[cname(n)] is not fn:
            h = methods[cname(n)]
            hd, _hlo = matrix_derived_members(h, methods, depth + 1)
            reads = bool(hd) or any(x.get("k") == "Member" and x.get("n") == "_system_matrix" for x in walk(h.body))
            if reads:
                tainted_calls.add(n["i"])
                for fld in hd:
                    taint.add(fld)
                    writes.setdefault(fld, []).append(n)

    def tainted(e):
        for x in walk(e):
            if x.get("i") in tainted_calls and x.get("i") is not None:
                return True
            if x.get("k") in ("Ref", "Member"):
                if base_key(objkey(lo, x)) in taint:
                    return True
                if x.get("k") == "Ref" and x.get("dk") == "local" and ("local:%s" % x.get("n")) in taint:
                    return True
        return False

    def mark(key, node):
        key = base_key(key)
        if key.startswith("?") or key == "this._system_matrix" or key == "this":
            return False
        new = key not in taint
        taint.add(key)
        if node not in writes.setdefault(key, []):
            writes[key].append(node)
        return new
    changed = True
    rounds = 0
    while changed and rounds < 20:
        changed = False
        rounds += 1
        for n in fn.nodes():
            k = n.get("k")
            lr = as_assign(n) if k in ("Assign", "OpCall") else None
            if k == "Assign" and lr is None:
                lr = (n["lhs"], n["rhs"])           # compound assignment
            if lr is not None:
                if tainted(lr[1]):
                    changed |= mark(objkey(lo, lr[0]), n)
                continue
            if k == "Var" and n.get("init") is not None and not n.get("ref"):
                if tainted(n["init"]):
                    changed |= mark("local:%s" % n["n"], n)
                continue
            if k != "MCall":
                continue
            obj = n.get("obj")
            ko = base_key(objkey(lo, obj)) if obj is not None and obj.get("k") != "This" else None
            if cname(n) in ("at", "front", "back", "size", "empty"):
                continue
            src = any(tainted(a) for a in n.get("a", [])) or (ko in taint)
            if not src:
                continue
            if ko is not None and not n.get("cconst") and ko != "this._system_matrix":
                changed |= mark(ko, n)
            for i2, a in enumerate(n.get("a", [])):
                pt = fn.type(n["pt"][i2]) if i2 < len(n.get("pt", [])) else ""
                if ("&" in pt or "*" in pt) and "const" not in pt and strip(a).get("k") in ("Ref", "Member", "MCall"):
                    changed |= mark(objkey(lo, a), n)
    return {k: v for k, v in writes.items() if k.startswith("this.")}, lo


def rule_numeric_refresh(ck, solvers):
    """members computed from the matrix values in init_numeric are recomputed on every init_numeric"""
    for sc in sorted(SOLVERS):
        for fn in solvers.get(sc, {}).get("init_numeric", [])[:1]:
            methods = {}
            for mname, mfl in solvers.get(sc, {}).items():
                cand = [f for f in mfl if f.cls == fn.cls and f.cfg is not None and not f.d.get("ctor")]
                if cand and mname not in ("init_numeric", "done_numeric", "init_symbolic", "done_symbolic", "apply", "correct", "_apply_intern"):
                    methods[mname] = cand[0]
            derived, lo = matrix_derived_members(fn, methods)
            par = parent_map(fn)
            gd = Guards(fn)
            done = [f for f in solvers.get(sc, {}).get("done_numeric", []) if f.cls == fn.cls]
            for fld in sorted(derived):
                key = "%s::init_numeric/%s" % (sc, fld[5:])
                stmts = [stmt_of(fn, par, w) or w for w in derived[fld]]
                stmts = [x for x in stmts if x is not None and "i" in x and fn.cfg.block_of(x["i"]) is not None]
                if not stmts:
                    ck.incomplete("E8.numeric-refresh", "%s: the statements computing it are not CFG elements" % key)
                    continue
                if any(fn.cfg.must_pass(lambda q, _i=x["i"]: q.get("i") == _i)[0] for x in stmts):
                    ck.ob("E8.numeric-refresh", key, True, "recomputed from the system matrix on every path through init_numeric (line %s)" % stmts[0].get("l"), fn.file, stmts[0].get("l"))
                    continue
                state_guards, cfg_guards = [], []
                for x in stmts:
                    for c, pol in gd.of_stmt(x["i"]):
                        names = {base_key(objkey(lo, y)) for y in walk(c) if y.get("k") in ("Ref", "Member")}
                        (state_guards if names & set(derived) else cfg_guards).append(("" if pol else "!") + render(c)[:50])
                if not state_guards:
                    ck.ob("E8.numeric-refresh", key, True, "recomputed whenever %s (a test of configuration / loop control, not of derived state)" % ", ".join(sorted(set(cfg_guards))[:3]), fn.file, stmts[0].get("l"))
                    continue
                # recomputation depends on the (possibly stale) derived state itself: then done_numeric must release it
                released = False
                for dfn in done:
                    dlo = Locals(dfn)
                    for c in dfn.calls():
                        if c.get("k") == "MCall" and cname(c) in ("clear",) and c.get("obj") is not None and base_key(objkey(dlo, c["obj"])) == fld \
                                and dfn.cfg.must_pass(lambda q, _i=c["i"]: q.get("i") == _i)[0]:
                            released = True
                ck.ob("E8.numeric-refresh", key, released,
                      ("recomputation is skipped depending on %s, and done_numeric() releases %s: every init_numeric after done_numeric recomputes it" % (", ".join(sorted(set(state_guards))[:2]), fld[5:])) if released else
                      ("the value computed from the system matrix is only (re)computed under %s, a test of the derived member's own state, and done_numeric() does not release it: after done_numeric(); <matrix values changed>; init_numeric() "
                       "the solver keeps the data of the old matrix" % ", ".join(sorted(set(state_guards))[:2])), fn.file, stmts[0].get("l"))


def empty_temp_swap(n):
    """`std::vector<T>().swap(X)`: the receiver is a default-constructed temporary"""
    if n.get("k") != "MCall" or cname(n) != "swap" or n.get("obj") is None or len(n.get("a", [])) != 1:
        return False
    o = strip(n["obj"])
    return o.get("k") in ("Construct", "TempObj") and not o.get("a")


def rule_recycled_state(ck, solvers):
    """containers that a solver fills with matrix-derived vectors while iterating and keeps for the next solve (recycling)
    are numeric state: they must not survive done_numeric()/init_numeric()"""
    n_inst = 0
    for sc in sorted(SOLVERS):
        members = solvers.get(sc, {})
        fns = members.get("_apply_intern", [])
        if not fns:
            continue
        fn = fns[0]
        methods = {}
        for mname, mfl in members.items():
            cand = [f for f in mfl if f.cls == fn.cls and f.cfg is not None and not f.d.get("ctor")]
            if cand:
                methods[mname] = cand[0]
        helpers = {m: f for m, f in methods.items() if m not in ("init_numeric", "done_numeric", "init_symbolic", "done_symbolic", "apply", "correct", "_apply_intern")}
        solve_fns = [methods[m] for m in ("apply", "correct", "_apply_intern") if m in methods]
        solve_fns += [h for m, h in helpers.items() if any(cname(c) == m for f in solve_fns for c in f.calls())]
        kept = {}          # field -> (function, push node)
        for f in solve_fns:
            derived, lo = matrix_derived_members(f, helpers)
            for fld, nodes in derived.items():
                for n in nodes:
                    if not (n.get("k") == "MCall" and cname(n) in ("push_back", "emplace_back") and n.get("obj") is not None and base_key(objkey(lo, n["obj"])) == fld):
                        continue
                    if not re.match(r"^(const )?std::vector<", (f.ntype(lo.resolve(n["obj"])) or "").strip()):
                        continue
                    # cleared at the start of every solve / before the push in this function: a work array, not recycled state
                    cleared = False
                    for g in solve_fns:
                        glo = Locals(g)
                        for c in g.calls():
                            if c.get("k") == "MCall" and cname(c) == "clear" and c.get("obj") is not None and base_key(objkey(glo, c["obj"])) == fld:
                                if g is f and f.cfg.stmt_dominates(c["i"], n["i"]):
                                    cleared = True
                                elif g is not f and g.name in ("apply", "correct"):
                                    cleared = True
                    if not cleared:
                        kept.setdefault(fld, (f, n))
        if not kept:
            continue
        n_inst += 1
        flds = sorted(kept)
        key = "%s::recycled-state/{%s}" % (sc, ",".join(x[5:] for x in flds))
        releasers = []
        missing = list(flds)
        unclear = []

        def released_in(g, fld, depth=0):
            """does function g empty the list on every path (directly or through an own helper it always calls)? True / False / None (touches it in a way not modelled)"""
            glo = Locals(g)
            res = False
            for n in g.nodes():
                hit = None
                if n.get("k") == "MCall" and n.get("obj") is not None and base_key(objkey(glo, n["obj"])) == fld:
                    if cname(n) == "clear" or (cname(n) == "resize" and n.get("a") and term(glo, n["a"][0]) == "0"):
                        hit = n
                    elif cname(n) == "swap" or (not n.get("cconst") and cname(n) not in LEN_NEUTRAL and cname(n) not in ("at", "front", "back")):
                        res = None if res is False else res
                elif is_call(n) and any(isinstance(a, dict) and strip(a).get("k") in ("Member", "Ref") and base_key(objkey(glo, a)) == fld for a in n.get("a", [])) \
                        and not (n.get("k") == "MCall" and (n.get("obj") is None or n["obj"].get("k") == "This")):
                    if empty_temp_swap(n):
                        hit = n          # std::vector<T>().swap(list): the list is empty afterwards
                    else:
                        ai = [i2 for i2, a in enumerate(n.get("a", [])) if isinstance(a, dict) and strip(a).get("k") in ("Member", "Ref") and base_key(objkey(glo, a)) == fld][0]
                        pt = g.type(n["pt"][ai]) if ai < len(n.get("pt", [])) else "&"
                        if ("&" in pt or "*" in pt) and "const" not in pt:
                            res = None if res is False else res
                elif as_assign(n) is not None and base_key(objkey(glo, as_assign(n)[0])) == fld:
                    r = through_moves(glo, as_assign(n)[1])
                    if r.get("k") in ("Construct", "TempObj", "InitList") and not r.get("a") and not r.get("s"):
                        hit = n
                    else:
                        res = None if res is False else res
                elif n.get("k") == "MCall" and (n.get("obj") is None or n["obj"].get("k") == "This") and cname(n) in helpers and helpers[cname(n)] is not g and depth < 2:
                    sub = released_in(helpers[cname(n)], fld, depth + 1)
                    if sub is True:
                        hit = n
                    elif sub is None:
                        res = None if res is False else res
                if hit is not None:
                    st_ = stmt_of(g, parent_map(g), hit) or hit
                    if "i" in st_ and g.cfg.must_pass(lambda q, _i=st_["i"]: q.get("i") == _i)[0]:
                        res = True
                    elif res is False:
                        res = None
            return res
        for mname in ("done_numeric", "init_numeric"):
            g = methods.get(mname)
            if g is None:
                continue
            ok_here = []
            for fld in flds:
                r = released_in(g, fld)
                if r is True:
                    ok_here.append(fld)
                elif r is None:
                    unclear.append("%s in %s()" % (fld[5:], mname))
            if ok_here:
                releasers.append("%s() clears %s" % (mname, ", ".join(x[5:] for x in ok_here)))
            missing = [x for x in missing if x not in ok_here]
        if missing and unclear:
            ck.incomplete("E8.recycled-state", "%s: %s is modified conditionally / by an operation this rule does not model (%s): cannot decide whether the recycled state is released" % (key, ", ".join(x[5:] for x in missing), "; ".join(unclear[:3])))
            continue
        f0, n0 = kept[flds[0]]
        ck.ob("E8.recycled-state", key, not missing,
              ("%s keeps %s across solves (line %s `%s` appends vectors computed with the system matrix, nothing clears the list at the start of a solve) and neither done_numeric() nor init_numeric() "
               "of %s releases %s: after done_numeric(); <matrix values changed>; init_numeric() the next solve recycles directions q = A_old p of the old matrix, the recursively updated defect no longer belongs "
               "to the iterate ('success' with a large true residual)" % (sc, ", ".join(x[5:] for x in flds), n0.get("l"), render(n0)[:50], sc, ", ".join(x[5:] for x in missing))) if missing
              else "; ".join(releasers), f0.file, n0.get("l"))
    return n_inst


BALANCE_SCOPE = ("PCG", "PCR", "PMR", "PCGNR", "PCGNRILU", "BiCGStab", "RBiCGStab", "GroppPCG", "PipePCG", "RGCR", "Richardson", "Chebyshev", "FGMRES", "GMRES")
# IDRS (updates through pre-scaled difference vectors dX/dR, coefficient hidden in the vectors) and BiCGStabL
# (residual family r_j with polynomial coefficients) do not update x and r with one explicit scalar per step.


def signed_coef(lo, e):
    t = term(lo, e) if e is not None else "1"
    m = re.match(r"^neg\((.*)\)$", t)
    if m:
        return m.group(1), -1
    if re.match(r"^-\d", t):
        return t[1:], -1
    return t, 1


class BalanceFlow:
    """forward dataflow: multiset of signed step lengths applied to the iterate (x += c w) and to the defect
    vector (r += -c A w).  r = b - A x needs every step length to cancel; a fresh r := b - A x resets."""

    def __init__(self, fn, sol_key, def_key, methods=None, entry=(), depth=0, first_pass=False):
        """first_pass: back edges are not followed - the states are those of the first trip through every loop (a real path), which
        stays decidable when an imbalance that grows from trip to trip makes the fixpoint state at the loop head unknown"""
        self.fn, self.sol, self.dfk = fn, sol_key, def_key
        self.methods, self.depth = methods or {}, depth
        self.lo = Locals(fn)
        self.at_return = {}
        self.unknown_ops = []
        cfg = fn.cfg
        self.ins = {cfg.entry: entry}
        work = [cfg.entry]
        n = 0
        while work and n < 5000:
            n += 1
            b = work.pop()
            out = self.transfer(b, self.ins[b], False)
            for s2 in cfg.succ.get(b, []):
                if first_pass and s2 is not None and s2 in cfg.dom.get(b, ()):
                    continue
                old = self.ins.get(s2, "none")
                new = out if old == "none" else (old if old == out else None)
                if old == "none" or new != old:
                    self.ins[s2] = new
                    work.append(s2)
        for b in list(self.ins):
            self.transfer(b, self.ins[b], True)

    @staticmethod
    def add(st, c, s):
        if st is None:
            return None
        d = dict(st)
        d[c] = d.get(c, 0) + s
        return tuple(sorted((k, v) for k, v in d.items() if v != 0))

    def transfer(self, b, st, record):
        fn, lo = self.fn, self.lo
        for sid in fn.cfg.blocks[b]["el"]:
            n = fn.by_id(sid)
            if n is None:
                continue
            if n.get("k") == "Return" and record:
                self.at_return[sid] = st
                continue
            if n.get("k") != "MCall":
                continue
            nm = cname(n)
            obj = n.get("obj")
            ko = objkey(lo, obj) if obj is not None and obj.get("k") != "This" else None
            roles = dict(zip(n.get("pn", []), n.get("a", [])))
            if ko is not None and ko.startswith("?") and not n.get("cconst") and "Vector" in strip_targs(fn.ntype(obj) or "") and "std::vector" not in (fn.ntype(obj) or ""):
                # a vector selected by an expression this rule does not resolve (?:, call result) is modified: it may be the iterate / the defect
                st = None
                if record:
                    self.unknown_ops.append("line %s: %s" % (n.get("l"), render(n)[:50]))
                continue
            if ko in (self.sol, self.dfk):
                if nm == "axpy":
                    c, sg = signed_coef(lo, roles.get("alpha"))
                    st = self.add(st, c, sg)
                elif not n.get("cconst") and nm not in ("at", "front", "back"):
                    st = None
                    if record:
                        self.unknown_ops.append("line %s: %s" % (n.get("l"), render(n)[:50]))
                continue
            if nm == "apply" and ko is not None and ko.startswith("this._system_matrix") and "r" in roles and objkey(lo, roles["r"]) == self.dfk:
                if "y" in roles and objkey(lo, roles["x"]) == self.sol and is_minus_one(lo, roles["alpha"]):
                    st = ()          # r := y - A x, freshly computed from the iterate
                else:
                    st = None
                    if record:
                        self.unknown_ops.append("line %s: %s" % (n.get("l"), render(n)[:50]))
                continue
            if (obj is None or obj.get("k") == "This") and nm in self.methods and self.depth < 2:
                # a private helper: follow it with the keys translated to its parameters
                callee = self.methods[nm]
                tr = {}
                for i2, a in enumerate(n.get("a", [])):
                    if strip(a).get("k") in ("Ref", "Member", "MCall"):
                        tr[objkey(lo, a)] = "$%d" % i2
                sub = BalanceFlow(callee, tr.get(self.sol, self.sol if self.sol.startswith("this.") else "$none"),
                                  tr.get(self.dfk, self.dfk if self.dfk.startswith("this.") else "$none"), self.methods, st, self.depth + 1)
                outs = list(sub.at_return.values())
                if record:
                    self.unknown_ops.extend(sub.unknown_ops)
                if not outs:
                    # void helper without explicit return: the state at its normal exits
                    outs = [sub.transfer(b2, sub.ins[b2], False) for b2 in callee.cfg.normal_exit_preds() if b2 in sub.ins]
                # step lengths named after scalar parameters of the helper are the caller's arguments
                binds = {}
                for prm, a in zip(callee.params, n.get("a", [])):
                    if "Vector" not in strip_targs(callee.type(prm["t"]) or ""):
                        binds["$" + prm["n"]] = signed_coef(lo, a)

                def rebound(state):
                    if state is None:
                        return None
                    d = {}
                    for c, v in state:
                        sg = 1
                        for pnm, (tc, ts) in binds.items():
                            if c == pnm:
                                c, sg = tc, ts
                                break
                            if re.search(r"(?<![\w$])%s(?!\w)" % re.escape(pnm), c):
                                c = re.sub(r"(?<![\w$])%s(?!\w)" % re.escape(pnm), tc if ts > 0 else "neg(%s)" % tc, c)
                        d[c] = d.get(c, 0) + v * sg
                    return tuple(sorted((k2, v2) for k2, v2 in d.items() if v2 != 0))
                outs = [rebound(o) for o in outs]
                st = outs[0] if outs and all(o == outs[0] for o in outs) else None
                continue
            for i2, a in enumerate(n.get("a", [])):
                if strip(a).get("k") not in ("Ref", "Member", "MCall"):
                    continue
                ka = objkey(lo, a)
                if ka in (self.sol, self.dfk):
                    pt = fn.type(n["pt"][i2]) if i2 < len(n.get("pt", [])) else ""
                    if ("&" in pt or "*" in pt) and "const" not in pt and nm not in ("filter_def", "filter_cor", "filter_sol", "filter_rhs"):
                        st = None
                        if record:
                            self.unknown_ops.append("line %s: %s" % (n.get("l"), render(n)[:50]))
        return st


def rule_solution_defect_balance(ck, solvers, cv=None):
    for sc in BALANCE_SCOPE:
        fns = solvers.get(sc, {}).get("_apply_intern", [])
        if not fns:
            ck.incomplete("E8.solution-defect-balance", "anchor %s::_apply_intern not instantiated" % sc)
            continue
        bad, notes = [], []
        for fn in fns:
            tag = short_inst(fn)
            lo = Locals(fn)
            cands, _s, _f = status_helpers(solvers.get(sc, {}), fn.cls, cv or {})
            dk = find_defect_obj(fn, lo, cands)
            if dk is None or dk.startswith("?"):
                ck.incomplete("E8.solution-defect-balance", "%s::_apply_intern [%s]: defect vector not identified" % (sc, tag))
                continue
            api = set(UPD) | {"_apply_precond", "_apply_precond_l", "_apply_precond_r", "_precond_l", "_precond_r", "apply", "correct", "_apply_intern"}
            methods = {}
            for mname, mfl in solvers.get(sc, {}).items():
                cand = [f for f in mfl if f.cls == fn.cls and f.cfg is not None and not f.d.get("ctor")]
                if cand and mname not in api:
                    methods[mname] = cand[0]
            bf = BalanceFlow(fn, "$0", dk, methods)
            bf1 = None
            sflow = StatusFlow(fn, cv or {}, _s) if cv else None
            nret = 0
            for rid, st in sorted(bf.at_return.items()):
                rn = fn.by_id(rid)
                vals = sflow.returns.get(rid) if sflow is not None else None
                if status_lit(rn.get("e")) == "aborted" or (vals and {v[0] for v in vals} == {"aborted"}):
                    continue            # the iterate of an aborted run is not claimed to be a solution
                nret += 1
                if st is None and not bf.unknown_ops:
                    # path-dependent at the fixpoint: decide the first trip through the loops (a feasible path)
                    if bf1 is None:
                        bf1 = BalanceFlow(fn, "$0", dk, methods, first_pass=True)
                    st = bf1.at_return.get(rid) or None           # balanced on the first trip but unknown later: stays undecided
                if st is None:
                    ck.incomplete("E8.solution-defect-balance", "%s::_apply_intern [%s]: at the return at line %s the updates of iterate and defect cannot be related (%s)" % (
                        sc, tag, rn.get("l"), "; ".join(bf.unknown_ops[:2]) or "path-dependent"))
                elif st:
                    pend = ", ".join("%s%s" % ("+" if v > 0 else "-", c) + ("" if abs(v) == 1 else "*%d" % abs(v)) for c, v in st)
                    bad.append("[%s] at `%s` (line %s) iterate and defect vector are out of step: the step lengths {%s} were applied to only one of %s += c*w and %s -= c*A*w. "
                               "The status decided on the defect norm is returned with an iterate whose true residual is a different vector" % (tag, render(rn)[:40], rn.get("l"), pend, fn.params[0]["n"], dk))
            notes.append("[%s] %d returns with balanced updates" % (tag, nret))
        ck.ob("E8.solution-defect-balance", "%s::_apply_intern" % sc, not bad, "; ".join(bad[:2]) if bad else "; ".join(notes[:2]), fns[0].file, fns[0].line)


def iterate_verdicts(fn, key, methods, depth=0):
    """classify every use of the iterate object `key` in fn (following own helpers):
    -> (n additive updates, [violations], [undecidable])"""
    lo = Locals(fn)
    n_upd, bad, unk = 0, [], []
    for k, c in object_uses(fn, lo, key):
        if k == "recv-mut" and cname(c) == "axpy":
            n_upd += 1
        elif k == "recv-mut" and cname(c) in ("copy", "scale") and c.get("a"):
            src = objkey(lo, c["a"][0])
            if src == key:
                unk.append("line %s: the iterate is rescaled in place (%s)" % (c.get("l"), render(c)[:50]))
                continue
            # where does the source come from: an operator applied to the whole iterate?
            op = None
            for d in fn.calls():
                roles = dict(zip(d.get("pn", []), d.get("a", [])))
                if cname(d).startswith("_apply_precond") and len(d.get("a", [])) >= 2 and objkey(lo, d["a"][0]) == src and objkey(lo, d["a"][1]) == key and fn.cfg.stmt_dominates(d["i"], c["i"]):
                    op = "the preconditioner M"
                elif cname(d) == "apply" and "r" in roles and objkey(lo, roles["r"]) == src and objkey(lo, roles.get("x", {})) == key and fn.cfg.stmt_dominates(d["i"], c["i"]):
                    op = "the matrix"
            if op:
                bad.append("%s line %s: `%s` overwrites the iterate with %s applied to the whole iterate: started through correct() with x0 != 0 the result is T(x0 + y) instead of x0 + T(y) "
                           "(the start vector is transformed, the reported defect no longer belongs to the returned vector)" % (fn.name, c.get("l"), render(c)[:50], op))
            else:
                unk.append("line %s: the iterate is overwritten by %s, whose relation to the iterate is not modelled" % (c.get("l"), src))
        elif k == "recv-mut":
            unk.append("line %s: non-additive operation on the iterate: %s" % (c.get("l"), render(c)[:50]))
        elif k == "arg-mut" and cname(c) not in ("filter_sol", "filter_cor"):
            callee = methods.get(cname(c)) if (c.get("obj") is None or c["obj"].get("k") == "This") else None
            if callee is not None and depth < 2:
                idx = [i for i, a in enumerate(c.get("a", [])) if strip(a).get("k") in ("Ref", "Member", "MCall") and objkey(lo, a) == key]
                for i in idx:
                    n2, b2, u2 = iterate_verdicts(callee, "$%d" % i, methods, depth + 1)
                    n_upd += n2
                    bad += b2
                    unk += u2
            else:
                unk.append("line %s: the iterate is handed to %s in a mutable position" % (c.get("l"), cname(c)))
    return n_upd, bad, unk


# -------------------------------------------------------------------------------------------------
# E8: work vectors are defined before they are read (first pass through the iteration)
# -------------------------------------------------------------------------------------------------

def alloc_only(lo, e):
    """an expression that yields a vector with undefined contents: create_vector_*() or clone(CloneMode::Layout)"""
    e = through_moves(lo, e)
    if is_call(e) and cname(e).startswith("create_vector"):
        return True
    if e.get("k") == "MCall" and cname(e) == "clone":
        return any(x.get("k") == "Ref" and x.get("dk") == "enum" and x.get("n") in ("Layout", "Allocate") for a in e.get("a", []) for x in walk(a))
    return False


def is_vector_expr(fn, lo, e):
    """does the expression denote a LAFEM / Global vector object (not a scalar whose typedef merely mentions a vector type in its
    template arguments, not a std::vector, matrix, filter or smart pointer)?"""
    e2 = lo.resolve(e) if isinstance(e, dict) else {}
    t = (fn.ntype(e2) or (fn.ntype(e) if isinstance(e, dict) else "") or "").strip()
    top = strip_targs(t)
    if re.match(r"^(const )?std::vector\b", t) or "Matrix" in top or "Filter" in top or "shared_ptr" in top:
        return False
    if "Vector" in top:
        return True
    if "Vector" in t and ("value_type" in top or "reference" in top):
        return True          # an element of a std::vector<VectorType> (at(), front(), operator[], *iterator)
    return False


def range_vars(fn):
    """{decl id of a range-for variable: the range expression} - `for(auto& v : _vec_u)`: v denotes every element of _vec_u in turn"""
    out = {}
    for n in fn.nodes():
        if n.get("k") == "ForRange" and isinstance(n.get("var"), dict) and n.get("range") is not None:
            out[n["var"].get("d")] = n["range"]
    return out


def algorithm_over(fn, lo, n):
    """a call of a free function (std::for_each, std::transform, ...) that receives X.begin() / X.end() of a container: -> (the
    container expression X, the Function of a lambda argument or None), else None"""
    if n.get("k") != "Call":
        return None
    cont, lam = None, None
    for a in n.get("a", []):
        a2 = lo.resolve(a) if isinstance(a, dict) else {}
        if a2.get("k") == "MCall" and cname(a2) in ("begin", "end", "cbegin", "cend", "rbegin", "rend") and a2.get("obj") is not None:
            cont = a2["obj"]
        elif a2.get("k") == "Lambda":
            lam = a2
    if cont is None:
        return None
    return cont, lam


class DefinedFlow:
    """must-analysis 'this work vector received a value in this solve' on the first pass through a function: back edges are
    removed and every loop is taken to run its body once (the check's standing assumption for the counted inner loops), the
    iteration counter _num_iter is propagated as a constant (0 after _set_initial_defect, +1 per defect update) so that
    first-iteration branches `if(_num_iter == 1)` are decided.  State: set of defined objects (fields at container granularity:
    a value stored into one element defines the container - optimistic, no false alarm from index arithmetic).  A read of a
    vector field of *this that is not defined is recorded.  Own helpers are followed (depth <= 2)."""

    def __init__(self, fn, entry, methods, exempt, depth=0, shared=None, niter=None):
        self.fn, self.methods, self.exempt, self.depth = fn, methods, exempt, depth
        self.lo = Locals(fn)
        self.shared = shared if shared is not None else {"reads": [], "entries": []}
        self.fg = FlagGraph(fn)          # bool flags (`first_pass`) are propagated as constants like _num_iter
        self.rvars = range_vars(fn)
        cfg = fn.cfg
        back = {(b, h) for b in cfg.blocks for h in cfg.succ.get(b, []) if h is not None and h in cfg.dom.get(b, ())}
        heads = {h for b, h in back}
        succ = {b: [x for x in cfg.succ.get(b, []) if x is not None and (b, x) not in back] for b in cfg.blocks}
        for h in heads:
            body = natural_loop(cfg, h)
            outs = [x for x in succ[h] if x not in body]
            if outs and cfg.blocks[h].get("term") in ("WhileStmt", "ForStmt", "CXXForRangeStmt"):
                succ[h] = [x for x in succ[h] if x in body]          # the body runs once ...
                for b, h2 in back:
                    if h2 == h:
                        succ[b] = succ[b] + outs                       # ... and then the loop is left
        self.succ = succ
        npred = {b: 0 for b in cfg.blocks}
        reach, stack = set(), [cfg.entry]
        while stack:
            b = stack.pop()
            if b in reach:
                continue
            reach.add(b)
            stack.extend(succ[b])
        for b in reach:
            for x in succ[b]:
                npred[x] += 1
        self.ins = {cfg.entry: (frozenset(entry), niter, frozenset())}
        self.exit_state = None
        pending = dict(npred)
        order = [cfg.entry]
        while order:
            b = order.pop()
            st, ni, fv = self.ins[b]
            st, ni = self.transfer(b, set(st), ni)
            fv = self.fg.after_block(b, fv)
            if b in cfg.normal_exit_preds():
                self.exit_state = (frozenset(st), ni) if self.exit_state is None else (self.exit_state[0] & frozenset(st), ni if self.exit_state[1] == ni else None)
            blk = cfg.blocks[b]
            for x in succ[b]:
                allowed = True
                if blk.get("cond") is not None and len(cfg.succ.get(b, [])) == 2 and x in cfg.succ[b]:
                    t = self.counter_truth(fn.by_id(blk["cond"]), ni)
                    if t is None and self.fg.flags:
                        t = self.fg.truth(fn.by_id(blk["cond"]), dict(fv))
                    if t is not None and cfg.succ[b][0] != cfg.succ[b][1]:
                        allowed = (cfg.succ[b].index(x) == 0) == t
                if allowed:
                    if x in self.ins:
                        o = self.ins[x]
                        self.ins[x] = (o[0] & frozenset(st), o[1] if o[1] == ni else None, o[2] & fv)
                    else:
                        self.ins[x] = (frozenset(st), ni, fv)
                pending[x] -= 1
                if pending[x] == 0 and x in self.ins:
                    order.append(x)

    def counter_truth(self, c, ni):
        if c is None or ni is None:
            return None
        c = self.lo.resolve(c)
        neg = False
        while c.get("k") == "Un" and c.get("op") == "!":
            c, neg = self.lo.resolve(c["e"]), not neg
        if c.get("k") != "Bin" or c.get("op") not in ("==", "!=", "<", "<=", ">", ">="):
            return None
        l, r = self.lo.resolve(c["lhs"]), self.lo.resolve(c["rhs"])

        def val(e):
            if e.get("k") == "Int":
                return int(e["v"])
            if (e.get("k") == "Member" and e.get("n") == "_num_iter") or (e.get("k") == "MCall" and cname(e) == "get_num_iter" and (e.get("obj") is None or e["obj"].get("k") == "This")):
                return ni
            return None
        a, b = val(l), val(r)
        if a is None or b is None or not any((x.get("k") == "Member" and x.get("n") == "_num_iter") or (x.get("k") == "MCall" and cname(x) == "get_num_iter") for x in (l, r)):
            return None
        t = {"==": a == b, "!=": a != b, "<": a < b, "<=": a <= b, ">": a > b, ">=": a >= b}[c["op"]]
        return t != neg

    def vkey(self, e):
        """(key at container granularity, is a vector / container of vectors) of an expression"""
        e0 = strip(e) if isinstance(e, dict) else {}
        if e0.get("k") == "Ref" and e0.get("d") in getattr(self, "rvars", {}):
            return self.vkey(self.rvars[e0["d"]])          # a range-for variable: the container it runs over
        e2 = self.lo.resolve(e)
        t = (self.fn.ntype(e2) or self.fn.ntype(e) or "").strip()
        if not is_vector_expr(self.fn, self.lo, e) and not (re.match(r"^(const )?std::vector\b", t) and "Vector" in t):
            return None
        k = objkey(self.lo, e)
        if k.startswith("?"):
            return None
        return base_key(k)

    def rd(self, st, e, n):
        k = self.vkey(e)
        if k is not None and k.startswith("this.") and k not in st and k not in self.exempt:
            self.shared["reads"].append((n.get("l"), self.fn.name, k, render(n)[:70]))
            st.add(k)          # report the first read only

    def df(self, st, e):
        k = self.vkey(e)
        if k is not None:
            st.add(k)

    def transfer(self, b, st, ni):
        fn, lo = self.fn, self.lo
        els = [fn.by_id(sid) for sid in fn.cfg.blocks[b]["el"]]
        for n in els:
            if n is None:
                continue
            k = n.get("k")
            if k in ("Assign", "OpCall") and as_assign(n) is not None:
                l, r = as_assign(n)
                kl = self.vkey(l)
                if kl is not None:
                    if alloc_only(lo, r):
                        st.discard(kl)
                    else:
                        src = through_moves(lo, r)
                        if src.get("k") == "MCall" and cname(src) == "clone" and src.get("obj") is not None:
                            self.rd(st, src["obj"], n)
                        st.add(kl)
                continue
            alg = algorithm_over(fn, lo, n) if k == "Call" else None
            if alg is not None:
                kc = self.vkey(alg[0])
                if kc is not None:
                    st.add(kc)          # a standard algorithm runs a function over the elements: optimistic (it may give them a value)
                continue
            if k != "MCall":
                continue
            nm = cname(n)
            obj = n.get("obj")
            own = obj is None or obj.get("k") == "This"
            roles = dict(zip(n.get("pn", []), n.get("a", [])))
            if own and nm == "_set_initial_defect":
                ni = 0
            elif own and nm in ("_set_new_defect", "_update_defect"):
                ni = ni + 1 if ni is not None else None
            if own and nm in ("_set_initial_defect", "_set_new_defect", "_calc_def_norm") and n.get("a"):
                self.rd(st, n["a"][0], n)
                continue
            if own and nm == "_apply_intern":
                ent = {x for x in st if x.startswith("this.")}
                for j, a in enumerate(n.get("a", [])):
                    ka = self.vkey(a)
                    if ka is not None and ka in st:
                        ent.add("$%d" % j)
                self.shared["entries"].append((fn.name, frozenset(ent)))
                continue
            if own and (nm.startswith("_apply_precond") or nm in ("_precond_l", "_precond_r")) and len(n.get("a", [])) >= 2:
                self.rd(st, n["a"][1], n)
                self.df(st, n["a"][0])
                continue
            if own and nm in self.methods and self.depth < 2 and self.methods[nm] is not fn:
                callee = self.methods[nm]
                trans = {}
                for j, a in enumerate(n.get("a", [])):
                    ka = self.vkey(a)
                    if ka is not None:
                        trans[ka] = "$%d" % j
                ent = {x for x in st if x.startswith("this.")} | {trans[x] for x in st if x in trans}
                sub = DefinedFlow(callee, ent, self.methods, self.exempt, self.depth + 1, self.shared, ni)
                if sub.exit_state is not None:
                    back = {v: k2 for k2, v in trans.items()}
                    st |= {x for x in sub.exit_state[0] if x.startswith("this.")} | {back[x] for x in sub.exit_state[0] if x in back}
                    ni = sub.exit_state[1]
                continue
            if nm == "apply" and "r" in roles and "x" in roles:
                self.rd(st, roles["x"], n)
                if "y" in roles:
                    self.rd(st, roles["y"], n)
                self.df(st, roles["r"])
                continue
            if nm in ("filter_def", "filter_cor", "filter_sol", "filter_rhs") and n.get("a"):
                self.rd(st, n["a"][0], n)
                continue
            kv = self.vkey(obj) if (obj is not None and not own) else None
            is_container = kv is not None and re.match(r"^(const )?std::vector\b", (fn.ntype(lo.resolve(obj)) or "").strip())
            if kv is not None and not is_container:
                vec_args = [a for a in n.get("a", []) if self.vkey(a) is not None]
                if nm in ("copy", "scale", "component_product", "convert"):
                    for a in vec_args:
                        self.rd(st, a, n)
                    st.add(kv)
                elif nm == "axpy":
                    self.rd(st, obj, n)
                    for a in vec_args:
                        self.rd(st, a, n)
                elif nm in ("format", "format_random"):
                    st.add(kv)
                elif nm in ("clear",):
                    pass
                elif n.get("cconst"):
                    if nm not in ("size", "local_size", "empty", "clone", "used_elements", "bytes", "name", "get_gate", "local"):
                        self.rd(st, obj, n)
                        for a in vec_args:
                            self.rd(st, a, n)
                else:
                    st.add(kv)
                continue
            if is_container:
                if nm in ("push_back", "emplace_back") and n.get("a"):
                    src = through_moves(lo, n["a"][0])
                    if not alloc_only(lo, src):
                        st.add(kv)
                continue
            for j, a in enumerate(n.get("a", [])):
                ka = self.vkey(a) if isinstance(a, dict) else None
                if ka is None:
                    continue
                pt = fn.type(n["pt"][j]) if j < len(n.get("pt", [])) else ""
                if ("&" in pt or "*" in pt) and "const" not in pt:
                    st.add(ka)
        return st, ni


def rule_workvec_defined(ck, solvers):
    for sc in sorted(SOLVERS):
        members = solvers.get(sc, {})
        fns = members.get("_apply_intern", [])
        if not fns:
            ck.incomplete("E8.workvec-defined", "anchor %s::_apply_intern not instantiated" % sc)
            continue
        fn = fns[0]
        tag = short_inst(fn)
        methods = {}
        for mname, mfl in members.items():
            cand = [f for f in mfl if f.cls == fn.cls and f.cfg is not None and not f.d.get("ctor")]
            if cand:
                methods[mname] = cand[0]
        if "apply" not in methods or "correct" not in methods:
            ck.incomplete("E8.workvec-defined", "%s [%s]: apply()/correct() of this instantiation not found" % (sc, tag))
            continue
        solve_names = {"apply", "correct", "_apply_intern"}
        changed = True
        while changed:
            changed = False
            for m in list(solve_names):
                for c in methods[m].calls() if m in methods else ():
                    if c.get("k") == "MCall" and (c.get("obj") is None or c["obj"].get("k") == "This") and cname(c) in methods and cname(c) not in solve_names \
                            and not cname(c).startswith("init_") and not cname(c).startswith("done_"):
                        solve_names.add(cname(c))
                        changed = True
        # exempt: state that is given a value outside the solve (init_*, setters), set up once under a validity flag, or recycled lists
        exempt = set()
        for mname, f in methods.items():
            lo = Locals(f)
            flag_setter = any(as_assign(n) is not None and strip(as_assign(n)[0]).get("k") == "Member" and strip(as_assign(n)[1]).get("k") == "Bool" and strip(as_assign(n)[1]).get("v") is True
                              and "bool" in (f.ntype(strip(as_assign(n)[0])) or "") for n in f.nodes() if n.get("k") in ("Assign", "OpCall"))
            if mname in solve_names and not flag_setter:
                for c in f.calls():
                    if c.get("k") == "MCall" and cname(c) in ("push_back", "emplace_back") and c.get("obj") is not None and objkey(lo, c["obj"]).startswith("this."):
                        exempt.add(base_key(objkey(lo, c["obj"])))       # grows while solving: recycled state (E8.recycled-state), not a work vector
                continue
            probe = DefinedFlow(f, set(), {}, set(), depth=9)
            if probe.exit_state is not None:
                exempt |= {x for x in probe.exit_state[0] if x.startswith("this.")}
            # (must-defined at the exits only; for flag-guarded set-ups every write counts)
            if flag_setter:
                for c in f.calls():
                    if c.get("k") == "MCall" and c.get("obj") is not None and c["obj"].get("k") != "This" and not c.get("cconst"):
                        kk = base_key(objkey(lo, c["obj"]))
                        if kk.startswith("this."):
                            exempt.add(kk)
        helpers = {m: f for m, f in methods.items() if m in solve_names and m not in ("apply", "correct", "_apply_intern")}
        bad, nreads = [], 0
        for meth in ("apply", "correct"):
            mfn = methods[meth]
            ent0 = {"$1"} if meth == "apply" else {"$0", "$1"}
            top = DefinedFlow(mfn, ent0, helpers, exempt)
            for line, fname, kf, txt in top.shared["reads"]:
                bad.append("%s() line %s `%s` reads %s" % (fname, line, txt, kf[5:]))
            if not top.shared["entries"]:
                ck.incomplete("E8.workvec-defined", "%s::%s [%s]: no call of _apply_intern reached" % (sc, meth, tag))
                continue
            for caller, ent in top.shared["entries"][:1]:
                ent = set(ent) | {"$0"}
                inner = DefinedFlow(fn, ent, helpers, exempt)
                for line, fname, kf, txt in inner.shared["reads"]:
                    bad.append("%s() line %s `%s` reads %s" % (fname, line, txt, kf[5:]))
        bad = sorted(set(bad))
        ck.ob("E8.workvec-defined", "%s::_apply_intern" % sc, not bad,
              ("[%s] %s before any statement of this solve has given it a value (first pass through the iteration; init_symbolic only allocates it): the result depends on what an earlier solve - or the allocator - "
               "left there, e.g. 0 * NaN = NaN after an aborted solve" % (tag, "; ".join(bad[:3]))) if bad else "every work vector read on the first pass through apply()/correct() -> _apply_intern has been given a value before", fn.file, fn.line)


# -------------------------------------------------------------------------------------------------
# E8: the recurrence does not depend on defect bookkeeping that the protocol may leave unrefreshed
# -------------------------------------------------------------------------------------------------

def skippable_protocol_fields(facts):
    """{update function: fields of IterativeSolver whose refresh that function may skip} - a field written on some but not all
    paths of _set_new_defect / _update_defect (the norm computation under `calc_def`), and fields assigned from such a field"""
    out = {}
    for name, npar in (("_set_new_defect", 2), ("_update_defect", 1)):
        fns = base_functions(facts, name, npar)
        if not fns:
            continue
        ps = Paths(fns[0], methods=inlinable_methods(facts, fns[0]))
        if ps.problems or not ps.paths:
            out[name] = None
            continue
        written = [{e[0].rstrip("=+-*/") for e in p["eff"] if re.match(r"^_\w+=", e[0])} for p in ps.paths]
        allw = set().union(*written)
        skip = {f for f in allw if any(f not in w for w in written)}
        changed = True
        while changed:
            changed = False
            for p in ps.paths:
                for lhs, val in p["eff"]:
                    f = lhs.rstrip("=+-*/")
                    if lhs.endswith("=") and f not in skip and any(re.search(r"(?<![\w$])%s(?![\w])" % re.escape(x), val or "") for x in skip):
                        skip.add(f)
                        changed = True
        out[name] = skip
    return out


def rule_recurrence_sources(ck, solvers, facts):
    """taint analysis: values read from protocol fields whose refresh may be skipped must not reach the vector recurrences"""
    skips = skippable_protocol_fields(facts)
    for sc in sorted(SOLVERS):
        members = solvers.get(sc, {})
        fns = members.get("_apply_intern", [])
        if not fns:
            ck.incomplete("E8.recurrence-sources", "anchor %s::_apply_intern not instantiated" % sc)
            continue
        fn = fns[0]
        methods = {}
        for mname, mfl in members.items():
            cand = [f for f in mfl if f.cls == fn.cls and f.cfg is not None and not f.d.get("ctor")]
            if cand and mname not in ("apply", "correct", "init_symbolic", "done_symbolic", "init_numeric", "done_numeric"):
                methods[mname] = cand[0]
        # the functions of the solve and the update functions they call
        units, todo = [], [fn]
        while todo:
            f = todo.pop()
            if any(f is u for u in units) or len(units) > 12:
                continue
            units.append(f)
            for c in f.calls():
                if c.get("k") == "MCall" and (c.get("obj") is None or c["obj"].get("k") == "This") and cname(c) in methods and cname(c) != "_apply_intern":
                    todo.append(methods[cname(c)])
        sources = set()
        unknown = False
        for u in units:
            for c in u.calls():
                if cname(c) in skips and (c.get("obj") is None or c["obj"].get("k") == "This"):
                    if skips[cname(c)] is None:
                        unknown = True
                    else:
                        sources |= skips[cname(c)]
        if unknown:
            ck.incomplete("E8.recurrence-sources", "%s: the paths of the defect-update functions could not be enumerated" % sc)
            continue
        key = "%s::_apply_intern" % sc
        if not sources:
            ck.ob("E8.recurrence-sources", key, True, "the defect updates this solver calls refresh every field they write on every path", fn.file, fn.line)
            continue
        # fixpoint: tainted locals (decl ids), tainted members / containers of *this (objkey base), tainted helper parameters
        t_loc, t_fld, t_prm, t_ret = {}, {}, {}, {}
        sinks = []

        def tainted(u, lo, e):
            for x in walk(e):
                if x.get("k") == "Member" and x.get("field") and (x.get("b") is None or x["b"].get("k") == "This"):
                    if x["n"] in sources:
                        return "%s (line %s)" % (x["n"], x.get("l"))
                    if "this." + x["n"] in t_fld:
                        return t_fld["this." + x["n"]]
                elif x.get("k") == "Ref" and x.get("d") in t_loc:
                    return t_loc[x["d"]]
                elif x.get("k") == "Ref" and x.get("dk") == "param" and (u.full, x.get("d")) in t_prm:
                    return t_prm[(u.full, x["d"])]
                elif x.get("k") == "MCall" and (x.get("obj") is None or x["obj"].get("k") == "This") and cname(x) in t_ret:
                    return t_ret[cname(x)]
            return None
        for _round in range(12):
            before = (len(t_loc), len(t_fld), len(t_prm), len(t_ret), len(sinks))
            for u in units:
                lo = Locals(u)
                probe = DefinedFlow.__new__(DefinedFlow)
                probe.fn, probe.lo = u, lo
                for n in u.nodes():
                    k = n.get("k")
                    if k == "Var" and n.get("init") is not None:
                        o = tainted(u, lo, n["init"])
                        if o and n["d"] not in t_loc:
                            t_loc[n["d"]] = o
                    elif k == "Assign" or (k == "OpCall" and as_assign(n) is not None):
                        l, r = (n["lhs"], n["rhs"]) if k == "Assign" else as_assign(n)
                        o = tainted(u, lo, r)
                        if not o:
                            continue
                        l = strip(l)
                        if l.get("k") == "Ref" and l.get("dk") == "local":
                            t_loc.setdefault(l["d"], o)
                        elif l.get("k") == "Ref" and l.get("dk") == "param":
                            t_prm.setdefault((u.full, l["d"]), o)
                        else:
                            kk = base_key(objkey(lo, l))
                            if kk.startswith("this.") and kk[5:] not in sources and not re.match(r"^this\._(def_|num_|status)", kk):
                                t_fld.setdefault(kk, o)          # (writes into the protocol's own fields are bookkeeping, not recurrence)
                    elif k == "Return" and n.get("e") is not None:
                        o = tainted(u, lo, n["e"])
                        if o:
                            t_ret.setdefault(u.name, o)
                    elif k == "MCall":
                        nm = cname(n)
                        obj = n.get("obj")
                        own = obj is None or obj.get("k") == "This"
                        if own and nm in methods and methods[nm] is not u:
                            for prm, a in zip(methods[nm].params, n.get("a", [])):
                                o = tainted(u, lo, a)
                                if o:
                                    t_prm.setdefault((methods[nm].full, prm["d"]), o)
                            continue
                        if own:
                            continue          # protocol calls (is_converged, _plot_iter_line, _update_defect, ...) consume bookkeeping legitimately
                        recv_vec = probe.vkey(obj) is not None
                        ty = (u.ntype(lo.resolve(obj)) or "").strip()
                        if recv_vec and re.match(r"^(const )?std::vector\b", ty):
                            recv_vec = False
                        if re.match(r"^(const )?std::vector\b", ty) or "std::vector" in ty:
                            if nm in ("push_back", "emplace_back", "assign", "resize") and any(tainted(u, lo, a) for a in n.get("a", [])):
                                kk = base_key(objkey(lo, obj))
                                if kk.startswith("this."):
                                    t_fld.setdefault(kk, [tainted(u, lo, a) for a in n.get("a", []) if tainted(u, lo, a)][0])
                            continue
                        is_matrix = nm == "apply" and "r" in n.get("pn", [])
                        if (recv_vec and not n.get("cconst")) or is_matrix:
                            for a in n.get("a", []):
                                if probe.vkey(a) is not None:
                                    continue
                                o = tainted(u, lo, a)
                                if o:
                                    rec = (u.name, n.get("l"), render(n)[:70], o)
                                    if rec not in sinks:
                                        sinks.append(rec)
            if (len(t_loc), len(t_fld), len(t_prm), len(t_ret), len(sinks)) == before:
                break
        ck.ob("E8.recurrence-sources", key, not sinks,
              ("[%s] %s() line %s `%s` computes with a value that stems from %s: %s belongs to the convergence control, and the defect update this solver calls (_set_new_defect) is allowed to skip its "
               "refresh (skip_defect_calc with min_iter >= max_iter, no plotting, no stagnation check). With such settings the recurrence works with a stale norm: the same number of iterations gives a "
               "different iterate depending only on min_iter" % (short_inst(fn), sinks[0][0], sinks[0][1], sinks[0][2], sinks[0][3], "/".join(sorted(sources)))) if sinks
              else "no value read from %s reaches a vector operation (reads only feed the protocol itself / plotting)" % "/".join(sorted(sources)), fn.file, sinks[0][1] if sinks else fn.line)


# -------------------------------------------------------------------------------------------------
# E7: the vector whose norm is reported as the defect is filtered after its last unfiltered contribution
# -------------------------------------------------------------------------------------------------

FILTER_LINEAR = ("axpy", "scale", "copy")
NORM_CALLS = ("norm2", "norm2_async", "norm2sqr")


def norm_call_of(lo, e):
    """the vector-norm call a scalar expression stands for: v.norm2() / norm2_async().wait() / norm2sqr(), or sqrt(v.dot(v)) -> the MCall node, else None"""
    e = lo.resolve(e)
    for _ in range(4):
        if e.get("k") == "MCall" and cname(e) == "wait" and e.get("obj") is not None:
            e = lo.resolve(e["obj"])
        elif e.get("k") == "Call" and cname(e) == "sqrt" and len(e.get("a", [])) == 1:
            e = lo.resolve(e["a"][0])
        else:
            break
    if e.get("k") == "MCall" and cname(e) in NORM_CALLS:
        return e
    if e.get("k") == "MCall" and cname(e) in ("dot", "dot_async") and e.get("obj") is not None and len(e.get("a", [])) == 1 \
            and objkey(lo, e["obj"]) == objkey(lo, e["a"][0]) and not objkey(lo, e["obj"]).startswith("?"):
        return e
    return None


def may_alias(k1, k2):
    """two keys of elements of one container: distinct integer literal indices do not alias, everything else may"""
    if k1 == k2:
        return True
    if base_key(k1) != base_key(k2) or "[" not in k1 or "[" not in k2:
        return False
    i1, i2 = k1[k1.find("[") + 1:-1], k2[k2.find("[") + 1:-1]          # ("*" and "?" are not integer literals: they alias every element)
    return not (re.match(r"^\d+$", i1) and re.match(r"^\d+$", i2))


class FilterFlow:
    """Forward typestate analysis 'lies in the range of _system_filter.filter_def' (a linear subspace: UnitFilter zeroes the
    constrained dofs, mean / slip filters project).  State = the set of vector objects (objkey; container elements by the text of
    their index) that may hold an unfiltered value, with the statement that caused it; everything else is filtered
    (optimistic for work vectors: only writes are judged, definedness before use is another rule).
      filter_def(v): v filtered            format(0): filtered          copy/scale(x): state of x        axpy(x): v or x
      A.apply(r, ..) / _apply_precond(z, ..) / any other mutation: unfiltered
    Own helpers are followed with keys translated (depth <= 2); a call of _apply_intern records the state it is entered with.
    Obligations: the vector handed to _set_initial_defect / _set_new_defect, and the vector whose 2-norm is handed to
    _update_defect / is_converged / is_diverged (state at the point where the norm is taken), must be filtered."""

    def __init__(self, fn, entry, methods, pruner_for=None, depth=0, shared=None):
        self.fn, self.methods, self.depth = fn, methods, depth
        self.lo = Locals(fn)
        self.pruner_for = pruner_for
        self.pruner = pruner_for(fn) if pruner_for else None
        self.shared = shared if shared is not None else {"entries": [], "bad": [], "nsites": 0, "unknown": []}
        cfg = fn.cfg
        self.counting_norms = set()
        for c in fn.calls():
            if cname(c) == "_update_defect" and len(c.get("a", [])) == 1:
                e = norm_call_of(self.lo, c["a"][0])
                if e is not None:
                    self.counting_norms.add(e["i"])
        # states are kept apart by the values of bool flags (FlagGraph): the pass under `first_pass` and the later passes are not merged
        self.fg = FlagGraph(fn)
        self.rvars = range_vars(fn)
        start = (cfg.entry, frozenset())
        self.ins = {start: dict(entry)}
        self.exit_state = {}
        work = [start]
        n = 0
        while work and n < 8000:
            n += 1
            cur = work.pop()
            b = cur[0]
            out = self.transfer(b, dict(self.ins[cur]), False)
            blk = cfg.blocks[b]
            for s2, fv2 in self.fg.edges(*cur):
                pos = blk.get("succ", []).index(s2)
                if self.pruner is not None and not self.pruner.edge_allowed(blk, pos) and blk["succ"].count(s2) == 1:
                    continue
                nxt = (s2, fv2)
                old = self.ins.get(nxt)
                if old is None:
                    self.ins[nxt] = dict(out)
                    work.append(nxt)
                else:
                    new = self.join(old, out)
                    if new != old:
                        self.ins[nxt] = new
                        work.append(nxt)
        first = True
        for cur in sorted(self.ins, key=lambda x: (x[0], sorted(x[1]))):
            out = self.transfer(cur[0], dict(self.ins[cur]), True)
            if cur[0] in cfg.normal_exit_preds():
                self.exit_state = dict(out) if first else self.join(self.exit_state, out)
                first = False

    # state: key -> origin text of a possibly unfiltered value, or None = known filtered (needed for container elements, whose
    # default is 'whatever an aliasing element key says')
    @staticmethod
    def join(a, b):
        res = {}
        for k in set(a) | set(b):
            va, vb = a.get(k, 0), b.get(k, 0)
            if isinstance(va, str):
                res[k] = va
            elif isinstance(vb, str):
                res[k] = vb
            elif va is None and vb is None:
                res[k] = None
            # known filtered on one side only: fall back to the default
        return res

    # marks: m:<vec> measured and unmodified since / p:<id>:<vec> norm call <id> taken and its vector unmodified since / pw:<id>:<vec> the vector
    # was written after norm <id> was taken / nf:,ns:<id> filter state, staleness when norm <id> was taken / dc:<vec> _def_cur is the current norm
    # of <vec> / dcs the vector was modified (or _def_cur overwritten with something else) since _def_cur was last set from its norm
    PFX = re.compile(r"^(m|p|pw|nf|ns|dc):|^dcs$")

    def read(self, st, k):
        if k in st:
            return st[k]
        if "[" in k:
            for k2, v in st.items():
                if v is not None and not self.PFX.match(k2) and may_alias(k, k2):
                    return v
        return None

    def touched(self, st, k):
        """vector k is written: it is no longer 'unmodified since measured'; a norm taken before is now older than the vector"""
        for mk in [x for x in st if x.startswith("m:") and may_alias(x[2:], k)]:
            del st[mk]
        for pk in [x for x in st if x.startswith("p:") and may_alias(x.split(":", 2)[2], k)]:
            st["pw:" + pk[2:]] = "%s (after %s)" % (getattr(self, "cur_here", "?"), st.pop(pk))
        for dk in [x for x in st if x.startswith("dc:") and may_alias(x[3:], k)]:
            del st[dk]
            st.setdefault("dcs", "%s modifies %s after _def_cur was set to its norm" % (getattr(self, "cur_here", "?"), k))

    def measure(self, st, kd, here, record, nm):
        """the defect update `nm` measures vector kd here: it must have been modified since the previous measurement"""
        stale = [v for x, v in st.items() if x.startswith("m:") and may_alias(x[2:], kd)]
        if stale and record:
            self.shared.setdefault("stale", []).append((here, self.fn.name, nm, kd, stale[0]))
        st["m:" + kd] = here

    def vec_key(self, e):
        e0 = strip(e) if isinstance(e, dict) else {}
        if e0.get("k") == "Ref" and e0.get("d") in self.rvars:
            kc = objkey(self.lo, self.rvars[e0["d"]])          # a range-for variable: any element of the container
            return None if kc.startswith("?") else kc + "[*]"
        if not is_vector_expr(self.fn, self.lo, e):
            return None
        k = objkey(self.lo, e)
        return None if k.startswith("?") else k

    def set_state(self, st, k, origin):
        self.touched(st, k)
        if k.endswith("[*]"):
            # the same statement is applied to every element (range-for / standard algorithm)
            for k2 in [x for x in st if not self.PFX.match(x) and base_key(x) == base_key(k) and "[" in x]:
                del st[k2]
            if origin is not None:
                st[base_key(k) + "[?]"] = origin
            return
        if origin is None:
            if "[" in k:
                st[k] = None            # this very element (by the text of its index) is filtered now
            else:
                st.pop(k, None)
        else:
            st[k] = origin
            if "[" in k:
                for k2 in [x for x, v in st.items() if v is None and x != k and may_alias(k, x)]:
                    del st[k2]          # an element that may be the same one is no longer known to be filtered

    def transfer(self, b, st, record):
        fn, lo = self.fn, self.lo
        for sid in fn.cfg.blocks[b]["el"]:
            n = fn.by_id(sid)
            if n is None:
                continue
            k = n.get("k")
            self.cur_here = "line %s `%s`" % (n.get("l"), render(n)[:60])
            # an index variable changes: element keys spelled with it denote other elements from now on
            tgt = None
            if k == "Un" and n.get("op") in ("++", "--"):
                tgt = strip(n["e"])
            elif k == "Assign":
                tgt = strip(n["lhs"])
            if tgt is not None and tgt.get("k") == "Ref" and tgt.get("dk") in ("local", "param"):
                tag = "%s:%s" % (tgt.get("dk"), tgt.get("n")) if tgt.get("dk") == "local" else "$" + tgt.get("n")
                for key in [x for x in st if "[" in x and tag in x[x.find("["):]]:
                    if st[key] is not None and not self.PFX.match(key):
                        st.setdefault(base_key(key) + "[?]", st[key])
                    del st[key]
                continue
            if k == "Assign" and strip(n["lhs"]).get("k") == "Member" and strip(n["lhs"]).get("n") == "_def_cur" and (strip(n["lhs"]).get("b") is None or strip(n["lhs"])["b"].get("k") == "This"):
                e = norm_call_of(lo, n["rhs"]) if n.get("op") == "=" else None
                kd = self.vec_key(e["obj"]) if e is not None and e.get("obj") is not None else None
                for x in [y for y in st if y.startswith("dc:") or y == "dcs"]:
                    del st[x]
                if kd is not None and ("p:%s:%s" % (e["i"], kd)) in st:
                    st["dc:" + kd] = self.cur_here
                else:
                    st["dcs"] = "%s stores a value that is not the current norm of the defect vector" % self.cur_here
                continue
            if k in ("Assign", "OpCall") and as_assign(n) is not None:
                l, r = as_assign(n)
                kl = self.vec_key(l)
                if kl is not None:
                    src = through_moves(lo, r)
                    if src.get("k") == "MCall" and cname(src) == "clone" and src.get("obj") is not None and self.vec_key(src["obj"]) is not None:
                        self.set_state(st, kl, self.read(st, self.vec_key(src["obj"])))
                    else:
                        self.set_state(st, kl, "line %s `%s`" % (n.get("l"), render(n)[:50]))
                continue
            alg = algorithm_over(fn, lo, n) if k == "Call" else None
            if alg is not None:
                kc = objkey(lo, alg[0])
                ty = (fn.ntype(lo.resolve(alg[0])) or "")
                if not kc.startswith("?") and "Vector" in ty:
                    lamfn = None
                    if alg[1] is not None:
                        cands = [f for f in _LAMBDAS if f.qn.startswith(fn.qn + "::<lambda@") and f.line == alg[1].get("l")]
                        lamfn = cands[0] if cands else None
                    if lamfn is not None and lamfn.cfg is not None and len(lamfn.params) >= 1:
                        sub = FilterFlow(lamfn, {}, {}, None, 9, {"entries": [], "bad": [], "nsites": 0, "unknown": []})
                        org = sub.exit_state.get("$0")
                        if isinstance(org, str):
                            self.set_state(st, kc + "[*]", "line %s `%s`: %s" % (n.get("l"), render(n)[:40], org))
                        elif any(c.get("k") == "MCall" and cname(c) == "format" and all(is_zero(Locals(lamfn), a) for a in c.get("a", [])) for c in lamfn.calls()):
                            self.set_state(st, kc + "[*]", None)
                        else:
                            self.touched(st, kc + "[*]")
                    else:
                        self.set_state(st, kc + "[*]", "unknown: line %s `%s` (a function this rule cannot see is applied to every element)" % (n.get("l"), render(n)[:40]))
                continue
            if k != "MCall":
                continue
            nm = cname(n)
            obj = n.get("obj")
            roles = dict(zip(n.get("pn", []), n.get("a", [])))
            here = "line %s `%s`" % (n.get("l"), render(n)[:60])
            own = obj is None or obj.get("k") == "This"
            # --- measurements
            if own and nm in ("_set_initial_defect", "_set_new_defect") and n.get("a"):
                kd = self.vec_key(n["a"][0])
                if record:
                    self.shared["nsites"] += 1
                    if kd is None:
                        self.shared["unknown"].append("%s: the measured vector %s is not an identifiable object" % (here, render(n["a"][0])[:40]))
                    elif (self.read(st, kd) or "").startswith("unknown:"):
                        self.shared["unknown"].append("%s: %s" % (here, self.read(st, kd)[9:]))
                    elif self.read(st, kd) is not None:
                        self.shared["bad"].append((n.get("l"), fn.name, nm, kd, self.read(st, kd)))
                if kd is not None:
                    self.measure(st, kd, here, record, nm)
                    for x in [y for y in st if y.startswith("dc:") or y == "dcs"]:
                        del st[x]
                    st["dc:" + kd] = here
                continue
            if own and nm in ("_update_defect", "is_converged", "is_diverged") and len(n.get("a", [])) == 1:
                e = norm_call_of(lo, n["a"][0]) or {}
                if e.get("k") == "MCall" and e.get("obj") is not None and self.vec_key(e["obj"]) is not None:
                    kd = self.vec_key(e["obj"])
                    if record:
                        self.shared["nsites"] += 1
                        if isinstance(st.get("nf:%s" % e["i"]), str):
                            self.shared["bad"].append((n.get("l"), fn.name, nm, kd, st["nf:%s" % e["i"]]))
                    if nm == "_update_defect":
                        # the measurement counts here, where the norm flows into the defect protocol; its object is the vector as it was when the norm was taken
                        if record and isinstance(st.get("ns:%s" % e["i"]), str):
                            self.shared.setdefault("stale", []).append(("line %s `%s`" % (e.get("l"), render(e)[:40]), fn.name, nm, kd, st["ns:%s" % e["i"]]))
                        unmodified = ("p:%s:%s" % (e["i"], kd)) in st
                        for x in [y for y in st if y.startswith("dc:") or y == "dcs"]:
                            del st[x]
                        if unmodified:
                            st["m:" + kd] = "line %s `%s`" % (e.get("l"), render(e)[:40])
                            st["dc:" + kd] = here
                        else:
                            st["dcs"] = "%s stores a norm of %s taken before the vector was modified" % (here, kd)
                    elif record and isinstance(st.get("pw:%s:%s" % (e["i"], kd)), str):
                        # a stopping test on a norm that no longer belongs to the vector
                        self.shared.setdefault("stale_test", []).append((here, fn.name, nm, "the norm of %s taken at line %s; the vector has been modified since: %s" % (kd, e.get("l"), st["pw:%s:%s" % (e["i"], kd)])))
                continue
            if own and nm in ("is_converged", "is_diverged") and not n.get("a"):
                # the argument-less overloads test the cached _def_cur
                if record:
                    self.shared["nsites"] += 1
                    if isinstance(st.get("dcs"), str):
                        self.shared.setdefault("stale_test", []).append((here, fn.name, nm + "()", "the cached _def_cur, which is not the norm of the current defect vector: " + st["dcs"]))
                continue
            if obj is not None and not own and (nm in NORM_CALLS or (nm in ("dot", "dot_async") and norm_call_of(lo, n) is not None)):
                kv = self.vec_key(obj)
                if kv is not None:
                    org = self.read(st, kv)
                    st.pop("nf:%s" % n["i"], None)
                    st.pop("ns:%s" % n["i"], None)
                    if org is not None:
                        st["nf:%s" % n["i"]] = org
                    if n["i"] in self.counting_norms:
                        stale = [v for x, v in st.items() if x.startswith("m:") and may_alias(x[2:], kv)]
                        if stale:
                            st["ns:%s" % n["i"]] = stale[0]
                    for x in [y for y in st if y.startswith("p:%s:" % n["i"]) or y.startswith("pw:%s:" % n["i"])]:
                        del st[x]
                    st["p:%s:%s" % (n["i"], kv)] = here
                continue
            # --- the iteration entered from apply()/correct()
            if own and nm == "_apply_intern":
                if record:
                    callee = self.methods.get("_apply_intern")
                    ent = {}
                    for key, org in st.items():
                        if key.startswith("this.") and org is not None:
                            ent[key] = org
                    for j, a in enumerate(n.get("a", [])):       # (no measurement has happened yet: marks 'm:' do not exist here)
                        ka = self.vec_key(a)
                        if ka is not None and self.read(st, ka) is not None:
                            ent["$%d" % j] = self.read(st, ka)
                    self.shared["entries"].append((fn.name, ent))
                continue
            # --- own helpers
            if own and nm in self.methods and nm != "_apply_intern" and self.depth < 2 and self.methods[nm] is not fn and not nm.startswith("_apply_precond") and nm not in ("_precond_l", "_precond_r"):
                callee = self.methods[nm]
                trans = {}
                for j, a in enumerate(n.get("a", [])):
                    ka = self.vec_key(a)
                    if ka is not None:
                        trans[ka] = "$%d" % j
                ent = {}
                for key, org in st.items():
                    if org is None:
                        continue
                    if key == "dcs":
                        ent[key] = org
                        continue
                    mt = re.match(r"^(m:|dc:|p:\d+:|pw:\d+:)", key)
                    if self.PFX.match(key) and not mt:
                        continue
                    pre, bare = (mt.group(0), key[len(mt.group(0)):]) if mt else ("", key)
                    if bare in trans:
                        ent[pre + trans[bare]] = org
                    elif bare.startswith("this."):
                        ent[key] = org
                sub = FilterFlow(callee, ent, self.methods, self.pruner_for, self.depth + 1, self.shared if record else {"entries": [], "bad": [], "nsites": 0, "unknown": []})
                back = {v: k2 for k2, v in trans.items()}
                for key in [x for x in st if x == "dcs" or (not re.match(r"^(nf|ns):", x) and (re.sub(r"^(m:|dc:|p:\d+:|pw:\d+:)", "", x).startswith("this.") or re.sub(r"^(m:|dc:|p:\d+:|pw:\d+:)", "", x) in trans))]:
                    del st[key]
                for key, org in sub.exit_state.items():
                    if org is None:
                        continue
                    if key == "dcs":
                        st[key] = org
                        continue
                    mt = re.match(r"^(m:|dc:|p:\d+:|pw:\d+:)", key)
                    if self.PFX.match(key) and not mt:
                        continue
                    pre, bare = (mt.group(0), key[len(mt.group(0)):]) if mt else ("", key)
                    if bare in back:
                        st[pre + back[bare]] = org
                    elif bare.startswith("this."):
                        st[key] = org
                continue
            # --- the filter
            if nm == "filter_def" and obj is not None and "Filter" in (fn.ntype(obj) or "") and n.get("a"):
                kv = self.vec_key(n["a"][0])
                if kv is not None:
                    self.set_state(st, kv, None)
                continue
            if nm in ("filter_cor", "filter_sol", "filter_rhs"):
                continue
            # --- operator / preconditioner applications
            if nm.startswith("_apply_precond") or nm in ("_precond_l", "_precond_r"):
                kv = self.vec_key(n["a"][0]) if n.get("a") else None
                if kv is not None:
                    self.set_state(st, kv, here + " (a preconditioner result)")
                continue
            if nm == "apply" and "r" in roles:
                kv = self.vec_key(roles["r"])
                if kv is not None:
                    self.set_state(st, kv, here + " (an operator application)")
                continue
            # --- vector methods on a tracked receiver
            kv = self.vec_key(obj) if (obj is not None and not own) else None
            if kv is not None and not n.get("cconst"):
                if nm == "format":
                    if all(is_zero(lo, a) for a in n.get("a", [])):
                        self.set_state(st, kv, None)
                    else:
                        self.set_state(st, kv, here)
                elif nm in ("copy", "scale") and n.get("a"):
                    kx = self.vec_key(roles.get("x", n["a"][0]))
                    self.set_state(st, kv, (self.read(st, kx) if kx is not None else here))
                elif nm == "axpy" and n.get("a"):
                    kx = self.vec_key(roles.get("x", n["a"][0]))
                    org = self.read(st, kx) if kx is not None else here
                    if org is not None and self.read(st, kv) is None:
                        self.set_state(st, kv, "line %s `%s` adds %s" % (n.get("l"), render(n)[:50], org if org.startswith("the ") else "the value of " + org))
                    else:
                        self.touched(st, kv)
                elif nm in ("clear",):
                    self.set_state(st, kv, None)
                else:
                    self.set_state(st, kv, here)
                continue
            # containers of vectors: push_back(x.clone()) / push_back(std::move(x))
            if obj is not None and not own and nm in ("push_back", "emplace_back") and n.get("a") and re.match(r"^(const )?std::vector<", (fn.ntype(lo.resolve(obj)) or "").strip()):
                src = through_moves(lo, n["a"][0])
                if src.get("k") == "MCall" and cname(src) == "clone" and src.get("obj") is not None:
                    src = src["obj"]
                kx = self.vec_key(src)
                kc = objkey(lo, obj)
                org = self.read(st, kx) if kx is not None else here
                if org is not None and not kc.startswith("?"):
                    st.setdefault(kc + "[?]", org)
                continue
            # any other callee receiving a tracked vector mutably
            for j, a in enumerate(n.get("a", [])):
                ka = self.vec_key(a) if isinstance(a, dict) and strip(a).get("k") in ("Ref", "Member", "MCall", "OpCall") else None
                if ka is None:
                    continue
                pt = fn.type(n["pt"][j]) if j < len(n.get("pt", [])) else ""
                if ("&" in pt or "*" in pt) and "const" not in pt:
                    self.set_state(st, ka, here)
        return st


def rule_defect_filtered(ck, solvers, facts=None):
    import c07_dim
    if not _LAMBDAS:
        _LAMBDAS.extend(f for f in (facts.functions if facts is not None else []) if "<lambda@" in f.qn)
    extra = base_written_fields(facts) if facts is not None else set()
    for sc in sorted(SOLVERS):
        members = solvers.get(sc, {})
        fns = members.get("_apply_intern", [])
        if not fns:
            ck.incomplete("E7.defect-filtered", "anchor %s::_apply_intern not instantiated" % sc)
            continue
        bad, notes, nsites, stale_bad, test_bad = [], [], 0, [], []
        for fn in fns[:2]:
            tag = short_inst(fn)
            methods = {}
            for mname, mfl in members.items():
                cand = [f for f in mfl if f.cls == fn.cls and f.cfg is not None and not f.d.get("ctor")]
                if cand:
                    methods[mname] = cand[0]
            if "apply" not in methods or "correct" not in methods:
                ck.incomplete("E7.defect-filtered", "%s [%s]: apply()/correct() of this instantiation not found" % (sc, tag))
                continue
            # configurations of the iteration (BiCGStabL tests its preconditioning variant)
            helpers = {"strip": strip, "objkey": objkey, "cname": cname, "Locals": Locals, "methods": {m: f for m, f in methods.items() if m not in ("apply", "correct", "_apply_intern")},
                       "formula": formula, "term": term, "written_extra": extra, "root_fn": fn, "Paths": Paths}
            probe = c07_dim.CfgPruner(fn, Locals(fn), helpers, assume={}).prepare()
            free = sorted(probe.free_atoms)
            assumes = [{}]
            if free and len(free) <= E6_MAX_FREE:
                enums = {f: enumerators_of(t) for f, t in probe.enum_fields.items()}
                assumes = []
                for bits in itertools.product((True, False), repeat=len(free)):
                    asm = dict(zip(free, bits))
                    if c07_dim.consistent_assume(asm, enums) is True:
                        assumes.append(asm)
                assumes = assumes or [{}]
            for asm in assumes:
                cfgtxt = (" under {%s}" % ", ".join("%s=%s" % (a, "T" if v else "F") for a, v in sorted(asm.items()))) if asm else ""
                cache = {}

                def pruner_for(f, _asm=asm, _cache=cache, _h=helpers):
                    if not _asm:
                        return None
                    if f.full not in _cache:
                        _cache[f.full] = c07_dim.CfgPruner(f, Locals(f), _h, assume=_asm).prepare()
                    return _cache[f.full]
                for meth in ("apply", "correct"):
                    mfn = methods[meth]
                    if len(mfn.params) != 2:
                        continue
                    # apply(): the caller's defect is filtered (it is a defect); correct(): the raw right-hand side is not
                    ent0 = {"$0": "the iterate parameter"}
                    if meth == "correct":
                        ent0["$1"] = "the right-hand side %s of correct(), which is not filtered (e.g. a UnitFilter with non-zero boundary values)" % mfn.params[1]["n"]
                    top = FilterFlow(mfn, ent0, methods, pruner_for)
                    for u in top.shared["unknown"][:2]:
                        ck.incomplete("E7.defect-filtered", "%s::%s [%s]: %s" % (sc, meth, tag, u))
                    if not top.shared["entries"]:
                        ck.incomplete("E7.defect-filtered", "%s::%s [%s]: no call of _apply_intern reached (iteration delegated in a way this rule does not follow)" % (sc, meth, tag))
                        continue
                    for line, fname, nm, kd, org in top.shared["bad"]:
                        bad.append("[%s] %s() line %s: the vector %s measured by %s may be unfiltered: %s" % (tag, fname, line, kd, nm, org))
                    for caller, ent in top.shared["entries"][:2]:
                        ent = dict(ent)
                        ent.setdefault("$0", "the iterate")
                        inner = FilterFlow(fn, ent, methods, pruner_for)
                        nsites = max(nsites, inner.shared["nsites"])
                        for u in inner.shared["unknown"][:2]:
                            ck.incomplete("E7.defect-filtered", "%s::_apply_intern [%s]: %s" % (sc, tag, u))
                        for here, fname, nm, kd, prev in inner.shared.get("stale", []):
                            stale_bad.append("[%s]%s %s: %s measures %s again although no statement has modified that vector since %s: the same defect is reported for two iterations "
                                             "(one more iteration than progress; with min_stag_iter = 1 the run ends 'stagnated' although it does not stagnate)" % (tag, cfgtxt, fname, here, kd, prev))
                        for here, fname, nm, what in inner.shared.get("stale_test", []):
                            test_bad.append("[%s]%s %s: %s %s decides on %s. A stopping test must decide on the norm of the residual as it is at that point "
                                            "(e.g. success is returned for an iterate whose defect was never compared with the tolerance)" % (tag, cfgtxt, fname, here, nm, what))
                        for line, fname, nm, kd, org in inner.shared["bad"]:
                            bad.append("[%s] entered through %s()%s: %s line %s hands %s to %s, but that vector may lie outside the range of the system filter: its last unfiltered contribution is %s; no _system_filter.filter_def(%s) follows. "
                                       "The reported defect then contains the constrained components (it never falls below their norm: max_iter / breakdown instead of success)" % (
                                           tag, meth, cfgtxt, fname, line, kd, nm, org, kd.replace("this.", "")))
                notes.append("[%s]%s %d measurement sites" % (tag, cfgtxt, nsites))
        bad = sorted(set(bad))
        if not bad and nsites == 0:
            ck.incomplete("E7.defect-filtered", "%s::_apply_intern: no measurement of a defect vector (_set_initial_defect/_set_new_defect/_update_defect of a vector norm) was reached" % sc)
            continue
        test_bad = sorted(set(test_bad))
        ck.ob("E7.tested-defect-current", "%s::_apply_intern" % sc, not test_bad, "; ".join(test_bad[:2]) if test_bad else
              "every norm handed to _update_defect / is_converged / is_diverged - and the cached _def_cur where the argument-less overloads are used - is that of the defect vector as it is at the test", fns[0].file, fns[0].line)
        stale_bad = sorted(set(stale_bad))
        ck.ob("E7.defect-fresh", "%s::_apply_intern" % sc, not stale_bad, "; ".join(stale_bad[:2]) if stale_bad else
              "every defect update measures a vector that was modified since the previous measurement (%d sites)" % nsites, fns[0].file, fns[0].line)
        ck.ob("E7.defect-filtered", "%s::_apply_intern" % sc, not bad, "; ".join(bad[:2]) if bad else "; ".join(notes[:3]), fns[0].file, fns[0].line)


def rule_iterate_additive(ck, solvers):
    """_apply_intern serves apply() (x0 = 0) and correct() (x0 given): the iterate may only be updated additively"""
    for sc in sorted(SOLVERS):
        fns = solvers.get(sc, {}).get("_apply_intern", [])
        if not fns:
            ck.incomplete("E7.iterate-additive", "anchor %s::_apply_intern not instantiated" % sc)
            continue
        bad, n_upd = [], 0
        for fn in fns:
            tag = short_inst(fn)
            methods = {}
            for mname, mfl in solvers.get(sc, {}).items():
                cand = [f for f in mfl if f.cls == fn.cls and f.cfg is not None and not f.d.get("ctor")]
                if cand and mname not in ("apply", "correct", "_apply_intern"):
                    methods[mname] = cand[0]
            n1, b1, u1 = iterate_verdicts(fn, "$0", methods)
            n_upd += n1
            bad += ["[%s] %s" % (tag, x) for x in b1]
            for u in u1[:3]:
                ck.incomplete("E7.iterate-additive", "%s::_apply_intern [%s] %s" % (sc, tag, u))
        ck.ob("E7.iterate-additive", "%s::_apply_intern" % sc, not bad, "; ".join(bad[:2]) if bad else "the iterate is only updated by axpy (%d sites)" % n_upd, fns[0].file, fns[0].line)


def rule_validity_flags(ck, solvers):
    """a bool member set to true by the function that fills some member object is reset wherever that object is released / reallocated"""
    total = 0
    for sc in sorted(SOLVERS):
        members = solvers.get(sc, {})
        setters = {}      # flag -> (function, objects written there)
        for name, fl in members.items():
            fn = fl[0]
            if fn.d.get("ctor") or fn.cfg is None:
                continue
            lo = Locals(fn)
            for n in fn.nodes():
                lr = as_assign(n)
                if lr is None:
                    continue
                l, r = strip(lr[0]), strip(lr[1])
                if l.get("k") == "Member" and l.get("field") and r.get("k") == "Bool" and r.get("v") is True and "bool" in (fn.ntype(l) or ""):
                    objs = set()
                    for c in fn.calls():
                        if c.get("k") == "MCall" and c.get("obj") is not None and c["obj"].get("k") != "This" and not c.get("cconst"):
                            kk = base_key(objkey(lo, c["obj"]))
                            if kk.startswith("this."):
                                objs.add(kk)
                    if objs:
                        setters[l["n"]] = (fn, objs)
        for flag, (sfn, objs) in sorted(setters.items()):
            total += 1
            key = "%s/%s" % (sc, flag)
            bad, notes = [], []

            def resets(fn):
                lo = Locals(fn)
                for n in fn.nodes():
                    lr = as_assign(n)
                    if lr is not None and strip(lr[0]).get("k") == "Member" and strip(lr[0]).get("n") == flag and strip(lr[1]).get("k") == "Bool" and strip(lr[1]).get("v") is False:
                        st = stmt_of(fn, parent_map(fn), n) or n
                        if fn.cfg.must_pass(lambda q, _i=st.get("i"): q.get("i") == _i)[0]:
                            return True
                return False
            done_resets = any(resets(f) for f in members.get("done_symbolic", [])[:1])
            for name, fl in sorted(members.items()):
                fn = fl[0]
                if fn is sfn or fn.d.get("ctor") or fn.d.get("dtor") or fn.cfg is None:
                    continue
                lo = Locals(fn)
                inval = []
                for c in fn.calls():
                    if c.get("k") == "MCall" and c.get("obj") is not None and objkey(lo, c["obj"]) in objs and cname(c) in ("clear", "push_back", "emplace_back", "resize", "assign", "pop_back"):
                        inval.append(c)
                for n in fn.nodes():
                    lr = as_assign(n)
                    if lr is not None and objkey(lo, lr[0]) in objs:
                        inval.append(n)
                if not inval:
                    continue
                # a private helper that only releases the object: the reset may be left to its callers (all of them, on every path)
                callers = [(n2, fl2[0]) for n2, fl2 in sorted(members.items()) if fl2[0] is not fn and fl2[0].cfg is not None
                           and any(c.get("k") == "MCall" and (c.get("obj") is None or c["obj"].get("k") == "This") and cname(c) == name for c in fl2[0].calls())]
                if resets(fn) or (name == "init_symbolic" and done_resets):
                    notes.append("%s() resets it" % name)
                elif callers and not fn.d.get("virtual") and all(resets(cf) or (cn == "init_symbolic" and done_resets) for cn, cf in callers):
                    notes.append("%s() is only called by %s, which reset it" % (name, ", ".join(cn for cn, cf in callers)))
                else:
                    bad.append("%s() releases/reallocates %s (line %s: %s) but leaves %s == true: after %s() the guarded set-up in %s() is skipped and %s is used with unspecified contents" % (
                        name, ", ".join(sorted(o[5:] for o in objs)), inval[0].get("l"), render(inval[0])[:40], flag, name, sfn.name, ", ".join(sorted(o[5:] for o in objs))))
            ck.ob("E8.validity-flag", key, not bad, "; ".join(bad[:2]) if bad else ("set in %s(); " % sfn.name) + "; ".join(notes), sfn.file, sfn.line)
    return total


# -------------------------------------------------------------------------------------------------
# E6: dimensional consistency of the recurrences
# -------------------------------------------------------------------------------------------------

# solvers whose recurrences consist of modelled operations (vectors, inner products, matrix/preconditioner
# applications).  GMRES/FGMRES (Hessenberg arrays, Givens rotations, normalised Krylov basis stored in one
# container), IDRS (dense small matrices) and BiCGStabL (coefficient arrays initialised with the literal 1)
# are outside this engine and listed as not decided.
E6_SCOPE = {"PCG": [None], "PCR": [None], "PMR": [None], "Richardson": [None], "Chebyshev": [None],
            "BiCGStab": [("eq(_precon_variant,left)", True, "precon_variant=left"), ("eq(_precon_variant,left)", False, "precon_variant=right")],
            "RBiCGStab": [None], "PipePCG": [None],
            "GroppPCG": [None], "RGCR": [None], "PCGNR": [None], "PCGNRILU": [None]}
# a variant is (configuration atom in the canonical text of formula(), its truth, key suffix): BiCGStab is analysed once per
# preconditioning variant.  Further configuration atoms that an _apply_intern tests (fields the solver never writes while
# iterating, compared with enumerators / literals) are discovered by the engine and enumerated, at most E6_MAX_FREE of them.
E6_MAX_FREE = 3


def base_written_fields(facts):
    """fields of IterativeSolver that the defect-update protocol writes while a solver iterates"""
    out = set()
    todo, seen = list(UPD) + ["_calc_def_norm"], set()
    fns = {}
    for f in facts.functions:
        if short_cls(f.cls) in ("IterativeSolver", "PreconditionedIterativeSolver", "SolverBase") and f.tk in ("inst", "plain") and not f.d.get("ctor"):
            fns.setdefault(f.name, []).append(f)
    while todo:
        nm = todo.pop()
        if nm in seen:
            continue
        seen.add(nm)
        for f in fns.get(nm, [])[:1]:
            for n in f.nodes():
                t = None
                if n.get("k") == "Assign":
                    t = strip(n["lhs"])
                elif n.get("k") == "Un" and n.get("op") in ("++", "--"):
                    t = strip(n["e"])
                if isinstance(t, dict) and t.get("k") == "Member" and t.get("field"):
                    out.add(t["n"])
                if n.get("k") == "MCall" and (n.get("obj") is None or n["obj"].get("k") == "This") and not n.get("cconst") and not cname(n).startswith("set_"):
                    todo.append(cname(n))
    return out


_ENUM_CACHE = {}


def enumerators_of(type_name):
    """all enumerator names of an enum type declared in kernel/solver (read from the declaration in the sources); None if not found"""
    nm = strip_targs(type_name or "").rsplit("::", 1)[-1].strip()
    if not re.match(r"^\w+$", nm):
        return None
    if nm not in _ENUM_CACHE:
        import glob
        found = None
        for path in sorted(glob.glob(featlib.repo_path(SOLVER_DIR) + "*.hpp")):
            try:
                src = open(path, encoding="utf-8", errors="replace").read()
            except OSError:
                continue
            m = re.search(r"\benum\s+(?:class\s+|struct\s+)?%s\b[^{;]*\{([^}]*)\}" % re.escape(nm), src)
            if m:
                body = re.sub(r"/\*.*?\*/", " ", m.group(1), flags=re.S)
                body = re.sub(r"//[^\n]*", " ", body)
                found = [re.sub(r"\s*=.*$", "", x, flags=re.S).strip() for x in body.split(",")]
                found = [x for x in found if re.match(r"^\w+$", x)]
                break
        _ENUM_CACHE[nm] = found
    return _ENUM_CACHE[nm]


def rule_dimensions(ck, solvers, facts=None):
    import c07_dim
    extra = base_written_fields(facts) if facts is not None else {"_def_init", "_def_cur", "_def_prev", "_num_iter", "_num_stag_iter"}
    for sc in sorted(E6_SCOPE):
        fns = solvers.get(sc, {}).get("_apply_intern", [])
        if not fns:
            ck.incomplete("E6.dimension", "anchor %s::_apply_intern not instantiated" % sc)
            continue
        for variant in E6_SCOPE[sc]:
            key = "%s::_apply_intern" % sc + ("" if variant is None else "/" + variant[2])
            bad, nstm = [], 0
            for fn in fns:
                lo = Locals(fn)
                api = set(UPD) | {"_apply_precond", "_apply_precond_l", "_apply_precond_r", "_precond_l", "_precond_r", "apply", "correct", "_apply_intern", "name",
                                  "get_num_iter", "is_converged", "is_diverged", "plot_summary"}
                methods = {}
                for mname, mfl in solvers.get(sc, {}).items():
                    cand = [f for f in mfl if f.cls == fn.cls and f.cfg is not None and not f.d.get("ctor")]
                    if cand and mname not in api:
                        methods[mname] = cand[0]
                helpers = {"strip": strip, "objkey": objkey, "cname": cname, "Locals": Locals, "methods": methods, "formula": formula, "term": term,
                           "written_extra": extra, "root_fn": fn, "Paths": Paths}
                base = {variant[0]: variant[1]} if variant else {}
                # configurations: the variant of the key, refined by every further configuration atom the function tests
                first = c07_dim.DimFlow(fn, lo, helpers, assume=base).run()
                free = sorted(first.free_atoms)
                runs = [(base, first, True)]
                if free and len(free) <= E6_MAX_FREE:
                    runs = []
                    enums = {f: enumerators_of(t) for f, t in first.enum_fields.items()}
                    for bits in itertools.product((True, False), repeat=len(free)):
                        asm = dict(base)
                        asm.update(zip(free, bits))
                        possible = c07_dim.consistent_assume(asm, enums)
                        if possible is not False:
                            runs.append((asm, c07_dim.DimFlow(fn, lo, helpers, assume=asm).run(), possible))
                elif free:
                    first.opaque.append("%d configuration tests (%s ...), more than this rule enumerates" % (len(free), ", ".join(free[:3])))
                for asm, df, possible in runs:
                    cfgtxt = ("" if asm == base else " under {%s}" % ", ".join("%s=%s" % (a, "T" if v else "F") for a, v in sorted(asm.items()) if a not in base))
                    for u in sorted(set(df.unmodelled))[:4]:
                        ck.incomplete("E6.dimension", "%s [%s]%s: unmodelled %s" % (key, short_inst(fn), cfgtxt, u))
                    nstm = max(nstm, len(df.sys.sub))
                    if not df.stmt_conflicts:
                        continue
                    if possible is None:
                        df.opaque.append("an enum field assumed different from every tested enumerator (the enumerator list of its type was not found in the sources)")
                    if df.opaque:
                        # both sides of a test that may depend on the configuration were merged: the conflict may be an artefact
                        stn, what, h = df.stmt_conflicts[0]
                        ck.incomplete("E6.dimension", "%s [%s]%s: %s forces %s = 1, but the function branches on %s, which this rule cannot correlate with the configuration: "
                                      "the conflict may stem from merging two configurations" % (key, short_inst(fn), cfgtxt, what, c07_dim.f_str(h), "; ".join(df.opaque[:3])))
                        continue
                    culprits = []
                    # which single statement, if ignored, makes the system consistent again?
                    for n, owner in zip(df.evaluated, df.evaluated_in):
                        if n.get("k") == "Decl" and not any(is_call(x) or x.get("k") == "Bin" for x in walk(n)):
                            continue
                        d2 = c07_dim.DimFlow(fn, lo, helpers, assume=asm, skip=((owner, n["i"]),)).run()
                        if not d2.stmt_conflicts:
                            culprits.append("line %s `%s`" % (n.get("l"), render(n)[:60]))
                    for stn, what, h in df.stmt_conflicts[:1]:
                        bad.append(("consistent again if one of {%s} is ignored; " % "; ".join(culprits[:5]) if culprits else "") + "[%s]%s line %s `%s`: %s forces %s = 1 (X: solution space, B: right-hand-side space, [A] = B/X): quantities of different dimension are combined" % (
                            short_inst(fn), cfgtxt, (stn or {}).get("l"), render(stn)[:70] if stn else "?", what, c07_dim.f_str(h)))
                    if bad:
                        break
            ck.ob("E6.dimension", key, not bad, "; ".join(bad[:2]) if bad else "the %d equations of the recurrences are consistent" % nstm, fns[0].file, fns[0].line)


RULES = [
    ("E8.step-counter-balance", 2,
     "for every loop of an _apply_intern with an integer local that is incremented inside, declared outside and read after the loop (a count of performed steps) "
     "and std::vector members that grow by push_back inside it (GMRES and FGMRES inner Arnoldi loops: i with _c, _s, _q): symbolic length/counter dataflow; on "
     "every edge leaving the loop (condition and each break) counter and containers have advanced by the same number of steps as on entry. Broken => input class: "
     "runs leaving the loop through that exit (lucky breakdown, inner convergence): the update after the loop uses one basis vector too few."),
    ("E8.numeric-refresh", 7,
     "taint analysis of every init_numeric override (PCGNR, PCGNRILU, Chebyshev): each member whose value is computed from _system_matrix (directly or through "
     "locals / other derived members) is recomputed on every path, or only skipped under tests of configuration / loop control; if the recomputation is "
     "guarded by the derived member's own state (e.g. `if(X.empty())`), done_numeric() must release X on every path; own helpers that read the matrix are "
     "followed (their result and the members they derive are matrix-derived). Broken => history: init(); solve; "
     "done_numeric(); matrix values updated in place; init_numeric(); solve — the solver iterates with data of the old matrix."),
    ("E8.recurrence-sources", 16,
     "taint analysis of _apply_intern and its helpers: fields of the convergence control whose refresh a defect-update function may skip (computed from the "
     "paths of IterativeSolver::_set_new_defect/_update_defect: _def_cur is written only under `calc_def`, _def_prev is copied from it) are sources for every solver that "
     "calls that function; a tainted value - through locals, helper parameters / results, scalar members and std::vector members - must not be a scalar operand of a "
     "vector operation (axpy/scale/format/... or the matrix application). Feeding the protocol itself (is_converged, _def_prev, plotting) is allowed. Broken => "
     "settings min_iter >= max_iter with skip_defect_calc (the default), no plotting, no stagnation check: the recurrence uses a stale norm, the N-th iterate differs "
     "from the one of the same method run with min_iter = 0."),
    ("E8.workvec-defined", 16,
     "must-analysis over apply()/correct() and, entered with what they define, over _apply_intern and its helpers, on the first pass through the iteration (back "
     "edges removed, every loop body taken once, _num_iter propagated as a constant so that first-iteration branches are decided): every vector member (containers "
     "at container granularity) that is read - operand of axpy/scale/dot/norm/apply/_apply_precond/filter - has been given a value in this solve; members given a "
     "value by init_*/set-up functions, flag-guarded set-ups and recycled lists are exempt; create_vector/clone(Layout) only allocate. Broken => re-use: the first "
     "operation computes with what a previous (e.g. aborted) solve or the allocator left there: 0 * NaN poisons the next solve."),
    ("E8.recycled-state", 1,
     "std::vector members that the solve functions (apply, correct, _apply_intern and their helpers) extend by push_back with values computed from _system_matrix "
     "(taint analysis) and that no solve clears before use - the recycled direction lists of RGCR - are numeric state: done_numeric() or init_numeric() must clear "
     "them on every path. Broken => history: init(); solve; done_numeric(); matrix values updated in place; init_numeric(); solve - pairs (p, q = A_old p) of the "
     "old matrix are recycled: the run reports success on a recursively updated defect while the true residual is large."),
    ("E8.solution-defect-balance", 14,
     "in _apply_intern of 14 solvers: dataflow of the signed step lengths applied to the iterate (x.axpy(w, c)) and to the vector measured by the convergence "
     "control (r.axpy(Aw, -c)); a fresh r := rhs - A x resets. At every return that is not `Status::aborted` the two multisets cancel. Broken => input class: "
     "runs ending through that return (e.g. the BiCGStab half-step exit): the status and the reported defect belong to an iterate that was never returned."),
    ("E7.defect-filtered", 16,
     "typestate 'lies in the range of _system_filter.filter_def' for every vector of a solver (forward dataflow over apply()/correct() and, entered with the state "
     "they establish, over _apply_intern; own helpers followed; one run per preconditioning variant): filter_def and format(0) make a vector filtered, copy/scale "
     "inherit, axpy keeps it only if the added vector is filtered, operator / preconditioner applications and any other mutation make it unfiltered; the defect "
     "argument of apply() is filtered, the right-hand side of correct() is not. Obligation: the vector handed to _set_initial_defect/_set_new_defect and the vector "
     "whose norm is handed to _update_defect/is_converged/is_diverged is filtered at that point. Broken => input class: correct() (or solve()) with a UnitFilter "
     "carrying non-zero Dirichlet values / any filter that changes the right-hand side: the reported defect keeps the constrained components and never meets the tolerance."),
    ("E7.tested-defect-current", 16,
     "on the dataflow of E7.defect-filtered: a norm handed to is_converged / is_diverged (or _update_defect only through the explicit test overloads) must still be the norm of "
     "its vector - no statement modifies the vector between the point where the norm is taken and the test; the argument-less overloads is_converged() / is_diverged() "
     "test the cached _def_cur, which must then be the current norm of the defect vector: set by _set_initial_defect / _set_new_defect / _update_defect / `_def_cur = <norm>` "
     "and not followed by a modification of that vector. Broken => e.g. the half-step exit of (R)BiCGStab with min_iter > 0: success decided on the previous full step's "
     "defect while the half-step residual is above the tolerance."),
    ("E7.defect-fresh", 16,
     "between two consecutive defect measurements that count an iteration (_set_initial_defect / _set_new_defect of a vector; the point where the norm handed to "
     "_update_defect is taken) the measured vector is modified on every path (may-analysis on the same dataflow as E7.defect-filtered). Broken => the defect of one "
     "iterate is counted twice: _num_iter runs ahead of the iterate, and with min_stag_iter = 1 (stag_rate <= 1) the run ends 'stagnated' at once although the "
     "iteration converges."),
    ("E7.iterate-additive", 16,
     "_apply_intern is shared by apply() (x0 = 0) and correct() (x0 given): the iterate parameter is only updated by axpy; overwriting it with an operator applied "
     "to the whole iterate (x := M x) is a violation. Broken => correct() with a non-zero start vector returns T(x0 + y) instead of x0 + T(y)."),
    ("E8.validity-flag", 1,
     "a bool member that some member function sets to true together with filling a member object (IDRS::_shadow_space_setup / _vec_P) is reset to false on "
     "every path of each function that releases or reallocates that object (or, for init_symbolic, by done_symbolic). Broken => history: init(); solve; done(); "
     "init(); solve — the set-up is skipped and the reallocated object is used uninitialised."),
    ("E7.parallel-lists", 9,
     "std::vector<VectorType> fields of one solver that are subscripted with the same index (discovered by co-indexing: RGCR p_list/q_list, FGMRES _vec_v/_vec_z, "
     "IDRS _vec_P/_vec_dR/_vec_dX, BiCGStabL _vec_rj_hat/_vec_uj_hat) are parallel arrays. Symbolic length dataflow (push_back/emplace_back/pop_back/clear/"
     "resize(E) with size() evaluated at the point of the call, locals evaluated at their declaration) over every member that changes a length, directly or "
     "through own-method calls: init_symbolic sizes all lists from one common length; every other member leaves the length differences it found (or clears "
     "all), and no element is accessed / no length-changing own method is called while the lists are out of step. Broken => input class: re-use of one solver "
     "object (second solve after a correct()/apply() that recycled directions): entry k of one list is paired with entry k of another generation."),
    ("E6.dimension", 13,
     "units-of-measure inference on _apply_intern of 12 solvers (BiCGStab once per preconditioning variant): every vector/scalar gets a dimension over "
     "X (solution) and B (rhs) with [A] = B/X, [M^-1] = X/B, typing of axpy/scale/copy/dot/norm2/apply/_apply_precond by callee parameter names, one unknown "
     "per block entry and key, CFG edges as equations. The system must be consistent. Configuration-sensitive: tests of fields the solver never writes "
     "while iterating against enumerators/literals (BiCGStab _precon_variant) are atoms; the analysis runs once per assignment of the atoms and decides every use of "
     "such a test from the assignment - if/?:/switch/&&/|| terminators, an operand selected by ?:, const bool locals holding the test, re-assigned bool flags "
     "(constant propagation), bool parameters of inlined helpers, parameterless const predicates - so two configurations are never merged; a test that may "
     "depend on the configuration but cannot be decided turns a conflict into exit 2. Own helpers are analysed inline with the caller's state. "
     "Broken => wrong operand in an update (r.axpy(p,-alpha)), quotient of "
     "the wrong inner products: the recurrence is not the documented Krylov method although it may still converge on the test matrix."),
    ("E7.status-origin", 48,
     "per _apply_intern, three obligations (progress / undefined / literal): abstract interpretation of the Status locals over the CFG "
     "(value sets with origins, refined by `v ==/!= Status::X` branches). No return can yield Status::progress; Status::undefined is returned "
     "only on an infeasible tail; every literal terminal status is control-dependent on its cause: aborted on a failed _apply_precond* or a "
     "breakdown test (!isfinite / comparison of a locally computed scalar), success on the true edge of is_converged(.), diverged on is_diverged(.), "
     "max_iter/stagnated on a test of _max_iter / _min_stag_iter|_stag_rate. Broken => e.g. a run with zero initial defect or an exhausted "
     "iteration budget reports a status its defects do not justify."),
    ("E7.status-tested", 16,
     "a terminal (non-progress) status produced by _set_initial_defect/_set_new_defect/_update_defect is never overwritten by a later assignment "
     "of the status variable before it was returned. Broken => input class: initial defect already zero / below tol_abs_low / non-finite: the "
     "solver keeps iterating (dividing by zero inner products) and reports something else."),
    ("E7.precond-tested", 35,
     "every bool result of _apply_precond/_apply_precond_l/_r is a branch condition whose failure edge leads only to `return Status::aborted`; a private bool "
     "wrapper of the preconditioner call must return false on its failure (or return the result itself) and its call sites are held to the same rule. "
     "Broken => a failing preconditioner (inner solver diverged) leaves an undefined correction that is iterated on; the run may still say success."),
    ("E7.loop-defect-update", 16,
     "every trip round the loop controlled by the status variable passes an assignment status = _set_new_defect/_update_defect (inner counted loops "
     "are entered at least once). Broken => iterations that bypass min/max-iter, divergence and stagnation tests (input: any path taking the bypassing branch)."),
    ("E7.initial-defect-first", 16,
     "_set_initial_defect lies on every path from entry to the iteration loop and to every later defect update: _num_iter, _num_stag_iter, "
     "_def_init/_def_cur/_def_prev of a previous solve on the same object are reset (re-use). Broken => second solve on one object inherits iteration "
     "count and relative tolerance base of the first."),
    ("E7.defect-norm-object", 7,
     "scalars handed to _update_defect / is_converged / is_diverged inside _apply_intern are norm2 (or norm2_async().wait()) of the very vector "
     "that _set_initial_defect measured (the solver's defect vector). Broken => success is declared on the norm of a search direction / preconditioned "
     "residual while ||b-Ax|| misses the tolerance."),
    ("E7.status-forwarded", 32,
     "apply()/correct() return the status computed by _apply_intern (directly or through the single assignment of _status that dominates the return), "
     "also when the iteration and the common tail sit in one shared private helper (followed one level) or apply() formats and forwards to correct()."),
    ("E7.apply-ignores-start", 16,
     "apply(vec_cor, vec_def): vec_cor.format(0) dominates the iteration and every other use of vec_cor; the vector measured by _set_initial_defect is "
     "the copy of vec_def made by apply(). Broken => input class: caller passes an uninitialised / non-zero vec_cor (documented as allowed): the "
     "recurrences start from garbage while the defect assumes x0 = 0."),
    ("E7.correct-honours-start", 16,
     "correct(vec_sol, vec_rhs): no mutating call on vec_sol before the iteration; the defect vector is _system_matrix.apply(r<-defect, x<-vec_sol, "
     "y<-vec_rhs, alpha<- -1) (roles by callee parameter names) followed by _system_filter.filter_def(defect), both dominating _apply_intern(vec_sol). "
     "Broken => input class: non-zero initial guess: it is discarded or the initial defect belongs to another iterate."),
    ("E2.rhs-const", 42,
     "the right-hand side parameter of apply/correct/_apply_intern and of the two abstract interfaces is `const VectorType&` and is never the operand "
     "of a const/reinterpret/reference cast — with that the C++ type system rejects every mutating use, so the rhs is never modified."),
    ("E13.skip-defect-calc", 1,
     "IterativeSolver::_set_new_defect may leave out the norm computation (skip_defect_calc): path enumeration (helpers followed); on every path that does not write _def_cur the branch "
     "conditions mention configuration only - no field that the protocol writes while iterating (_num_iter, _def_*, _num_stag_iter) - and every consistent assignment of the atoms that takes "
     "the path has min_iter >= max_iter (fixed number of iterations: no status depends on the defect), min_stag_iter <= 0 and no iteration plot. Broken => in some iterations of a "
     "convergence-controlled run _analyse_defect judges the defect of an earlier iteration: a run converging exactly at max_iter returns 'max_iter', get_def_final() is stale."),
    ("E7.num-iter-once", 2,
     "_set_new_defect/_update_defect increment _num_iter exactly once on every path (path enumeration of the loop-free body). Broken => max_iter / "
     "min_iter limits are hit after half / never the configured number of iterations."),
    ("E7.defect-history", 2,
     "in _set_new_defect/_update_defect `_def_prev = _def_cur` precedes the single write of _def_cur (the new norm) on every path. Broken => the "
     "stagnation test compares the new defect with itself (always stagnating for stag_rate<=1)."),
    ("E1.analyse-roles", 2,
     "the status returned by _set_new_defect/_update_defect is _analyse_defect(num_iter<-_num_iter, def_cur<-_def_cur, def_prev<-_def_prev, "
     "check_stag<-true), roles by callee parameter names, evaluated after the state update."),
    ("E13.decision-table", 4,
     "truth tables of is_converged, is_diverged, _analyse_defect, _set_initial_defect (all CFG paths, canonical `le` atoms, field effects) equal the "
     "documented criteria transcribed in this file from the anchored doc comments, for every consistent assignment of the atoms. Statically bound own-class "
     "helpers (bool / Status / void, depth <= 3) are followed: their paths are spliced in with parameters bound to the caller's values, so a criterion or the "
     "stagnation bookkeeping extracted into a helper is decided exactly as before; switch and ?: are decision-table forms like if. Broken => e.g. "
     "defect == tol_abs (<= vs <), tol_abs/tol_abs_low swapped, max_iter tested before convergence, a helper called with swapped defects."),
    ("E13.monotone", 2,
     "is_converged is monotone increasing, is_diverged monotone decreasing under a decrease of def_cur (def_cur occurs only as the small side of <=)."),
    ("E13.inner-criteria", 4,
     "the inner (pseudo-residual) stopping tests replicated in GMRES/FGMRES::_apply_intern: decision table of the CFG region from the first test of a tolerance "
     "inside the inner Krylov loop to the loop head (iteration continues) or a loop exit (iteration stops), all paths, own helpers followed, products flattened: "
     "stops <=> is_diverged(D) (unscaled) or (_num_iter >= _min_iter and (is_converged(D) with every tolerance multiplied by _inner_res_scale or _num_iter >= _max_iter)) "
     "(class doc: 0<delta<1 = tighter inner tolerance, delta=0 = only the exact solution stops). Two obligations per solver (diverged part / converged part of "
     "the table). Independent of nesting, negation, De Morgan, named bools. Broken => copy/paste drift of the replicated formula (tol_abs_low/tol_abs swapped, "
     "unscaled term, < for <=, guard not negated)."),
    ("E13.min-iter-guard", 2,
     "every literal Status::success that a solver's _apply_intern (or a Status helper of it) produces itself - the half-step convergence exits of BiCGStab and "
     "RBiCGStab - is control-dependent on a test of _min_iter besides is_converged: _analyse_defect returns progress while num_iter < _min_iter before it tests "
     "convergence (iterative.hpp: 'minimum number of iterations'), so an own exit without that guard ends a run early. Broken => input class: min_iter larger "
     "than the number of iterations to convergence: success after fewer than min_iter iterations."),
    ("E13.guard-field", 2, "Status::max_iter is returned only under a test of _max_iter, Status::stagnated only under a test of _min_stag_iter/_stag_rate."),
    ("E13.status-success", 7, "status_success maps exactly {success, max_iter, stagnated} to true (one obligation per enumerator)."),
    ("E1.setter-field", 24, "each set_X(p) (and skip_defect_calc) stores its parameter into the field _X on every path (exceptions tabled with their doc)."),
    ("E1.getter-field", 14, "each field getter get_X() returns _X (get_def_initial/_final: _def_init/_def_cur as documented)."),
    ("E1.config-key-field", 24,
     "each PropertyMap key read by get_entry/query in a solver constructor is parsed/stored into the like-named field (or the field of set_<key>; "
     "polynomial_degree -> _l). Broken => a configured limit silently changes a different criterion (e.g. 'stag_rate' overwriting _div_rel)."),
]


def run(tier):
    ck = Check("C07", tier)
    for name, mi, doc in RULES:
        ck.rule(name, doc, mi)
    thorough = (tier == "thorough")
    facts = featlib.extract("tu/c07_solvers.cpp", files=featlib.repo_path(SOLVER_DIR), extra=(("-DC07_THOROUGH",) if thorough else ()))
    ck.tu(facts)
    bad = facts.errors_outside_repo()
    if bad:
        ck.incomplete("E7.status-origin", "driver tu/c07_solvers.cpp no longer matches the API: %s:%d %s" % (bad[0]["file"], bad[0]["line"], bad[0]["msg"]))
    for e in facts.errors_in_repo()[:5]:
        ck.incomplete("E7.status-origin", "front-end error inside the repository while instantiating the solvers: %s:%d %s" % (rel(e["file"]), e["line"], e["msg"]))
    solvers = find_solver_functions(facts)
    del _LAMBDAS[:]
    _LAMBDAS.extend(f for f in facts.functions if "<lambda@" in f.qn)
    if thorough:
        f2 = featlib.extract(featlib.repo_path(SOLVER_DIR + "basic_solver-test.cpp"), files=featlib.repo_path(SOLVER_DIR))
        ck.tu(f2)
        for sc, members in find_solver_functions(f2).items():
            for m, fl in members.items():
                have = {f.cls for f in solvers.get(sc, {}).get(m, [])}
                for f in fl:
                    if f.cls not in have:
                        solvers.setdefault(sc, {}).setdefault(m, []).append(f)
                        have.add(f.cls)
    cv = callee_value_sets(facts, ck)
    rule_status_protocol(ck, solvers, cv)
    rule_defect_update(ck, facts)
    rule_decision_tables(ck, facts)
    rule_status_success(ck, facts)
    rule_apply_correct(ck, solvers)
    rule_rhs_const(ck, facts, solvers)
    rule_config(ck, facts)
    rule_dimensions(ck, solvers, facts)
    rule_inner_criteria(ck, solvers, facts)
    rule_parallel_lists(ck, solvers)
    rule_numeric_refresh(ck, solvers)
    rule_recycled_state(ck, solvers)
    rule_solution_defect_balance(ck, solvers, cv)
    rule_iterate_additive(ck, solvers)
    rule_defect_filtered(ck, solvers, facts)
    rule_workvec_defined(ck, solvers)
    rule_recurrence_sources(ck, solvers, facts)
    rule_validity_flags(ck, solvers)
    rule_step_counters(ck, solvers)
    ck.assume("comparisons are over a total order (a<b == !(b<=a)): NaN defects are excluded by the isfinite tests that the decision tables show to come first")
    ck.assume("virtual calls resolve to the statically named callee: none of the 16 solvers overrides _set_initial_defect/_set_new_defect/_update_defect/_analyse_defect/_calc_def_norm")
    ck.assume("inner counted loops of _apply_intern run at least once (krylov_dim, l >= 1 are asserted by the constructors/setters)")
    ck.assume("oracle tables are transcriptions of the doc comments listed in ANCHORS (iterative.hpp, base.hpp); a changed anchor text is exit 2")
    ck.assume("E7.defect-filtered: filter_def is a linear projection (UnitFilter, mean / slip filters), so its range is closed under axpy/scale/copy; the defect handed to apply() is filtered, "
              "the right-hand side handed to correct() is not; only writes are judged (a work vector holds what this solve wrote into it)")
    ck.assume("E8.workvec-defined: every loop body runs at least once on the first pass; a value stored into one element of a vector container defines the container")
    ck.assume("E6: non-zero numeric literals are dimensionless, 0/eps/huge are polymorphic; [A^T] = [A]; the split preconditioners of PCGNR/PCGNRILU have free scalings")
    ck.note("not decided: numerical attainment of the tolerance by the true residual, convergence to the reference solution, bitwise equality of repeated solves; "
            "E6 for GMRES, FGMRES, IDRS, BiCGStabL (Hessenberg/Givens arrays, dense small matrices, coefficient arrays seeded with the literal 1: outside the dimension engine) "
            "and sign / dimensionless-factor errors in any recurrence; definedness of solver temporaries beyond the first pass through the iteration and of single container elements (E8.workvec-defined works at container granularity); the iteration counting of the inner (F)GMRES iterations")
    return ck.finish(
        "All members of the 16 iterative solver classes are instantiated by tu/c07_solvers.cpp (CSR<double,u64>+UnitFilter; Global::Matrix/Filter for the three "
        "solvers needing async reductions; thorough adds BCSR<float,u32,2,2>, blocked filters and the instantiations of basic_solver-test.cpp) and analysed on "
        "their clang CFGs: the Status protocol of every _apply_intern by abstract interpretation, the base-class stopping predicates by exhaustive path/truth-table "
        "comparison with the documented criteria, apply/correct start-vector and defect-vector discipline, const-ness of right-hand sides, and the "
        "key/setter/getter -> field wiring of the configuration. No FEAT3 code is executed.",
        trusted_base=["clang 14 front end (AST, template instantiation, CFG)", "featx plugin fact extraction",
                      "oracle tables and exception tables in checks/c07.py, transcribed from kernel/solver/iterative.hpp and base.hpp doc comments"])
