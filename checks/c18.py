"""C18 — prolongation / restriction / truncation.

Static clauses decided (DESIGN §4 C18), all on the resolved program (clang facts), none on text:
  1. LAFEM::Transfer / Global::Transfer apply the matching matrix in the right direction and delegate with
     method parity, muxer join/split and sync_0 as documented            (rules E1.*, E4.*)
  2. the stored restriction is the transpose of the stored prolongation, taken after its last
     modification, on every path, in every assembly entry point           (rules E8.*, E4.compose-parity)
  3. GridTransfer assemblers: index kinds of the child-cell loop, scatter roles, weights, M^-1*N
                                                                             (rules E2.*, E1.*, E7.*)
  4. assembled vs matrix-free route: cross-reference note only.
"""
import re

import featlib
from featlib import Check, walk, render, is_call, rel
import dfl
import norm_c13 as norm
from dfl import Resolver, Path, short, strip_targs, last_comp, callee_name, is_nonconst_ref

R = featlib.repo_path
KINDS = ("prol", "rest", "trunc")
ACCESSOR = {"get_mat_prol": "prol", "get_mat_rest": "rest", "get_mat_trunc": "trunc"}
TRANSFER_CLS = re.compile(r"^FEAT::(LAFEM|Global)::Transfer$")


def is_transfer_cls(cls):
    return bool(TRANSFER_CLS.match(strip_targs(cls or "")))


def clskey(fn):
    """stable short key of a class instantiation"""
    c = fn.cls
    c = c.replace("ScalarMatrix", "FEAT::LAFEM::SparseMatrixCSR<double>")
    c = c.replace("BlockedMatrix", "FEAT::LAFEM::SparseMatrixBWrappedCSR<double, unsigned long, 2>")
    return short(c)


def stmt_calls(fn):
    """all call-like nodes of a function body"""
    return [n for n in dfl.own_nodes(fn) if is_call(n)]


# =====================================================================================================
# clause 1: transfer operator classes
# =====================================================================================================

def field_of_accessor(facts, cls):
    """kind -> field name, read from the accessors get_mat_<kind> of one LAFEM::Transfer instantiation"""
    out = {}
    for f in facts.functions:
        if f.cls != cls or f.name not in ACCESSOR or f.tk == "pattern":
            continue
        rets = [n for n in walk(f.body) if n.get("k") == "Return"]
        if len(rets) != 1 or rets[0].get("e") is None:
            continue
        e = rets[0]["e"]
        if e.get("k") == "Member" and e.get("field") and (e.get("b") is None or e["b"].get("k") == "This"):
            out.setdefault(ACCESSOR[f.name], set()).add(e["n"])
    return out


def check_lafem_transfer(ck, facts):
    # classes whose operations are instantiated (explicit instantiation in the driver / used by a repo TU)
    classes = sorted({f.cls for f in facts.functions if strip_targs(f.cls) == "FEAT::LAFEM::Transfer" and f.tk != "pattern" and f.name in KINDS})
    if not classes:
        ck.incomplete("E1.transfer-apply", "no instantiation of LAFEM::Transfer found")
    for cls in classes:
        fields = field_of_accessor(facts, cls)
        fns = [f for f in facts.functions if f.cls == cls and f.tk != "pattern"]
        ckey = clskey(fns[0])
        okf = all(k in fields and len(fields[k]) == 1 for k in KINDS) and len({next(iter(fields[k])) for k in KINDS if k in fields}) == 3
        if not all(k in fields for k in KINDS):
            ck.incomplete("E1.transfer-accessors", "%s: accessor get_mat_%s does not return a member directly (shape not recognised)" % (ckey, "/".join(k for k in KINDS if k not in fields)))
            continue
        ck.ob("E1.transfer-accessors", ckey, okf,
              "get_mat_prol/rest/trunc (const and non-const) return three distinct fields: %s" % {k: sorted(v) for k, v in fields.items()},
              fns[0].file, fns[0].line)
        if not okf:
            continue
        fld = {k: next(iter(v)) for k, v in fields.items()}
        kind_of_field = {v: k for k, v in fld.items()}
        # direction table: positions are the calling convention used by the multigrid (fine, coarse)
        for meth, out_pos in (("prol", 0), ("rest", 1), ("trunc", 1)):
            cand = [f for f in fns if f.name == meth]
            if len(cand) != 1:
                ck.incomplete("E1.transfer-apply", "%s::%s: %d definitions" % (ckey, meth, len(cand)))
                continue
            f = cand[0]
            key = "%s::%s" % (ckey, meth)
            if len(f.params) != 2:
                ck.incomplete("E1.transfer-apply", key + ": signature is not (vec_fine, vec_coarse)")
                continue
            t_out = f.type(f.params[out_pos]["t"])
            t_in = f.type(f.params[1 - out_pos]["t"])
            sig_ok = is_nonconst_ref(t_out) and not is_nonconst_ref(t_in)
            rs = Resolver(f)
            d_out, d_in = f.params[out_pos]["d"], f.params[1 - out_pos]["d"]
            applies = []
            other_writes = []
            p_out, p_in = dfl.Path((("param", d_out),)), dfl.Path((("param", d_in),))
            for c in stmt_calls(f):
                if c.get("noreturn") or c.get("callee") in ("FEAT::assertion",) or c.get("callee") in dfl.MOVE_FNS:
                    continue
                touches_out = any(pt_ is not None and is_nonconst_ref(pt_) and rs.path(a).startswith(p_out) for a, pn_, pt_ in dfl.call_args_with_params(c, f))
                if c.get("k") == "MCall" and callee_name(c) == "apply":
                    applies.append(c)
                elif touches_out:
                    other_writes.append(c)
            detail = []
            ok = sig_ok
            if other_writes or (not applies and any(is_call(c) and not c.get("noreturn") and c.get("callee") != "FEAT::assertion" for c in stmt_calls(f))):
                # the result may be produced by a helper / another callee that this rule does not model
                ck.incomplete("E1.transfer-apply", "%s: result vector handled by %s, which is not modelled" % (key, ", ".join(render(c)[:60] for c in (other_writes or stmt_calls(f)[:2]))))
                continue
            if not sig_ok:
                detail.append("parameter %d must be the (non-const) result and parameter %d the const input" % (out_pos, 1 - out_pos))
            if len(applies) != 1:
                ok = False
                detail.append("%d matrix apply calls (expected exactly 1)" % len(applies))
            else:
                c = applies[0]
                obj = c.get("obj") or {}
                op = rs.path(obj)
                fname = op.steps[1][1] if len(op.steps) == 2 and op.steps[0] == ("this",) and op.steps[1][0] == "field" else None
                if kind_of_field.get(fname) != meth:
                    ok = False
                    detail.append("applies %s (the %s matrix), expected the field returned by get_mat_%s" % (render(obj), kind_of_field.get(fname, "?"), meth))
                a_r = dfl.arg_by_param(c, "r")
                a_x = dfl.arg_by_param(c, "x")
                if len(c.get("a", [])) != 2 or a_r is None or a_x is None:
                    ok = False
                    detail.append("apply is not the 2-operand form r <- A*x")
                else:
                    if rs.path(a_r) != p_out:
                        ok = False
                        detail.append("result operand r is %s, expected parameter %d" % (render(a_r), out_pos))
                    if rs.path(a_x) != p_in:
                        if rs.path(a_x) == p_out or kind_of_field.get((rs.path(a_x).steps[1:2] or [("", "")])[0][1]) or rs.path(a_x).steps[:1] == (("param", d_in),):
                            ok = False
                            detail.append("input operand x is %s, expected parameter %d" % (render(a_x), 1 - out_pos))
                        else:
                            ck.incomplete("E1.transfer-apply", "%s: input operand %s of the apply is not the input parameter itself (derived value not modelled)" % (key, render(a_x)))
                            continue
            cfg = f.cfg
            if cfg is not None and applies:
                aid = applies[0]["i"]
                mp, bad = cfg.must_pass(lambda n: n.get("i") == aid)
                if not mp:
                    ok = False
                    detail.append("a path reaches a normal return without the apply")
            ck.ob("E1.transfer-apply", key, ok, "; ".join(detail) or "%s <- %s * %s" % (f.params[out_pos]["n"], fld[meth], f.params[1 - out_pos]["n"]),
                  f.file, f.line, sample={"matrix": fld[meth], "result_param": out_pos})
        # the three fields travel together: constructors and clone keep position <-> kind
        pos_kind = None
        for f in fns:
            if f.d.get("ctor") and len(f.params) == 3 and all("Transfer" not in f.type(p["t"]) for p in f.params):
                m = {}
                for ini in f.d.get("inits") or []:
                    src = [x for x in walk(ini.get("init")) if x.get("k") == "Ref" and x.get("dk") == "param"]
                    if ini.get("member") in kind_of_field and len(src) == 1:
                        m[[p["d"] for p in f.params].index(src[0]["d"])] = kind_of_field[ini["member"]]
                if len(m) == 3:
                    pos_kind = m
        if pos_kind is None:
            ck.incomplete("E1.transfer-triple", ckey + ": 3-matrix constructor not recognised")
            continue
        for f in fns:
            key = "%s::%s/%d" % (ckey, f.name, len(f.params))
            if f.d.get("ctor") and f.d.get("inits"):
                pairs = []
                for ini in f.d.get("inits") or []:
                    if ini.get("member") not in kind_of_field:
                        continue
                    want = kind_of_field[ini["member"]]
                    got = None
                    for x in walk(ini.get("init")):
                        if x.get("k") == "Ref" and x.get("dk") == "param" and len(f.params) in (2, 3) and "Transfer" not in f.type(f.params[0]["t"]):
                            got = pos_kind.get([p["d"] for p in f.params].index(x["d"]))
                        elif x.get("k") == "Member" and x.get("n") in kind_of_field and x.get("b") is not None and x["b"].get("k") != "This":
                            got = kind_of_field[x["n"]]
                    if got is not None:
                        pairs.append((want, got))
                if pairs:
                    bad = [p for p in pairs if p[0] != p[1]]
                    ck.ob("E1.transfer-triple", key, not bad, "field <- source kinds %s" % pairs, f.file, f.line)
            elif f.name in ("operator=",):
                pairs = []
                for n in walk(f.body):
                    if n.get("k") in ("Assign", "OpCall") and (n.get("op") == "="):
                        lhs = n.get("lhs") if n.get("k") == "Assign" else (n.get("a") or [None])[0]
                        rhs = n.get("rhs") if n.get("k") == "Assign" else (n.get("a") or [None, None])[1]
                        if lhs is not None and lhs.get("k") == "Member" and lhs.get("n") in kind_of_field:
                            got = [x["n"] for x in walk(rhs) if x.get("k") == "Member" and x.get("n") in kind_of_field]
                            pairs.append((kind_of_field[lhs["n"]], kind_of_field[got[0]] if len(got) == 1 else "?"))
                if pairs:
                    if any(p[1] == "?" for p in pairs) or len(pairs) != 3:
                        ck.incomplete("E1.transfer-triple", "%s: source of a member assignment not recognised (%s)" % (key, pairs))
                        continue
                    bad = [p for p in pairs if p[0] != p[1]]
                    ck.ob("E1.transfer-triple", key, not bad, "field <- source kinds %s" % pairs, f.file, f.line)
            elif f.name == "convert" and len(f.params) == 1:
                pairs = []
                od = f.params[0]["d"]
                for c in stmt_calls(f):
                    if c.get("k") == "MCall" and callee_name(c) == "convert" and (c.get("obj") or {}).get("k") == "Member" and c["obj"].get("n") in kind_of_field and len(c.get("a", [])) == 1:
                        a0 = c["a"][0]
                        got = "?"
                        st0 = Resolver(f).path(a0).steps
                        if len(st0) == 2 and st0[0] == ("param", od) and st0[1][0] == "call" and st0[1][1] in ACCESSOR:
                            got = ACCESSOR[st0[1][1]]
                        elif len(st0) == 2 and st0[0] == ("param", od) and st0[1][0] == "field" and st0[1][1] in kind_of_field:
                            got = kind_of_field[st0[1][1]]
                        pairs.append((kind_of_field[c["obj"]["n"]], got))
                if pairs:
                    key = "%s::convert" % ckey
                    if any(p_[1] == "?" for p_ in pairs):
                        ck.incomplete("E1.transfer-triple", "%s: source of a member conversion not recognised (%s)" % (key, pairs))
                        continue
                    bad = [p_ for p_ in pairs if p_[0] != p_[1]]
                    ck.ob("E1.transfer-triple", key, not bad and len(pairs) == 3, "member <- converted source kinds %s%s" % (pairs, "" if len(pairs) == 3 else " (not all three matrices are converted)"), f.file, f.line)
            elif f.name == "clone":
                cons = [n for n in walk(f.body) if n.get("k") in ("Construct", "TempObj") and strip_targs(n.get("ccls", "")) == "FEAT::LAFEM::Transfer" and len(n.get("a", [])) == 3]
                if len(cons) != 1:
                    ck.incomplete("E1.transfer-triple", key + ": clone does not build the result with the 3-matrix constructor")
                    continue
                pairs = []
                for i, a in enumerate(cons[0]["a"]):
                    got = [x["n"] for x in walk(a) if x.get("k") == "Member" and x.get("n") in kind_of_field]
                    pairs.append((pos_kind[i], kind_of_field[got[0]] if len(got) == 1 else "?"))
                if any(p[1] == "?" for p in pairs):
                    ck.incomplete("E1.transfer-triple", "%s: argument of the constructor call in clone() not recognised (%s)" % (key, pairs))
                    continue
                bad = [p for p in pairs if p[0] != p[1]]
                ck.ob("E1.transfer-triple", key, not bad, "constructor slot <- cloned field kinds %s" % pairs, f.file, f.line)


# ---- Global::Transfer ---------------------------------------------------------------------------------

after_on_all_paths = dfl.after_on_all_paths


def vec_id(n, rs=None):
    """('local', d) for P.local() of a parameter, ('field', name) for a member of this, else None (reference locals resolved)"""
    if n is None:
        return None
    if rs is not None:
        p = rs.path(n)
        if len(p.steps) == 2 and p.steps[0][0] == "param" and p.steps[1][0] == "call" and p.steps[1][1] == "local":
            return ("local", p.steps[0][1])
        if len(p.steps) == 2 and p.steps[0] == ("this",) and p.steps[1][0] == "field":
            return ("field", p.steps[1][1])
        return None
    if n.get("k") == "MCall" and callee_name(n) == "local" and (n.get("obj") or {}).get("k") == "Ref" and n["obj"].get("dk") == "param":
        return ("local", n["obj"]["d"])
    if n.get("k") == "Member" and n.get("field") and (n.get("b") is None or n["b"].get("k") == "This"):
        return ("field", n["n"])
    return None


GLOBAL_METHODS = {
    # method: (local method, index of result global vector or None, has coarse param)
    "prol": ("prol", 0), "prol_recv": ("prol", 0),
    "rest": ("rest", 1), "trunc": ("trunc", 1),
    "rest_send": ("rest", None), "trunc_send": ("trunc", None),
}


def opaque_call(f, rs, c):
    """a call that may perform part of a member function's protocol out of sight: an own member helper (const or not: buffers are mutable members), a free function
    receiving an object by non-const reference or a closure, or the invocation of a local closure"""
    if c.get("k") == "MCall" and (c.get("obj") is None or c["obj"].get("k") == "This") and is_transfer_cls(c.get("ccls")) and callee_name(c) not in ACCESSOR:
        return True
    if dfl.lambda_body_of(rs, c) is not None:
        return True
    if c.get("k") == "OpCall" and c.get("op") == "()" and "lambda" in (c.get("ccls") or "") + (c.get("callee") or ""):
        return True
    if c.get("k") in ("Call", "MCall") and any(a_.get("k") == "Lambda" for a_ in c.get("a", [])):
        return True
    if c.get("k") == "Call" and any(pt_ is not None and is_nonconst_ref(pt_) for a_, pn_, pt_ in dfl.call_args_with_params(c, f)):
        return True
    return False


def check_global_transfer(ck, facts):
    classes = sorted({f.cls for f in facts.functions if strip_targs(f.cls) == "FEAT::Global::Transfer" and f.tk != "pattern" and f.name in GLOBAL_METHODS})
    if not classes:
        ck.incomplete("E4.global-delegate", "no instantiation of Global::Transfer found")
    for cls in classes:
        fns = [f for f in facts.functions if f.cls == cls and f.tk != "pattern"]
        ckey = clskey(fns[0])
        # accessor forwarding keeps the kind
        for f in fns:
            if f.name in ACCESSOR:
                rets = [n for n in walk(f.body) if n.get("k") == "Return" and n.get("e") is not None]
                ok = len(rets) == 1 and rets[0]["e"].get("k") == "MCall" and callee_name(rets[0]["e"]) == f.name and is_transfer_cls(rets[0]["e"].get("ccls"))
                ck.ob("E4.global-accessors", "%s::%s%s" % (ckey, f.name, "/const" if f.d.get("const") else ""), ok,
                      "returns %s" % (render(rets[0]["e"]) if rets else "?"), f.file, f.line)
        for meth, (lmeth, out_pos) in GLOBAL_METHODS.items():
            cand = [f for f in fns if f.name == meth]
            if len(cand) != 1:
                ck.incomplete("E4.global-delegate", "%s::%s: %d definitions" % (ckey, meth, len(cand)))
                continue
            f = cand[0]
            key = "%s::%s" % (ckey, meth)
            cfg = f.cfg
            rs = Resolver(f)
            detail = []
            ok = True
            pd = [p["d"] for p in f.params]
            fine = ("local", pd[0])
            coarse = ("local", pd[1]) if len(pd) > 1 else None
            locs = [c for c in stmt_calls(f) if c.get("k") == "MCall" and strip_targs(c.get("ccls", "")) == "FEAT::LAFEM::Transfer"
                    and callee_name(c) in ("prol", "rest", "trunc", "prol_recv", "rest_send", "trunc_send", "prol_cancel")]
            # callees that may do part of the protocol (own member helpers, functions receiving a vector of this function mutably): a verdict
            # "X is missing" is definite only if there is none (otherwise: not modelled -> the run with helpers inlined decides)
            opaque = [c for c in stmt_calls(f) if c not in locs and not c.get("noreturn") and c.get("callee") != "FEAT::assertion" and c.get("callee") not in dfl.MOVE_FNS
                      and opaque_call(f, rs, c)]
            undecided = []
            if not locs:
                # anything that could do the work: a callee that is not a const accessor of some other object — own members of any constness (the class's buffers are
                # mutable), callees receiving a vector / closure, invoked closures
                eff = [c for c in stmt_calls(f) if not c.get("noreturn") and c.get("callee") != "FEAT::assertion" and c.get("callee") not in dfl.MOVE_FNS and (
                    not c.get("cconst") or opaque_call(f, rs, c))]
                if eff:
                    ck.incomplete("E4.global-delegate", "%s: no direct call of the local transfer operator; the work may be done by %s, which is not modelled" % (key, render(eff[0])[:60]))
                else:
                    ck.ob("E4.global-delegate", key, False, "the function neither calls the local transfer operator nor any other callee: the result vector is never written", f.file, f.line)
                continue
            for c in locs:
                where = "call %s" % render(c)[:90]
                if callee_name(c) != lmeth:
                    ok = False
                    detail.append("%s: calls local %s, method parity requires %s" % (where, callee_name(c), lmeth))
                    continue
                a = c.get("a", [])
                if len(a) != 2:
                    ok = False
                    detail.append(where + ": not (fine, coarse)")
                    continue
                if vec_id(a[0], rs) is None:
                    ck.incomplete("E4.global-delegate", "%s: %s: fine operand %s not recognised" % (key, where, render(a[0])))
                    continue
                if vec_id(a[0], rs) != fine:
                    ok = False
                    detail.append("%s: fine operand is %s, expected the local part of parameter 0" % (where, render(a[0])))
                buf = vec_id(a[1], rs)
                if buf is None:
                    ck.incomplete("E4.global-delegate", "%s: %s: coarse operand %s not recognised" % (key, where, render(a[1])))
                    continue
                if buf == coarse:
                    pass
                elif buf[0] == "field":
                    # coarse-side data goes through the muxer
                    def mux(name):
                        return [m for m in stmt_calls(f) if m.get("k") == "MCall" and strip_targs(m.get("ccls", "")) == "FEAT::Global::Muxer" and callee_name(m) == name]
                    if lmeth == "prol":
                        want = "split" if coarse is not None else "split_recv"
                        good = []
                        for m in mux(want):
                            trg = vec_id(dfl.arg_by_param(m, "vec_trg"), rs)
                            src = vec_id(dfl.arg_by_param(m, "vec_src"), rs) if want == "split" else None
                            if trg == buf and (want == "split_recv" or src == coarse) and cfg.stmt_dominates(m["i"], c["i"]):
                                good.append(m)
                        if not good:
                            msg_ = "%s: prolongates buffer %s which is not filled by muxer %s(vec_trg=%s%s) on every path before" % (
                                where, buf[1], want, buf[1], ", vec_src=coarse" if want == "split" else "")
                            if opaque:
                                undecided.append(msg_)
                            else:
                                ok = False
                                detail.append(msg_)
                    else:
                        want = "join" if out_pos is not None else "join_send"

                        def is_join(m, want=want, buf=buf):
                            if not (m.get("k") == "MCall" and strip_targs(m.get("ccls", "")) == "FEAT::Global::Muxer" and callee_name(m) == want):
                                return False
                            if vec_id(dfl.arg_by_param(m, "vec_src"), rs) != buf:
                                return False
                            return want == "join_send" or vec_id(dfl.arg_by_param(m, "vec_trg"), rs) == coarse
                        if not after_on_all_paths(f, c, is_join):
                            msg_ = "%s: buffer %s is not handed to muxer %s(vec_src=%s%s) on every path afterwards" % (
                                where, buf[1], want, buf[1], ", vec_trg=coarse" if want == "join" else "")
                            if opaque:
                                undecided.append(msg_)
                            else:
                                ok = False
                                detail.append(msg_)
                else:
                    ok = False
                    detail.append("%s: coarse operand is %s" % (where, render(a[1])))
                if out_pos is not None:
                    od = pd[out_pos]

                    def is_sync(m, od=od):
                        return m.get("k") == "MCall" and callee_name(m) == "sync_0" and m.get("obj") is not None and rs.path(m["obj"]).steps == (("param", od),)
                    if not after_on_all_paths(f, c, is_sync):
                        other = dfl.unmodelled_mutable_uses(f, rs, dfl.Path((("param", od),)), after=c, modelled=("sync_0", "local", "join", "split", "split_recv")) or opaque
                        if other:
                            ck.incomplete("E4.global-delegate", "%s: no sync_0 on the result after %s, but the result is handed to %s which is not modelled" % (key, where, render(other[0])[:60]))
                            continue
                        ok = False
                        detail.append("%s: result vector (parameter %d) is not synchronised by sync_0 on every path afterwards" % (where, out_pos))
                # no second local transfer application after this one
                for c2 in locs:
                    if c2 is not c and cfg.stmt_dominates(c["i"], c2["i"]):
                        ok = False
                        detail.append("two local transfer applications on one path")
            ids = {c["i"] for c in locs}
            mp, bad = cfg.must_pass(lambda n: n.get("i") in ids)
            if not mp:
                if opaque:
                    undecided.append("a path reaches a normal return without a direct application of the local operator")
                else:
                    ok = False
                    detail.append("a path reaches a normal return without applying the local operator")
            if undecided and ok:
                ck.incomplete("E4.global-delegate", "%s: %s; part of the protocol may be done by %s, which is not modelled" % (key, "; ".join(undecided)[:300], render(opaque[0])[:50]))
                continue
            ck.ob("E4.global-delegate", key, ok, "; ".join(detail) or "%d local %s call(s), muxer/sync protocol as documented" % (len(locs), lmeth),
                  f.file, f.line, sample={"local_calls": [render(c)[:100] for c in locs]})


# =====================================================================================================
# clause 2: the stored restriction is the transpose of the stored prolongation
# =====================================================================================================

VALUE_CLONE_MODES = ("Shallow", "Deep", "Weak", "Allocate?")   # Layout copies no values


def split_kind(p):
    """(base steps, kind, suffix steps) of a path through Transfer::get_mat_<kind>(), else None.
    Global::Transfer::get_mat_X forwards to local().get_mat_X (checked by E4.global-accessors): both spellings are one object."""
    for i, st in enumerate(p.steps):
        if st[0] == "call" and st[1].split("(")[0] in ACCESSOR and TRANSFER_CLS.match(st[3] or ""):
            base = p.steps[:i]
            if base and base[-1][0] == "call" and base[-1][1] == "local" and base[-1][3] == "FEAT::Global::Transfer":
                base = base[:-1]
            return (base, ACCESSOR[st[1].split("(")[0]], p.steps[i + 1:])
    return None


def related(s1, s2):
    n = min(len(s1), len(s2))
    return s1[:n] == s2[:n]


def clone_mode(call):
    for a in call.get("a", []):
        for x in walk(a):
            if x.get("k") == "Ref" and x.get("dk") == "enum" and "CloneMode" in (x.get("qn") or ""):
                return x["qn"].rsplit("::", 1)[-1]
    # default argument of clone()/clone(x): look at the parameter default is not visible -> Weak is the documented default
    return "Weak"


KNOWN_MUTATORS = ("format", "scale_rows", "scale_cols", "scale", "shrink", "clear", "convert", "clone", "transpose", "operator=", "axpy", "copy",
                  "permute", "add_double_mat_product", "set_line", "resize")
KNOWN_WRITERS = re.compile(r"^FEAT::(Assembly::GridTransfer::(assemble_|prolongate_)|Assembly::SymbolicAssembler::assemble_|Control::Asm::VoxelAux::deslag_|Assembly::.*::assemble)")


class Ev:
    __slots__ = ("kind", "path", "src", "node", "mode", "definite")

    def __init__(self, kind, path, node, src=None, mode=None, definite=True):
        self.kind, self.path, self.node, self.src, self.mode, self.definite = kind, path, node, src, mode, definite


def classify_rhs(rs, rhs):
    """value origin of an assigned expression: ('transpose', path) | ('clone', path, mode) | ('opaque', text)"""
    n = rhs
    for _ in range(6):
        if n is None:
            break
        if n.get("k") == "Call" and n.get("callee") in dfl.MOVE_FNS and n.get("a"):
            n = n["a"][0]
            continue
        if n.get("k") in ("Construct", "TempObj") and len(n.get("a", [])) == 1 and (n.get("move") or n.get("copy") or (n.get("pn") == ["other"])):
            n = n["a"][0]
            continue
        break
    if n is not None and n.get("k") == "MCall":
        nm = callee_name(n)
        if nm == "transpose" and len(n.get("a", [])) == 0:
            return ("transpose", rs.path(n.get("obj") or {"k": "This"}), None)
        if nm == "clone" and len(n.get("a", [])) <= 1:
            return ("clone", rs.path(n.get("obj") or {"k": "This"}), clone_mode(n))
    if n is not None and n.get("k") == "Ref" and n.get("dk") == "local":
        v = rs.var(n.get("d"))
        if v is not None and not v.get("ref"):
            return ("temp", rs.path(n), n.get("d"))       # a named temporary: its value is tracked by the typestate
    return ("opaque", None, render(rhs)[:80])


lambda_body_of = dfl.lambda_body_of
lambda_touched_paths = dfl.lambda_touched_paths


def function_events(fn):
    """per CFG block the ordered list of store / modify / rebind events of a function"""
    rs = Resolver(fn)
    par = dfl.parents(fn)
    cfg = fn.cfg
    blocks = {}
    if cfg is None:
        return rs, blocks

    def path_use(n):
        """the call's value is used (accessor forming a longer access path / an operand), i.e. the call is not in
        statement position; member calls that modify their receiver are written as statements in this code base"""
        pr = par.get(id(n))
        if pr is None:
            return False
        pn, slot = pr
        k = pn.get("k")
        if k in ("Block", "OMP", "Case", "Default", "Switch", "Try"):
            return False
        if k in ("If", "For", "While", "Do", "ForRange"):
            return slot in ("c",)
        return True

    # Var nodes are children of Decl; find ref-var initialisers
    ref_inits = set()
    for d, v in rs.vars.items():
        if v.get("ref") and v.get("init") is not None:
            ref_inits.add(id(v["init"]))
            if v["init"].get("k") == "Cond":
                ref_inits.add(id(v["init"]["then"]))
                ref_inits.add(id(v["init"]["else"]))

    for bid, b in cfg.blocks.items():
        evs = []
        for e in b["el"]:
            n = fn.by_id(e)
            if n is None:
                continue
            k = n.get("k")
            if k == "Decl":
                for v in n.get("vars", []):
                    if v.get("ref"):
                        # only a ROOT alias that is re-declared per loop iteration changes the identity of the tracked object; an alias of another
                        # reference local (auto& q = p;) or a declaration that is executed once is mere naming
                        derived = any(x.get("k") == "Ref" and x.get("dk") == "local" and (rs.var(x.get("d")) or {}).get("ref") for x in walk(v.get("init")))
                        if not derived and dfl.enclosing_loops(fn, par, n):
                            evs.append(Ev("rebind", None, n, src=v["d"]))
                    elif v.get("init") is not None:
                        cr = classify_rhs(rs, v["init"])
                        if cr[0] in ("transpose", "clone"):
                            evs.append(Ev("tempdef", Path((("local", v["d"]),), text=v["n"]), n, src=cr, mode=v["d"]))
                continue
            if k == "Assign" and n.get("op") == "=":
                evs.append(Ev("store", rs.path(n["lhs"]), n, src=classify_rhs(rs, n["rhs"])))
                continue
            if k == "Assign":
                evs.append(Ev("mod", rs.path(n["lhs"]), n))
                continue
            if not is_call(n):
                continue
            if n.get("callee") in dfl.MOVE_FNS:
                continue
            lam = lambda_body_of(rs, n)
            for a_ in n.get("a", []):
                if a_.get("k") == "Lambda" and a_.get("body") is not None:      # a closure handed to a callee (callback)
                    for p_ in lambda_touched_paths(rs, fn, a_["body"]):
                        evs.append(Ev("mod", p_, n, definite=False))
            if lam is not None:
                for p_ in lambda_touched_paths(rs, fn, lam):
                    evs.append(Ev("mod", p_, n, definite=False))      # the lambda body is not followed here (the inlined run does)
                # (objects handed to the closure as arguments are handled below like those of any unmodelled callee)
            if k == "OpCall" and n.get("op") == "=" and len(n.get("a", [])) == 2:
                evs.append(Ev("store", rs.path(n["a"][0]), n, src=classify_rhs(rs, n["a"][1])))
                continue
            recv = dfl.receiver(n)
            if recv is not None and k in ("MCall", "OpCall") and not n.get("cconst") and not n.get("cstatic"):
                if not (id(n) in ref_inits or path_use(n)):
                    nm = callee_name(n)
                    rp = rs.path(recv)
                    args = n.get("a", []) if k == "MCall" else n.get("a", [])[1:]
                    if nm == "transpose" and len(args) == 1:
                        evs.append(Ev("store", rp, n, src=("transpose", rs.path(args[0]), None)))
                    elif nm in ("clone", "convert") and len(args) >= 1 and not rs.path(args[0]).opaque():
                        evs.append(Ev("store", rp, n, src=("clone", rs.path(args[0]), clone_mode(n) if nm == "clone" else "Deep")))
                    else:
                        evs.append(Ev("mod", rp, n, definite=nm in KNOWN_MUTATORS))
            for a, pname, ptype in dfl.call_args_with_params(n, fn):
                if k in ("MCall", "OpCall") and a is recv:
                    continue
                if ptype is not None and is_nonconst_ref(ptype):
                    ap = rs.path(a)
                    if not ap.opaque():
                        # a non-const reference parameter of an unmodelled callee may or may not be written
                        evs.append(Ev("mod", ap, n, definite=bool(KNOWN_WRITERS.match(strip_targs(n.get("callee", "") or "")))))
        blocks[bid] = evs
    return rs, blocks


def check_rest_transpose(ck, fn, fkey, rule="E8.rest-is-transpose"):
    """typestate of (prol, rest) pairs of every transfer object a function assembles; returns number of tracked objects"""
    rs, blocks = function_events(fn)
    cfg = fn.cfg
    if cfg is None:
        return 0
    tracked = {}
    for evs in blocks.values():
        for ev in evs:
            if ev.path is None:
                continue
            sk = split_kind(ev.path)
            if sk is not None and sk[1] in ("prol", "rest"):
                t = tracked.setdefault((sk[0], sk[2]), {"decls": set(), "text": {}, "line": ev.node.get("l")})
                t["decls"] |= ev.path.decls
                t["text"].setdefault(sk[1], ev.path.text)
    count = 0
    for (base, suffix), info in sorted(tracked.items(), key=lambda kv: kv[1]["line"] or 0):
        if "prol" not in info["text"]:
            # a rest matrix is written but the prolongation of the same transfer is never touched here: nothing can be decided locally
            txt = info["text"].get("rest")
            ck.incomplete(rule, "%s/%s: the restriction matrix is written, but the prolongation matrix of the same transfer object is not assembled in this function" % (fkey, txt))
            count += 1
            continue
        problems = []

        def relk(p, kind):
            sk = split_kind(p)
            return sk is not None and sk[0] == base and sk[1] == kind and related(sk[2], suffix)

        def same(p, kind):
            sk = split_kind(p)
            return sk is not None and sk[0] == base and sk[1] == kind and sk[2] == suffix

        def counterpart_in(p, eqv):
            """p is the rest matrix X.rest.s of another transfer whose prol X.prol.s is value-equal to the tracked prol"""
            sk = split_kind(p)
            if sk is None or sk[1] != "rest":
                return False
            for q in eqv:
                sq = split_kind(q)
                if sq is not None and sq[1] == "prol" and sq[0] == sk[0] and sq[2] == sk[2]:
                    return True
            return False

        doubts = []

        def prol_counterpart(p):
            sk = split_kind(p)
            return (sk[0], sk[2]) if sk is not None and sk[1] == "rest" else None

        def rest_matches(rsrc, eqv):
            return rsrc is not None and counterpart_in(rsrc, eqv)

        def step(bid, state):
            st, eqv, rsrc, temps = state
            for ev in blocks.get(bid, []):
                ln = ev.node.get("l")
                if ev.kind == "rebind":
                    if ev.src in info["decls"]:
                        if st[0] == "stale":
                            (problems if st[2] else doubts).append((ln, "the reference to the transfer matrices is re-bound (next iteration / scope end) while the restriction is stale: %s" % st[1]))
                        st, eqv, rsrc, temps = ("init",), frozenset(), None, frozenset()
                    continue
                p = ev.path
                if ev.kind == "tempdef":
                    kind, src, mode = ev.src
                    if kind == "transpose" and same(src, "prol"):
                        temps = temps | {ev.mode}                  # the local holds transpose(P) of the current P
                    elif kind == "clone" and mode != "Layout" and same(src, "prol"):
                        eqv = eqv | {p}                            # the local is a value copy of P
                    continue
                if ev.kind == "store" and relk(p, "prol"):
                    kind, src, mode = ev.src
                    temps = frozenset()
                    if kind == "clone" and mode == "Layout":
                        eqv = frozenset()
                    elif kind == "clone" and src is not None:
                        eqv = frozenset([src])
                        if rest_matches(rsrc, eqv):
                            st = ("fresh",)
                        else:
                            st = ("stale", "prolongation assigned at line %s (%s)" % (ln, render(ev.node)[:70]), True)
                    elif kind == "temp" and src in eqv:
                        pass                                        # P := (moved) value copy of itself
                    else:
                        st, eqv = ("stale", "prolongation assigned at line %s (%s)" % (ln, render(ev.node)[:70]), True), frozenset()
                    continue
                if ev.kind == "mod" and relk(p, "prol"):
                    if st[0] == "stale" and st[2]:
                        pass
                    else:
                        st = ("stale", "prolongation %s at line %s by %s" % ("modified" if ev.definite else "possibly modified (non-const argument of a callee that is not modelled)", ln, render(ev.node)[:70]), ev.definite)
                    eqv, temps = frozenset(), frozenset()
                    continue
                if ev.kind == "store" and relk(p, "rest"):
                    kind, src, mode = ev.src
                    if kind == "clone" and mode == "Layout":
                        continue
                    if not same(p, "rest"):
                        doubts.append((ln, "store into %s, a part / container of the tracked restriction matrix" % p))
                        continue
                    rsrc = None
                    if kind == "transpose" and (same(src, "prol") or src in eqv):
                        st = ("fresh",)
                    elif kind == "temp" and mode in temps:
                        st = ("fresh",)
                    elif kind == "clone" and src is not None and prol_counterpart(src) is not None:
                        # composition: rest block := clone of another transfer's rest; fresh iff the prol block is the clone of that transfer's prol
                        rsrc = src
                        st = ("fresh",) if rest_matches(rsrc, eqv) else ("stale", "restriction assigned a clone of %s at line %s while the prolongation is not (yet) the clone of the same transfer's prolongation" % (src, ln), True)
                    elif kind == "clone" and src is not None and (same(src, "prol") or src in eqv):
                        problems.append((ln, "the restriction matrix %s is assigned a clone of the prolongation matrix %s instead of its transpose" % (p, src)))
                        st = ("stale", "restriction assigned a non-transpose at line %s" % ln, True)
                    elif kind == "transpose" and src is not None and split_kind(src) is not None:
                        problems.append((ln, "the restriction matrix %s is assigned the transpose of %s, which is not the stored prolongation matrix %s" % (p, src, info["text"]["prol"])))
                        st = ("stale", "restriction assigned the transpose of another transfer matrix at line %s" % ln, True)
                    else:
                        what = {"transpose": "the transpose of %s" % src, "clone": "a clone of %s" % src, "temp": "the local %s" % src, "opaque": "%s" % mode}[kind]
                        doubts.append((ln, "the restriction matrix %s is assigned %s; its relation to the stored prolongation %s is not understood" % (p, what, info["text"]["prol"])))
                        st = ("stale", "restriction assigned a value of unknown origin at line %s" % ln, False)
                    continue
                if ev.kind == "mod" and relk(p, "rest"):
                    if st[0] == "fresh":
                        st = ("stale", "restriction %s at line %s by %s after the transposition" % ("modified" if ev.definite else "possibly modified", ln, render(ev.node)[:70]), ev.definite)
                    continue
                if ev.kind in ("mod", "store") and p is not None:
                    if eqv:
                        hit = [q for q in eqv if q.related(p)]
                        if hit:
                            eqv = eqv - frozenset(hit)
                    if temps and p.steps and p.steps[0][0] == "local" and p.steps[0][1] in temps and not (ev.kind == "mod" and not ev.definite and False):
                        temps = temps - {p.steps[0][1]}
            return (st, eqv, rsrc, temps)

        inn, out = dfl.propagate(fn, (("init",), frozenset(), None, frozenset()), step)
        for b in cfg.normal_exit_preds():
            for (st, eqv, rsrc, temps), facts in out.to_exit.get(b, ()):
                if st[0] == "stale":
                    rets = [fn.by_id(e) for e in cfg.blocks[b]["el"]]
                    rl = [r.get("l") for r in rets if r is not None and r.get("k") == "Return"]
                    (problems if st[2] else doubts).append((rl[0] if rl else fn.end, "a path reaches the exit%s with a restriction that is not the transpose of the current prolongation: %s" % (
                        (" at line %s" % rl[0]) if rl else "", st[1])))
        key = "%s/%s" % (fkey, info["text"]["prol"])
        if doubts and not problems:
            ck.incomplete(rule, "%s: %s" % (key, "; ".join(sorted({"line %s: %s" % d for d in doubts}))[:600]))
            count += 1
            continue
        # de-duplicate
        seen = set()
        uniq = []
        for pr in problems:
            if pr[1] not in seen:
                seen.add(pr[1])
                uniq.append(pr)
        ck.ob(rule, key, not uniq, "; ".join("line %s: %s" % pr for pr in uniq) or
              "on every path the stored restriction %s is (re)computed as transpose / parallel clone of %s after its last modification" % (info["text"].get("rest", "?"), info["text"]["prol"]),
              fn.file, (uniq[0][0] if uniq else info["line"]), sample={"prol": info["text"]["prol"], "rest": info["text"].get("rest")})
        count += 1
    return count


def fn_key(fn):
    """stable key of a (template) function: qualified name + arity + a short hash-free discriminator of the instantiation"""
    q = strip_targs(fn.qn)
    q = q.replace("FEAT::", "")
    disc = ""
    m = re.search(r"SystemLevel<([^>]*)>", fn.cls or "")
    if m:
        disc = "<" + m.group(1) + ">"
    return "%s%s/%d" % (q, disc, len(fn.params))


# =====================================================================================================
# clause 3a: weight vectors of the assembled transfer are inverted exactly once before they scale the rows
# =====================================================================================================

PRODUCERS = {
    # callee (unqualified, class GridTransfer): (parameter name of the weighted object, parameter name of the weight vector)
    "assemble_prolongation": ("matrix", "vector"),
    "assemble_truncation": ("matrix", "vector"),
    "prolongate_vector": ("vector_f", "vector_w"),
    "assemble_intermesh_transfer": ("matrix", "vector"),
    "transfer_intermesh_vector": ("vector_target", "vector_weight"),
}


def unwrap_num(rs, n):
    """numeric literal value of an expression (through value casts / const locals), else None"""
    n = rs.value(n)
    while n is not None and n.get("k") in ("Construct", "TempObj", "Cast") and len(n.get("a", []) or ([n["e"]] if n.get("e") else [])) == 1:
        n = rs.value((n.get("a") or [n.get("e")])[0])
    if n is None:
        return None
    if n.get("k") in ("Int", "Float"):
        try:
            return float(n.get("text") or n.get("v"))
        except ValueError:
            return None
    if n.get("k") in ("Construct", "TempObj") and not n.get("a"):
        return 0.0
    return None


def is_one(rs, n):
    n = rs.value(n)
    while n is not None and n.get("k") in ("Construct", "TempObj", "Cast") and len(n.get("a", []) or ([n["e"]] if n.get("e") else [])) == 1:
        n = rs.value((n.get("a") or [n.get("e")])[0])
    if n is None:
        return False
    if n.get("k") == "Int":
        return str(n.get("v")) == "1"
    if n.get("k") == "Float":
        try:
            return float(n.get("text") or n.get("v")) == 1.0
        except ValueError:
            return False
    return False


def check_weights(ck, fn, fkey, rule="E7.weights-inverted-once"):
    """typestate of every weight vector produced by GridTransfer::assemble_*/prolongate_vector inside fn"""
    cfg = fn.cfg
    if cfg is None:
        return 0
    rs = Resolver(fn)
    serial_route = strip_targs(fn.qn).startswith("FEAT::Assembly::GridTransfer::")   # documented: *_direct are serial-only
    param_ds = {p["d"] for p in fn.params}
    prods = []
    for c in stmt_calls(fn):
        if c.get("k") == "Call" and strip_targs(c.get("callee", "")).startswith("FEAT::Assembly::GridTransfer::") and callee_name(c) in PRODUCERS:
            pm, pw = PRODUCERS[callee_name(c)]
            m, w = dfl.arg_by_param(c, pm), dfl.arg_by_param(c, pw)
            if (m is None or w is None) and len(c.get("a", [])) >= 2:
                m, w = c["a"][0], c["a"][1]      # renamed parameters: (weighted object, weight vector) are the first two by position
            if m is None or w is None:
                ck.incomplete(rule, "%s: call %s without (%s, %s) parameters" % (fkey, render(c)[:60], pm, pw))
                continue
            prods.append((c, rs.path(m), rs.path(w)))
    count = 0
    seen = set()
    for c0, M, W in prods:
        if (M, W) in seen:
            continue
        seen.add((M, W))
        if W.steps and W.steps[0][0] == "param" and W.steps[0][1] in param_ds:
            continue        # the weight vector belongs to the caller: inversion is the caller's obligation (documented)
        problems = []
        pids = {c["i"] for c, m, w in prods if m == M and w == W}

        wdoubt = []
        shrinks = []

        def step(bid, st):
            for e in cfg.blocks[bid]["el"]:
                n = fn.by_id(e)
                if n is None or not is_call(n):
                    continue
                ln = n.get("l")
                if n["i"] in pids:
                    st = "raw"
                    continue
                if st == "none":
                    continue
                if n.get("callee") in dfl.MOVE_FNS:
                    continue
                nm = callee_name(n)
                recv = dfl.receiver(n)
                rp = rs.path(recv) if recv is not None else None
                args = [rs.path(a) for a in (n.get("a", []) if n.get("k") != "OpCall" else n.get("a", [])[1:])]
                if nm == "sync_0" and ((rp is not None and rp.related(W)) or any(a.related(W) for a in args)):
                    if st == "raw":
                        st = "synced"
                    elif st == "inv":
                        problems.append((ln, "weight vector %s synchronised after its inversion (the reciprocal of a sum is not the sum of reciprocals)" % W))
                    continue
                if nm in ("split", "split_recv") and strip_targs(n.get("ccls", "")) == "FEAT::Global::Muxer":
                    t = dfl.arg_by_param(n, "vec_trg")
                    if t is not None and rs.path(t).related(W) and st == "raw":
                        st = "synced"
                    continue
                if nm == "component_invert" and rp is not None and rp.related(W):
                    x = dfl.arg_by_param(n, "x")
                    al = dfl.arg_by_param(n, "alpha")
                    if x is None or not rs.path(x).related(W):
                        problems.append((ln, "weight vector %s overwritten by component_invert of another vector %s" % (W, render(x))))
                        continue
                    if al is not None and not is_one(rs, al):
                        problems.append((ln, "weights inverted with numerator %s instead of 1" % render(al)))
                    if st == "inv" or st == "done":
                        problems.append((ln, "weight vector %s inverted twice" % W))
                    elif st == "raw" and not serial_route:
                        problems.append((ln, "weight vector %s inverted without a preceding sync_0 / muxer split (documented as required for global transfers)" % W))
                    st = "inv"
                    continue
                if nm in ("scale_rows", "component_product") and rp is not None and rp.related(M):
                    ws = [a for a in args[1:] if a.related(W)]
                    if not ws:
                        continue
                    if not args[0].related(M):
                        problems.append((ln, "%s scales %s instead of %s itself" % (nm, args[0], M)))
                    if st != "inv":
                        problems.append((ln, "%s of %s by weight vector %s which is %s at this point" % (
                            nm, M, W, {"raw": "not inverted", "synced": "not inverted", "done": "already consumed"}.get(st, st))))
                    st = "done"
                    continue
                if nm == "shrink" and rp is not None and rp.related(M):
                    shrinks.append((n, st))
                    continue
                # anything else that may write the weights or the weighted object: a callee / lambda that is not modelled
                lam = lambda_body_of(rs, n)
                cb = [a_["body"] for a_ in n.get("a", []) if a_.get("k") == "Lambda" and a_.get("body") is not None]
                if (lam is not None or cb) and st in ("raw", "synced", "inv"):
                    for p_ in [q_ for b_ in ([lam] if lam is not None else []) + cb for q_ in lambda_touched_paths(rs, fn, b_)]:
                        if p_.related(W) or p_.related(M):
                            wdoubt.append((ln, "%s is modified inside the lambda called by %s, whose body is not followed" % (p_, render(n)[:40])))
                if st in ("raw", "synced", "inv"):
                    for a, pn_, pt_ in dfl.call_args_with_params(n, fn):
                        if a is recv:
                            continue
                        ap = rs.path(a)
                        if pt_ is not None and is_nonconst_ref(pt_) and not ap.opaque() and (ap.related(W) or ap.related(M)) and nm not in ("sync_0", "join", "split", "split_recv", "join_send"):
                            wdoubt.append((ln, "%s is handed to %s, which is not modelled and may invert / apply the weights" % (ap, render(n)[:60])))
                    if rp is not None and rp.related(W) and not n.get("cconst") and nm not in ("format", "copy", "component_invert", "sync_0") and n.get("k") == "MCall":
                        par_ = dfl.parents(fn).get(id(n))
                        if par_ is not None and par_[0].get("k") in ("Block", "If", "For", "While"):
                            wdoubt.append((ln, "weights modified by %s, which is not modelled" % render(n)[:60]))
            return st

        inn, out = dfl.propagate(fn, "none", step)
        for b in cfg.normal_exit_preds():
            for st, facts in out.to_exit.get(b, ()):
                if st in ("raw", "synced", "inv"):
                    problems.append((fn.end, "a path reaches the exit with weights %s assembled but %s never scaled by their inverse (state: %s)" % (W, M, st)))
        if shrinks:
            # the drop tolerance is relative to the largest entry: it is meaningful only on the row-normalised matrix
            early = [(n_, st_) for n_, st_ in shrinks if st_ in ("raw", "synced", "inv")]
            skey = "%s/%s.shrink" % (fkey, M)
            if wdoubt and early:
                ck.incomplete("E7.shrink-after-normalisation", "%s: %s" % (skey, "; ".join(sorted({"line %s: %s" % d for d in wdoubt}))[:300]))
            else:
                ck.ob("E7.shrink-after-normalisation", skey, not early,
                      ("line %s: %s is applied while the rows of %s are not yet scaled by the inverse weights %s (state of the weights: %s): the relative threshold compares "
                       "un-normalised rows, entries of rows shared by few cells are dropped although they are significant after normalisation" % (
                           early[0][0].get("l"), render(early[0][0])[:70], M, W, early[0][1])) if early else
                      "%d shrink call(s) on %s, all after scale_rows by the inverted weights on every path" % (len({id(n_) for n_, s_ in shrinks}), M), fn.file, (early or shrinks)[0][0].get("l"))
        if wdoubt:
            ck.incomplete(rule, "%s/%s: %s" % (fkey, W, "; ".join(sorted({"line %s: %s" % d for d in wdoubt}))[:500]))
            count += 1
            continue
        uniq = []
        for pr in problems:
            if pr[1] not in [u[1] for u in uniq]:
                uniq.append(pr)
        ck.ob(rule, "%s/%s" % (fkey, W), not uniq, "; ".join("line %s: %s" % pr for pr in uniq) or
              "weights %s: assembled -> %sinverted once (numerator 1) -> scale %s, on every path" % (W, "" if serial_route else "synchronised -> ", M),
              fn.file, uniq[0][0] if uniq else c0.get("l"), sample={"weights": repr(W), "scaled": repr(M)})
        count += 1
    return count


# =====================================================================================================
# clause 3a': what is handed to a scatter-add assembler is zero on every path
# =====================================================================================================

ZERO_BUILDERS = re.compile(r"^FEAT::Assembly::SymbolicAssembler::assemble_matrix_")     # matrix = MatrixType(graph): values are zero-initialised


def check_zeroed(ck, fn, fkey, rule="E7.zeroed-before-assembly"):
    """joint typestate zero / dirty / unknown of every object handed to GridTransfer::assemble_prolongation / assemble_truncation / prolongate_vector
    (they add into their [in,out] matrix / vectors) and of the objects those are derived from by transposition / cloning"""
    cfg = fn.cfg
    if cfg is None:
        return 0
    rs = Resolver(fn)
    par = dfl.parents(fn)
    prods = []
    for c in stmt_calls(fn):
        if c.get("k") == "Call" and strip_targs(c.get("callee", "")).startswith("FEAT::Assembly::GridTransfer::") and callee_name(c) in PRODUCERS and len(c.get("a", [])) >= 2:
            prods.append((c, [rs.path(c["a"][0]), rs.path(c["a"][1])]))
    if not prods:
        return 0
    events = function_events(fn)[1]
    tracked = []
    for c, ps in prods:
        for p_ in ps:
            if p_ not in tracked and not p_.opaque():
                tracked.append(p_)
    # sources of transpositions / clones into tracked objects are tracked as well
    for evs in events.values():
        for ev in evs:
            if ev.kind == "store" and ev.path in tracked and ev.src[0] in ("transpose", "clone") and ev.src[1] is not None and ev.src[1] not in tracked and not ev.src[1].opaque():
                tracked.append(ev.src[1])
    touched = set()
    prod_nodes = {id(c) for c, ps in prods}
    prod_where = [cfg.block_of(c["i"]) for c, ps in prods if cfg.block_of(c["i"]) is not None]

    def precedes_a_producer(node):
        w = cfg.block_of(node.get("i")) if "i" in node else None
        if w is None:
            return True
        reach = cfg.reachable(w[0])
        return any((pw[0] in reach and pw[0] != w[0]) or (pw[0] == w[0] and (w[1] < pw[1] or dfl._in_cycle(cfg, w[0]))) for pw in prod_where)
    for evs in events.values():
        for ev in evs:
            if ev.kind in ("store", "mod") and ev.path is not None and id(ev.node) not in prod_nodes and precedes_a_producer(ev.node):
                for t in tracked:
                    if t.related(ev.path):
                        touched.add(t)      # the function itself prepares the object before the assembly: it owns the zeroing
    for d, v in rs.vars.items():
        lp = Path((("local", d),))
        if lp in tracked:
            touched.add(lp)
    prod_ids = {c["i"]: ps for c, ps in prods}
    problems, doubts = [], []
    idx = {t: i for i, t in enumerate(tracked)}

    def fmt_value(n):
        """'zero' | 'dirty' for X.format(v)"""
        a = n.get("a", [])
        if not a:
            return "zero"
        v = unwrap_num(rs, a[0])
        if v is None:
            return "unknown"
        return "zero" if v == 0.0 else "dirty"

    def step(bid, state):
        st = list(state)
        for e in cfg.blocks[bid]["el"]:
            n = fn.by_id(e)
            if n is None:
                continue
            if n.get("k") == "Decl":
                for v in n.get("vars", []):
                    lp = Path((("local", v["d"]),))
                    if lp in idx and not v.get("ref"):
                        ini = v.get("init")
                        cr = classify_rhs(rs, ini) if ini is not None else ("opaque", None, None)
                        if cr[0] in ("transpose", "clone") and cr[1] in idx and not (cr[0] == "clone" and cr[2] in ("Layout", "Allocate")):
                            st[idx[lp]] = st[idx[cr[1]]]
                        else:
                            st[idx[lp]] = ("dirty", "declared at line %s with uninitialised / unknown values" % n.get("l"))
                continue
            if not is_call(n) and n.get("k") != "Assign":
                continue
            if is_call(n) and n["i"] in prod_ids:
                for p_ in prod_ids[n["i"]]:
                    if p_ not in idx or p_ not in touched:
                        continue          # forwarded untouched: the obligation is the caller's ([in,out] contract)
                    s_ = st[idx[p_]]
                    if s_[0] == "dirty":
                        problems.append((n.get("l"), "%s is handed to the scatter-add assembler %s although on some path it is not zero: %s" % (p_, callee_name(n), s_[1])))
                    elif s_[0] == "unknown":
                        doubts.append((n.get("l"), "%s handed to %s: %s" % (p_, callee_name(n), s_[1])))
                    st[idx[p_]] = ("dirty", "holds the values assembled at line %s" % n.get("l"))
                continue
            # modelled value events
            target = None
            if n.get("k") == "MCall" and not n.get("cconst"):
                target = rs.path(n.get("obj") or {"k": "This"})
                nm = callee_name(n)
                if target in idx and not dfl.Resolver and False:
                    pass
                if nm == "format" and any(t.startswith(target) for t in tracked):
                    fv = fmt_value(n)
                    for t in tracked:
                        if t.startswith(target):          # formatting a container formats its parts
                            st[idx[t]] = ("zero",) if fv == "zero" else ((fv, "formatted to %s at line %s" % (render(n["a"][0]) if n.get("a") else "0", n.get("l"))))
                    continue
                if target in idx:
                    if nm == "transpose" and len(n.get("a", [])) == 1:
                        sp = rs.path(n["a"][0])
                        st[idx[target]] = st[idx[sp]] if sp in idx else ("unknown", "transposed from %s, whose values are not tracked" % sp)
                        if st[idx[target]][0] == "dirty":
                            st[idx[target]] = ("dirty", "it is the transpose (line %s) of %s, which is not zero there: %s" % (n.get("l"), sp, st[idx[sp]][1]))
                        continue
                    if nm == "clone" and len(n.get("a", [])) >= 1:
                        sp = rs.path(n["a"][0])
                        mode = clone_mode(n)
                        st[idx[target]] = ("dirty", "layout clone at line %s (values not initialised)" % n.get("l")) if mode in ("Layout", "Allocate") else (
                            st[idx[sp]] if sp in idx else ("unknown", "cloned from %s" % sp))
                        continue
            if (n.get("k") == "OpCall" and n.get("op") == "=" and len(n.get("a", [])) == 2) or (n.get("k") == "Assign" and n.get("op") == "="):
                lhs = n["a"][0] if n.get("k") == "OpCall" else n["lhs"]
                rhs = n["a"][1] if n.get("k") == "OpCall" else n["rhs"]
                lp = rs.path(lhs)
                if lp in idx:
                    cr = classify_rhs(rs, rhs)
                    if cr[0] in ("transpose", "clone") and cr[1] in idx and not (cr[0] == "clone" and cr[2] in ("Layout", "Allocate")):
                        s_ = st[idx[cr[1]]]
                        st[idx[lp]] = s_ if s_[0] != "dirty" else ("dirty", "it is the %s (line %s) of %s, which is not zero there: %s" % (cr[0], n.get("l"), cr[1], s_[1]))
                    elif cr[0] == "temp" and cr[1] in idx:
                        st[idx[lp]] = st[idx[cr[1]]]
                    else:
                        st[idx[lp]] = ("unknown", "assigned %s at line %s" % (render(rhs)[:50], n.get("l")))
                    continue
            # anything else that may write a tracked object
            lam = lambda_body_of(rs, n) if is_call(n) else None
            if lam is not None:
                for p_ in lambda_touched_paths(rs, fn, lam):
                    for t in tracked:
                        if t.related(p_):
                            st[idx[t]] = ("unknown", "possibly written inside the lambda called by %s at line %s" % (render(n)[:40], n.get("l")))
            if is_call(n) and n.get("callee") not in dfl.MOVE_FNS:
                recv = dfl.receiver(n)
                for a, pn_, pt_ in dfl.call_args_with_params(n, fn):
                    if a is recv:
                        continue
                    ap = rs.path(a)
                    for t in tracked:
                        if pt_ is not None and is_nonconst_ref(pt_) and t.related(ap):
                            if ZERO_BUILDERS.match(strip_targs(n.get("callee", "") or "")):
                                st[idx[t]] = ("zero",)            # freshly built from a graph: values are zero-initialised (SparseMatrix(graph))
                            elif callee_name(n) in ("sync_0", "join", "split", "split_recv") and st[idx[t]][0] == "zero":
                                pass
                            else:
                                st[idx[t]] = ("unknown", "possibly written by %s at line %s" % (render(n)[:50], n.get("l")))
                if recv is not None and n.get("k") == "MCall" and not n.get("cconst"):
                    rp = rs.path(recv)
                    pr = par.get(id(n))
                    if pr is not None and pr[0].get("k") in ("Block", "If", "For", "While") and pr[1] != "c":
                        for t in tracked:
                            if t.related(rp) and st[idx[t]][0] == "zero" and callee_name(n) not in ("format",):
                                st[idx[t]] = ("unknown", "modified by %s at line %s" % (render(n)[:50], n.get("l")))
        return tuple(st)

    init = []
    for t in tracked:
        root = t.steps[0][0] if t.steps else "?"
        if root == "local":
            init.append(("dirty", "not yet declared"))
        else:
            init.append(("dirty", "it may still hold the values of a previous assembly (the object belongs to the caller and is re-used when the function is called again)"))
    dfl.propagate(fn, tuple(init), step)
    uniq = []
    for pr in problems:
        if pr[1] not in [u[1] for u in uniq]:
            uniq.append(pr)
    count = 0
    for c, ps in prods:
        for p_ in ps:
            if p_ not in idx or p_ not in touched:
                continue
            mine = [u for u in uniq if u[0] == c.get("l") and u[1].startswith(repr(p_) + " ")]
            dmine = [d_ for d_ in doubts if d_[0] == c.get("l") and d_[1].startswith(repr(p_) + " ")]
            key = "%s/%s(%s)" % (fkey, callee_name(c), p_)
            if dmine and not mine:
                ck.incomplete(rule, "%s: %s" % (key, "; ".join(sorted({"line %s: %s" % d_ for d_ in dmine}))[:300]))
            else:
                ck.ob(rule, key, not mine, "; ".join("line %s: %s" % u for u in mine) or "%s is zero (format() / transpose or clone of a zero object / freshly built from a graph) on every path into %s" % (p_, callee_name(c)),
                      fn.file, c.get("l"))
            count += 1
    return count


# =====================================================================================================
# inter-mesh transfer: a contribution weighted by 1/size(candidates) needs every candidate to contribute
# =====================================================================================================

def loop_of_jump(par, n):
    """innermost loop / switch a break or continue statement belongs to"""
    cur = n
    while id(cur) in par:
        cur, slot = par[id(cur)]
        if cur.get("k") in ("For", "While", "Do", "ForRange") or (n.get("k") == "Break" and cur.get("k") == "Switch"):
            return cur
    return None


def check_iteration_containers(ck, fn, fkey, rule="E7.per-iteration-container-reset"):
    """Inter-mesh transfer assemblers: a container that lives across the iterations of the target-cell loop and whose ELEMENTS are filled per target cell
    (C.at(x).push_back(...) inside the loop) and consumed in the same iteration must be empty again before the next target cell: the whole container is cleared /
    re-created unconditionally in the loop body, or every element is cleared in a loop over all elements (the only paths that may skip the clear are guarded by
    the emptiness of that element or of a copy of it), or the container is declared inside the loop.  Otherwise cubature points registered for an earlier target cell
    are integrated again for the next one (resize() keeps the old elements)."""
    rs = Resolver(fn)
    par = dfl.parents(fn)
    fills = {}
    for n in dfl.own_nodes(fn):
        if n.get("k") == "MCall" and callee_name(n) in ("push_back", "emplace_back", "insert", "emplace"):
            st = rs.path(n.get("obj")).steps
            if len(st) == 2 and st[0][0] == "local" and st[1][0] in ("call", "index") and (st[1][0] == "index" or st[1][1] in ("at", "operator[]", "back", "front")):
                loops = dfl.enclosing_loops(fn, par, n)
                if loops:
                    fills.setdefault(st[0][1], []).append((n, loops[0]))
    count = 0
    for d, lst in sorted(fills.items()):
        v = rs.var(d)
        T = lst[0][1]
        if v is None or any(t_ is not T for n_, t_ in lst):
            continue
        key = "%s/%s" % (fkey, v["n"])
        count += 1
        if any(x is T for x in dfl.enclosing_loops(fn, par, v)):
            ck.ob(rule, key, True, "%s is declared inside the target-cell loop: a fresh container per iteration" % v["n"], fn.file, v.get("l"))
            continue
        C = Path((("local", d),), text=v["n"])

        def elem_of(e):
            """index text if e denotes an element C.at(i) / C[i] of the container (also through a copy / reference local initialised with it)"""
            if e is None:
                return None
            st = rs.path(e).steps
            if len(st) == 1 and st[0][0] == "local" and st[0][1] != d:
                v2 = rs.var(st[0][1])
                if v2 is not None and v2.get("init") is not None and st[0][1] not in dfl.assigned_decls(fn):
                    ini = v2["init"]
                    while ini is not None and ini.get("k") in ("Construct", "TempObj") and len(ini.get("a", [])) == 1:
                        ini = ini["a"][0]
                    st = rs.path(ini).steps
            if len(st) == 2 and st[0] == ("local", d) and st[1][0] in ("call", "index"):
                return str(st[1][2] if st[1][0] == "call" else st[1][1])
            return None

        def empty_test(cn, depth=0):
            """the condition holds only if some element of C (or a copy of it) is empty:  E.empty()  /  E.size() == 0  (possibly as one operand of ||)"""
            cn = norm._strip(rs.value(cn)) if cn is not None else None
            if cn is None or depth > 4:
                return False
            if cn.get("k") == "MCall" and callee_name(cn) == "empty" and elem_of(cn.get("obj")) is not None:
                return True
            if cn.get("k") == "Bin" and cn.get("op") == "==":
                for u, w in ((cn["lhs"], cn["rhs"]), (cn["rhs"], cn["lhs"])):
                    uu, ww = norm._strip(rs.value(u)), norm._strip(rs.value(w))
                    if uu is not None and uu.get("k") == "MCall" and callee_name(uu) == "size" and elem_of(uu.get("obj")) is not None and unwrap_num(rs, ww) == 0.0:
                        return True
            return False
        whole, elems, opaque = [], [], []
        range_ok = []
        for Rf in dfl.own_nodes(fn):
            # for(auto& e : C) e.clear();  — every element by construction
            if Rf.get("k") == "ForRange" and any(x is T for x in dfl.enclosing_loops(fn, par, Rf)) and rs.path(Rf.get("range")) == C:
                lv_ = (Rf.get("var") or {}).get("d")
                cl_ = [m for m in dfl.own_walk(Rf.get("body")) if m.get("k") == "MCall" and callee_name(m) == "clear" and rs.path(m.get("obj")).steps == (("local", lv_),)]
                if cl_ and (Rf.get("var") or {}).get("ref") and all(norm.once_per_iteration(fn, par, Rf, m) for m in cl_) and norm.once_per_iteration(fn, par, T, Rf):
                    range_ok.append(Rf)
                elif (Rf.get("var") or {}).get("ref") and not "const" in fn.type((Rf.get("var") or {}).get("t")):
                    opaque.append(Rf)
        for n in dfl.own_nodes(fn):
            if not any(x is T for x in dfl.enclosing_loops(fn, par, n)) or not is_call(n):
                continue
            nm = callee_name(n)
            recv = dfl.receiver(n)
            rp = rs.path(recv) if recv is not None else None
            if n.get("k") == "MCall" and rp == C and nm in ("clear",):
                whole.append(n)
            elif n.get("k") in ("OpCall", "MCall") and rp == C and (n.get("op") == "=" or nm in ("assign", "swap")) and not n.get("cconst"):
                whole.append(n)
            elif n.get("k") == "MCall" and rp is not None and len(rp.steps) == 2 and rp.steps[0] == ("local", d) and nm == "clear":
                elems.append(n)
            elif n.get("k") in ("OpCall", "MCall") and rp is not None and len(rp.steps) == 2 and rp.steps[0] == ("local", d) and (n.get("op") == "=" or nm in ("assign",)):
                elems.append(n)
            elif nm == "swap" and any(len(rs.path(a_).steps) == 2 and rs.path(a_).steps[0] == ("local", d) for a_ in ([recv] if recv is not None else []) + list(n.get("a", []))):
                # std::vector<T>().swap(C.at(i)) / C.at(i).swap(tmp): the element takes the other vector's contents — empty only for a fresh temporary
                other_ = [a_ for a_ in ([recv] if recv is not None else []) + list(n.get("a", [])) if not (len(rs.path(a_).steps) == 2 and rs.path(a_).steps[0] == ("local", d))]
                if other_ and other_[0].get("k") in ("Construct", "TempObj") and not other_[0].get("a"):
                    elems.append(n)
                else:
                    opaque.append(n)
            else:
                for a_, pn_, pt_ in dfl.call_args_with_params(n, fn):
                    if a_ is not recv and pt_ is not None and is_nonconst_ref(pt_) and rs.path(a_).related(C):
                        opaque.append(n)
                if dfl.lambda_body_of(rs, n) is not None and any(p_.related(C) for p_ in dfl.lambda_touched_paths(rs, fn, dfl.lambda_body_of(rs, n))):
                    opaque.append(n)
                if recv is not None and rp is not None and rp.related(C) and not n.get("cconst") and n.get("k") == "MCall" \
                        and nm not in ("push_back", "emplace_back", "insert", "emplace", "at", "operator[]", "resize", "reserve", "back", "front", "begin", "end", "clear"):
                    opaque.append(n)
        if range_ok:
            ck.ob(rule, key, True, "every element of %s is cleared by a range-for over the container in every target-cell iteration" % v["n"], fn.file, range_ok[0].get("l"))
            continue
        if any(norm.once_per_iteration(fn, par, T, w) for w in whole):
            ck.ob(rule, key, True, "%s is cleared / re-assigned as a whole in every iteration of the target-cell loop" % v["n"], fn.file, whole[0].get("l"))
            continue
        verdicts = []
        for r in elems:
            loops = dfl.enclosing_loops(fn, par, r)
            R = loops[-1] if loops and loops[-1] is not T else None
            if R is None:
                verdicts.append(("unknown", "the element clear at line %s is not inside a loop over the elements" % r.get("l")))
                continue
            lr = norm.loop_range(fn, R, par)
            bnd = norm._strip(rs.value(lr["bound"])) if lr is not None else None
            full = lr is not None and lr["sign"] > 0 and lr["cmp"] in ("<", "!=") and unwrap_num(rs, lr["start"]) == 0.0 and bnd is not None and bnd.get("k") == "MCall" and callee_name(bnd) == "size"
            if full:
                bp = rs.path(bnd.get("obj"))
                if bp != C:
                    # a sibling container of the same length: C.resize(X.size()) in this iteration
                    rsz = [m for m in dfl.own_nodes(fn) if m.get("k") == "MCall" and callee_name(m) == "resize" and rs.path(m.get("obj")) == C and m.get("a")
                           and (norm._strip(rs.value(m["a"][0])) or {}).get("k") == "MCall" and callee_name(norm._strip(rs.value(m["a"][0]))) == "size"
                           and rs.path(norm._strip(rs.value(m["a"][0])).get("obj")) == bp and norm.once_per_iteration(fn, par, T, m)]
                    full = bool(rsz)
            cand_ = ([dfl.receiver(r)] if dfl.receiver(r) is not None else []) + list(r.get("a", []))
            ixt = next((elem_of(x_) for x_ in cand_ if x_ is not None and len(rs.path(x_).steps) == 2 and rs.path(x_).steps[0] == ("local", d)), None)
            ivn = (rs.var(lr["var"]) or {}).get("n") if lr is not None else None
            if not full or ixt is None or ixt != ivn:
                verdicts.append(("unknown", "the loop at line %s around the element clear does not recognisably visit every element of %s" % (R.get("l"), v["n"])))
                continue
            # every path through one iteration of R reaches the clear, except paths that are guarded by the emptiness of the element
            skips = []
            for node, slot in dfl.enclosing_stmt_chain(par, r):
                if node is R:
                    break
                if node.get("k") in ("If", "Cond") and slot in ("then", "else"):
                    neg = slot == "else"
                    cn = norm._strip(node["c"])
                    inner_neg = False
                    while cn is not None and cn.get("k") == "Un" and cn.get("op") == "!":
                        cn, inner_neg = norm._strip(cn["e"]), not inner_neg
                    if not (empty_test(cn) and (neg != inner_neg)):       # cleared only if NOT empty: fine; anything else: conditional clear
                        skips.append("the clear at line %s is conditional (%s)" % (r.get("l"), render(node["c"])[:40]))
                elif node.get("k") in ("For", "While", "Do", "ForRange", "Switch"):
                    skips.append("the clear at line %s is nested in %s" % (r.get("l"), render(node)[:30]))
            wr = fn.cfg.block_of(r["i"]) if "i" in r else None
            for j in dfl.own_walk(R.get("body")):
                if j.get("k") in ("Continue", "Break", "Return") and (j.get("k") == "Return" or loop_of_jump(par, j) is R):
                    # a jump that may bypass the clear: harmless only if taken for an empty element
                    after = "i" in j and wr is not None and fn.cfg.block_of(j["i"]) is not None and fn.cfg.stmt_dominates(r["i"], j["i"])
                    if after:
                        continue
                    conds = [cn for cn, br in enclosing_conds_c18(par, j) if br == "then"]
                    if j.get("k") == "Continue" and any(empty_test(cn) for cn in conds):
                        continue
                    skips.append("'%s' at line %s leaves the iteration before the clear at line %s" % (j["k"].lower(), j.get("l"), r.get("l")))
            verdicts.append(("ok", None) if not skips else ("cond", "; ".join(skips)))
        if any(vd[0] == "ok" for vd in verdicts):
            ck.ob(rule, key, True, "every element of %s is cleared in a loop over all elements in every target-cell iteration (paths that skip it are guarded by the element being empty)" % v["n"],
                  fn.file, elems[0].get("l"))
        elif opaque or any(vd[0] == "unknown" for vd in verdicts):
            why = [vd[1] for vd in verdicts if vd[1]] + ["%s is handed to / modified by %s, which is not modelled" % (v["n"], render(o_)[:40]) for o_ in opaque[:1]]
            ck.incomplete(rule, "%s: %s" % (key, "; ".join(why)[:300]))
        else:
            ck.ob(rule, key, False, ("the elements of %s are filled per target cell (line %s) and consumed in the same iteration, but %s: resize() keeps the old elements, so entries registered for "
                                     "an earlier target cell are processed again for later ones" % (
                                         v["n"], lst[0][0].get("l"), ("; ".join(vd[1] for vd in verdicts if vd[1])) if verdicts else "they are never cleared inside the target-cell loop")),
                  fn.file, lst[0][0].get("l"))
    return count


def check_candidate_weights(ck, fn, fkey, rule="E3.candidates-all-registered"):
    """consumer:  weight = 1 / C.size()  with C = candidates.at(point)   (averaging over all candidate cells of a point)
    producer:  for(i = 0; i < C'.size(); ++i) { ... register (i, point) ... }  with C' an element of the same container.
    The weights of one point sum to one only if the producer loop registers every candidate: it runs over the full extent, is not left early and
    registers unconditionally."""
    rs = Resolver(fn)
    par = dfl.parents(fn)

    def container_of(node):
        """decl of the container whose element (via .at(k) / [k]) the expression denotes"""
        st = rs.path(node).steps
        if len(st) >= 2 and st[0][0] in ("local", "param") and st[1][0] in ("call", "index") and (st[1][0] == "index" or st[1][1] == "at"):
            return st[0]
        return None
    consumers = []
    for n in fn.nodes():
        if n.get("k") == "Bin" and n.get("op") == "/" and unwrap_num(rs, n["lhs"]) == 1.0:
            den = n["rhs"]
            while den.get("k") in ("Cast", "Construct", "TempObj") and (den.get("e") is not None or len(den.get("a", [])) == 1):
                den = den.get("e") or den["a"][0]
            if den.get("k") == "MCall" and callee_name(den) == "size" and not den.get("a"):
                c = container_of(den.get("obj"))
                if c is not None:
                    consumers.append((n, c, den))
    count = 0
    for cons, cont, den in consumers:
        loops = []
        lranges = {}
        for L in fn.nodes():
            if L.get("k") not in ("For", "While") or L.get("c") is None:
                continue
            lr = norm.loop_range(fn, L, par)
            if lr is None:
                continue
            b = rs.value(lr["bound"])
            while b is not None and b.get("k") in ("Cast",):
                b = rs.value(b["e"])
            if b is not None and b.get("k") == "MCall" and callee_name(b) == "size" and container_of(b.get("obj")) == cont:
                loops.append(L)
                lranges[id(L)] = lr
        key = "%s/1/%s.size()" % (fkey, render(den.get("obj"))[:40])
        if not loops:
            ck.incomplete(rule, "%s: contributions are weighted by 1/%s but no loop over the same candidate list registers them (producer not recognised)" % (key, render(den)[:40]))
            count += 1
            continue
        problems = []
        for L in loops:
            lr = lranges[id(L)]
            v = rs.var(lr["var"])
            zero = unwrap_num(rs, lr["start"]) == 0.0
            if not (zero and lr["sign"] > 0 and lr["cmp"] in ("<", "!=") and v is not None):
                ck.incomplete(rule, "%s: the candidate loop at line %s does not run from 0 up to the number of candidates with unit stride (not modelled)" % (key, L.get("l")))
                continue
            regs = [x for x in walk(L.get("body")) if x.get("k") == "MCall" and callee_name(x) in ("push_back", "emplace_back") and
                    any(y.get("k") == "Ref" and y.get("d") == v["d"] for a in x.get("a", []) for y in walk(a))]
            if not regs:
                continue        # a loop over the candidates that registers nothing: not the producer
            for x in walk(L.get("body")):
                if x.get("k") in ("Break", "Continue", "Return") and (x.get("k") == "Return" or loop_of_jump(par, x) is L):
                    problems.append((x.get("l"), "the loop over the %s candidates of a point is left by '%s' before every candidate is registered, but each registered contribution is "
                                     "weighted by 1/%s (line %s): the weights of that point no longer sum to one" % (render(den)[:40], x["k"].lower(), render(den)[:40], cons.get("l"))))
            for r_ in regs:
                cur = r_
                while id(cur) in par and par[id(cur)][0] is not L:
                    cur, slot = par[id(cur)]
                    if cur.get("k") in ("If", "Cond", "Switch") or (cur.get("k") in ("For", "While") and cur is not L):
                        problems.append((r_.get("l"), "candidates are registered conditionally (%s at line %s) while each registered contribution is weighted by 1/%s" % (
                            cur["k"].lower(), cur.get("l"), render(den)[:40])))
                        break
        uniq = []
        for pr in problems:
            if pr[1] not in [u[1] for u in uniq]:
                uniq.append(pr)
        ck.ob(rule, key, not uniq, "; ".join("line %s: %s" % u for u in uniq) or
              "every candidate of a point is registered unconditionally (full loop 0 .. size, no early exit); contributions are averaged with 1/size", fn.file, uniq[0][0] if uniq else cons.get("l"))
        count += 1
    return count


# =====================================================================================================
# clause 3b: GridTransfer child-cell loops: index kinds, scatter roles, weights, local M^-1 * N
# =====================================================================================================

class GT:
    """index-kind / space-side inference inside one GridTransfer assembler (E1/E2-light).

    sides: 'F' (objects derived from the parameter fine_space) / 'C' (from coarse_space).
    index kinds: ('cellP', S) cell number of the (possibly permuted) mesh of side S · ('cell2', S) cell number in the
    2-level ordering · ('child',) · ('ldof', S) local dof of side S · ('cub', d) point of cubature rule d."""

    def __init__(self, ck, fn, fkey, parent=None, bind=None, depth=0):
        """parent / bind: this context is the body of a helper called from `parent` with its parameters bound to the caller's argument
        expressions (bind: parameter decl -> argument node of the caller); sides, index kinds, permutation identities and guards of the
        helper's parameters are those of the bound arguments, so that index kinds flow through the helper's return value."""
        self.ck, self.fn, self.fkey = ck, fn, fkey
        self.parent, self.bind, self.depth = parent, (bind or {}), depth
        self._sub = {}
        self.rs = Resolver(fn)
        self.par = dfl.parents(fn)
        self.pside = {}
        for p in fn.params:
            t = fn.type(p["t"])
            if parent is None and ("Space" in t or "space" in p["n"]):
                if "fine" in p["n"]:
                    self.pside[p["d"]] = "F"
                elif "coarse" in p["n"]:
                    self.pside[p["d"]] = "C"
        self._fc = {}
        if parent is None and sorted(self.pside.values()) != ["C", "F"]:
            # renamed parameters: every GridTransfer routine takes (..., fine space, coarse space, cubature) in this order
            sp = [p for p in fn.params if re.search(r"\bSpace::", fn.type(p["t"])) and "Cubature" not in fn.type(p["t"])]
            if len(sp) == 2:
                self.pside = {sp[0]["d"]: "F", sp[1]["d"]: "C"}
        self.filled = {}       # data local decl -> set of sides of the evaluators that fill it
        self.loopvar = {}      # decl -> (For node, bound expr)
        mods_ = norm._mods_of(fn)
        for n in fn.nodes():
            if n.get("k") in ("For", "While"):
                # counting loop over [0, E) in any spelling: for / while, `<` / `!=`, bound on either side, ++v / v++ / v += 1 once per iteration
                lr = norm.loop_range(fn, n, self.par, mods_)
                if lr is not None and lr["sign"] > 0 and lr["cmp"] in ("<", "!="):
                    st0 = self.strip_cast(lr["start"])
                    if st0 is not None and st0.get("k") == "Int" and str(st0.get("v")) == "0":
                        self.loopvar[lr["var"]] = (n, lr["bound"])
        self._vs = {}
        # evaluator fills: E(data, x)
        for _ in range(2):
            for n in fn.nodes():
                if n.get("k") == "OpCall" and n.get("op") == "()" and len(n.get("a", [])) >= 2:
                    a0, a1 = n["a"][0], n["a"][1]
                    if a1.get("k") == "Ref" and a1.get("dk") == "local" and "EvalData" in fn.ntype(a1) + self.vtype(a1.get("d")):
                        self.filled.setdefault(a1["d"], set()).update(self.side(a0))
            self._vs = {}

    def strip_cast(self, x):
        while x is not None and (x.get("k") == "Cast" or (x.get("k") in ("Construct", "TempObj") and len(x.get("a", [])) == 1 and not x.get("ccls"))):
            x = x.get("e") if x.get("k") == "Cast" else x["a"][0]
        return x

    def vtype(self, d):
        v = self.rs.var(d)
        return self.fn.type(v.get("t")) if v is not None else ""

    # ---- sides ---------------------------------------------------------------------------------
    def var_side(self, d, depth=0):
        if d in self._vs:
            return self._vs[d]
        self._vs[d] = set()
        out = set(self.filled.get(d, ()))
        v = self.rs.var(d)
        if v is not None and v.get("init") is not None and depth < 12:
            out |= self.side(v["init"], depth + 1)
        self._vs[d] = out
        return out

    def side(self, n, depth=0):
        out = set()
        if n is None:
            return out
        for x in walk(n):
            if x.get("k") == "Ref":
                if x.get("dk") == "param" and x.get("d") in self.bind:
                    out |= self.parent.side(self.bind[x["d"]], depth + 1)
                elif x.get("dk") == "param" and x.get("d") in self.pside:
                    out.add(self.pside[x["d"]])
                elif x.get("dk") == "local":
                    out |= self.var_side(x["d"], depth)
        return out

    # ---- helper inlining -------------------------------------------------------------------------
    def cpath(self, n):
        """access path of an expression with the parameters of inlined helpers replaced by the caller's argument paths (canonical across contexts)"""
        p = self.rs.path(n)
        if self.parent is None or not p.steps:
            return p
        root = p.steps[0]
        if root[0] == "param" and root[1] in self.bind:
            pp = self.parent.cpath(self.bind[root[1]])
            return Path(pp.steps + p.steps[1:], pp.decls | p.decls, p.text)
        if root[0] == "local":
            return Path((("local", root[1], id(self)),) + p.steps[1:], p.decls, p.text)
        return p

    def origin(self, n):
        """(context, node): the caller's expression a (chain of) bound helper parameter(s) stands for"""
        n = self.strip_cast(n)
        if n is not None and n.get("k") == "Ref" and n.get("dk") == "param" and n.get("d") in self.bind:
            return self.parent.origin(self.bind[n["d"]])
        return self, n

    def sub_context(self, call):
        """context of the body of a helper defined in the analysed sources (non-virtual, bounded depth), parameters bound to the call's arguments"""
        if id(call) in self._sub:
            return self._sub[id(call)]
        self._sub[id(call)] = None
        if self.depth >= 3 or call.get("k") not in ("Call", "MCall"):
            return None
        if call.get("k") == "MCall" and not (call.get("obj") is None or call["obj"].get("k") == "This" or call.get("cstatic")):
            return None
        g = norm.find_callee(self.fn.facts, call)
        ctx = self
        while ctx is not None:
            if g is ctx.fn:
                return None          # recursion
            ctx = ctx.parent
        if g is None or g.d.get("virtual") or len(g.params) != len(call.get("a", [])):
            return None
        sub = GT(self.ck, g, self.fkey, parent=self, bind={p["d"]: a for p, a in zip(g.params, call["a"])}, depth=self.depth + 1)
        self._sub[id(call)] = sub
        return sub

    def call_kind(self, call, depth):
        """index kind of the value a helper returns (early returns folded into conditional expressions)"""
        sub = self.sub_context(call)
        if sub is None:
            return None
        e = norm.return_expr(sub.fn, local_updates=True)
        if e is None:
            return None
        return sub.kind(e, depth + 1)

    def side1(self, n):
        s = self.side(n)
        return next(iter(s)) if len(s) == 1 else None

    # ---- kinds ---------------------------------------------------------------------------------
    def accessor_chain(self, n):
        """(side of the root object | None, accessor names applied to it) — through the bound parameters of inlined helpers"""
        p = self.rs.path(n)
        names = [st[1] for st in p.steps if st[0] == "call"]
        if not p.steps:
            return None, names
        root = p.steps[0]
        if root[0] == "param" and root[1] in self.bind:
            s, pre = self.parent.accessor_chain(self.bind[root[1]])
            return s, pre + names
        s = None
        if root[0] == "param":
            s = self.pside.get(root[1])
        elif root[0] == "local":
            ss = self.var_side(root[1])
            s = next(iter(ss)) if len(ss) == 1 else None
        return s, names

    def perm_kind(self, n):
        """('perm'|'inv', side) for an expression denoting mesh.get_mesh_permutation().get_perm()/get_inv_perm()"""
        s, names = self.accessor_chain(n)
        if len(names) >= 2 and names[-2] == "get_mesh_permutation" and names[-1] in ("get_perm", "get_inv_perm"):
            return ("perm" if names[-1] == "get_perm" else "inv", s)
        return None

    def kind(self, n, depth=0):
        fn = self.fn
        if n is None or depth > 12:
            return None
        k = n.get("k")
        if k == "Cast":
            return self.kind(n.get("e"), depth + 1)
        if k in ("Construct", "TempObj") and len(n.get("a", [])) == 1:
            return self.kind(n["a"][0], depth + 1)
        if k == "Ref" and n.get("dk") == "param" and n.get("d") in self.bind:
            return self.parent.kind(self.bind[n["d"]], depth + 1)
        if k == "Ref" and n.get("dk") == "local":
            d = n["d"]
            if d in self.loopvar:
                loop, bound = self.loopvar[d]
                b = self.strip_cast(self.rs.value(bound))
                b = self.strip_cast(self.rs.value(b)) if b is not None else b
                if b is not None and b.get("k") == "MCall":
                    nm = callee_name(b)
                    obj = b.get("obj")
                    if nm == "get_num_cells":
                        return ("cellP", self.side1(obj))
                    if nm == "get_num_children":
                        return ("child",)
                    if nm == "get_num_local_dofs":
                        return ("ldof", self.side1(obj))
                    if nm == "get_num_points" and obj is not None and obj.get("k") == "Ref":
                        return ("cub", obj.get("d"))
                return ("loop?", render(bound))
            v = self.rs.var(d)
            if v is not None and v.get("init") is not None and not v.get("ref") and d not in dfl.assigned_decls(fn):
                return self.kind(v["init"], depth + 1)
            if v is not None and v.get("init") is not None and not v.get("ref"):
                return self.if_lookup_kind(n, v, depth)
            return None
        if k == "Cond":
            return self.cond_lookup_kind(n, depth)
        if k == "MCall" and callee_name(n) == "map" and len(n.get("a", [])) == 1:
            return self.map_kind(n, depth)
        if k == "MCall" and callee_name(n) == "calc_fcell":
            return self.calc_fcell_kind(n, depth)
        if k in ("Call", "MCall"):
            return self.call_kind(n, depth)
        return None

    def if_lookup_kind(self, use, var, depth):
        """T v = x; if(guard) v = P.map(x | v);   (no else, single assignment, before the use)  ==  guard ? P.map(x) : x"""
        d = var["d"]
        assigns = [x for x in self.fn.nodes() if x.get("k") == "Assign" and x["lhs"].get("k") == "Ref" and x["lhs"].get("d") == d]
        incs = [x for x in self.fn.nodes() if x.get("k") == "Un" and x.get("op") in ("++", "--") and x["e"].get("k") == "Ref" and x["e"].get("d") == d]
        if len(assigns) != 1 or incs or assigns[0].get("op") != "=":
            return None
        asg = assigns[0]
        # the assignment is the only statement of the then-branch of an if without else
        cur, ifn = asg, None
        for _ in range(3):
            pr = self.par.get(id(cur))
            if pr is None:
                break
            pn, slot = pr
            if pn.get("k") == "Block" and len(pn.get("s", [])) == 1:
                cur = pn
                continue
            if pn.get("k") == "If" and slot == "then" and pn.get("else") is None:
                ifn = pn
            break
        if ifn is None:
            return None
        cfg = self.fn.cfg
        decl = self.rs.var_decl_stmt.get(d)
        # declaration, if and use in this order in one statement list; the use is not inside the if
        pb = self.par.get(id(ifn))
        if pb is None or pb[0].get("k") != "Block" or decl is None or decl not in pb[0].get("s", []):
            return None
        stmts = pb[0]["s"]
        if stmts.index(decl) > stmts.index(ifn):
            return None
        anc = use
        top = None
        while id(anc) in self.par:
            anc, sl = self.par[id(anc)]
            if anc is ifn:
                return None
            if anc in stmts:
                top = anc
                break
        if top is None or stmts.index(top) < stmts.index(ifn):
            return None
        rhs = asg["rhs"]
        if rhs.get("k") == "MCall" and callee_name(rhs) == "map" and len(rhs.get("a", [])) == 1:
            arg = rhs["a"][0]
            if arg.get("k") == "Ref" and arg.get("d") == d:
                arg = var["init"]              # v = P.map(v): v still holds its initial value here
            synth = {"k": "Cond", "c": ifn["c"], "then": dict(rhs, a=[arg]), "else": var["init"], "l": asg.get("l")}
            return self.cond_lookup_kind(synth, depth)
        return None

    # ---- guarded permutation lookups -------------------------------------------------------------
    def guard_formula(self, n, atoms, depth=0):
        """boolean formula over atoms ('nonempty', permutation path): ('atom', i) | ('not', f) | ('and', f, g) | ('or', f, g) | ('const', b);
        None if the condition is not understood"""
        if n is None or depth > 12:
            return None
        n = self.rs.value(n)
        k = n.get("k")
        if k == "Ref" and n.get("dk") == "param" and n.get("d") in self.bind:
            return self.parent.guard_formula(self.bind[n["d"]], atoms, depth + 1)
        if k == "Bool":
            return ("const", bool(n.get("v")))
        if k == "Cast":
            return self.guard_formula(n.get("e"), atoms, depth + 1)
        if k == "Un" and n.get("op") == "!":
            f = self.guard_formula(n["e"], atoms, depth + 1)
            return None if f is None else ("not", f)
        if k == "Bin" and n.get("op") in ("&&", "||"):
            f, g = self.guard_formula(n["lhs"], atoms, depth + 1), self.guard_formula(n["rhs"], atoms, depth + 1)
            return None if f is None or g is None else ("and" if n["op"] == "&&" else "or", f, g)

        def atom(obj):
            p = self.cpath(obj)
            if p.opaque():
                return None
            if p not in atoms:
                atoms.append(p)
            return ("atom", atoms.index(p))
        if k == "MCall" and callee_name(n) == "empty" and not n.get("a"):
            f = atom(n.get("obj"))
            return None if f is None else ("not", f)
        if k == "Bin" and n.get("op") in (">", "<", "!=", "==", ">=", "<="):
            l, r = self.rs.value(n["lhs"]), self.rs.value(n["rhs"])
            op = n["op"]

            def is_size(x):
                while x.get("k") == "Cast" or (x.get("k") in ("Construct", "TempObj") and len(x.get("a", [])) == 1):
                    x = self.rs.value(x.get("e") or x["a"][0])
                return x if x.get("k") == "MCall" and callee_name(x) == "size" and not x.get("a") else None

            def is_zero(x):
                while x.get("k") == "Cast" or (x.get("k") in ("Construct", "TempObj") and len(x.get("a", [])) == 1):
                    x = self.rs.value(x.get("e") or x["a"][0])
                return x.get("k") == "Int" and str(x.get("v")) == "0"
            sz, flip = (is_size(l), False) if is_zero(r) else ((is_size(r), True) if is_zero(l) else (None, False))
            if sz is None:
                return None
            if flip:
                op = {">": "<", "<": ">", ">=": "<=", "<=": ">="}.get(op, op)
            f = atom(sz.get("obj"))
            if f is None:
                return None
            if op in (">", "!="):          # size() > 0, size() != 0
                return f
            if op in ("==", "<="):         # size() == 0, size() <= 0
                return ("not", f)
            return None
        return None

    @staticmethod
    def eval_formula(f, val):
        t = f[0]
        if t == "const":
            return f[1]
        if t == "atom":
            return val[f[1]]
        if t == "not":
            return not GT.eval_formula(f[1], val)
        if t == "and":
            return GT.eval_formula(f[1], val) and GT.eval_formula(f[2], val)
        return GT.eval_formula(f[1], val) or GT.eval_formula(f[2], val)

    def cond_lookup_kind(self, n, depth):
        """c ? x : P.map(x)  /  c ? P.map(x) : x  — the lookup must be taken exactly when P is non-empty"""
        import itertools
        c, t, e = n["c"], self.rs.value(n["then"]), self.rs.value(n["else"])

        def is_map(x):
            return x.get("k") == "MCall" and callee_name(x) == "map" and len(x.get("a", [])) == 1
        if is_map(t) == is_map(e):
            return None
        lookup, ident, in_then = (t, n["else"], True) if is_map(t) else (e, n["then"], False)
        if render(self.rs.value(ident)) != render(self.rs.value(lookup["a"][0])) or self.rs.path(ident) != self.rs.path(lookup["a"][0]):
            return ("bad", "identity branch yields %s but the permutation is applied to %s" % (render(ident), render(lookup["a"][0])))
        atoms = []
        f = self.guard_formula(c, atoms)
        if f is None:
            return None
        if not in_then:
            f = ("not", f)
        P = self.cpath(lookup.get("obj"))
        if P not in atoms:
            if any(True for _ in atoms):
                return ("bad", "the lookup through %s is guarded by the emptiness of %s only" % (P, ", ".join(map(repr, atoms))))
            return None
        ip = atoms.index(P)
        for val in itertools.product((False, True), repeat=len(atoms)):
            taken = GT.eval_formula(f, val)
            if taken != val[ip]:
                others = ", ".join("%s %s" % (a_, "non-empty" if v else "empty") for a_, v in zip(atoms, val) if a_ != P)
                if val[ip]:
                    return ("bad", "the permutation lookup %s is skipped although %s is non-empty (admissible input: %s; exactly one level permuted): "
                                   "the guard %s is not equivalent to '%s is non-empty'" % (render(lookup)[:50], P, others or "-", render(self.rs.value(c))[:80], P))
                return ("bad", "the permutation lookup %s is executed although %s is empty (%s): the guard %s is not equivalent to '%s is non-empty'" % (
                    render(lookup)[:50], P, others or "-", render(self.rs.value(c))[:80], P))
        return self.map_kind(lookup, depth)

    def map_kind(self, n, depth):
        pk = self.perm_kind(n.get("obj"))
        ak = self.kind(n["a"][0], depth + 1)
        if pk is None or ak is None:
            return None
        which, s = pk
        if s is None or ak[0] in ("loop?",):
            return None
        # MeshPermutation: get_perm() maps the index of a cell of the permuted mesh to its index before permutation (the
        # 2-level ordering of the refinement algorithm), get_inv_perm() maps back (mesh_permutation.hpp; same convention
        # as SymbolicAssembler::assemble_graph_intermesh)
        if which == "perm" and ak == ("cellP", s):
            return ("cell2", s)
        if which == "inv" and ak == ("cell2", s):
            return ("cellP", s)
        return ("bad", "%s of the %s mesh applied to an index of kind %s" % ("forward permutation get_perm()" if which == "perm" else "inverse permutation get_inv_perm()",
                                                                              {"F": "fine", "C": "coarse"}.get(s, "?"), fmt_kind(ak)))

    def calc_fcell_kind(self, n, depth):
        if id(n) in self._fc:
            return self._fc[id(n)]
        r = self._calc_fcell_kind(n, depth)
        self._fc[id(n)] = r
        return r

    def _calc_fcell_kind(self, n, depth):
        octx, obj = self.origin(n.get("obj"))
        ok = True
        why = []
        # the mapping object is built from (fine mesh, coarse mesh)
        if obj is not None and obj.get("k") == "Ref" and obj.get("dk") == "local":
            v = octx.rs.var(obj["d"])
            ini = v.get("init") if v else None
            if ini is not None and is_call(ini):
                fm, cm = dfl.arg_by_param(ini, "fine_mesh"), dfl.arg_by_param(ini, "coarse_mesh")
                if fm is None or cm is None or not octx.side(fm) or not octx.side(cm):
                    self.ck.incomplete("E2.child-cell-map", "%s: construction %s of the coarse-fine cell mapping not understood" % (self.fkey, render(ini)[:80]))
                    return None
                if octx.side(fm) != {"F"} or octx.side(cm) != {"C"}:
                    ok = False
                    why.append("CoarseFineCellMapping constructed from (fine_mesh=%s, coarse_mesh=%s)" % (render(fm), render(cm)))
        cc, ch = dfl.arg_by_param(n, "ccell"), dfl.arg_by_param(n, "child")
        kc, kh = self.kind(cc, depth + 1), self.kind(ch, depth + 1)
        if kc is None or kh is None or kc[0] == "loop?" or kh[0] == "loop?" or cc is None or ch is None:
            self.ck.incomplete("E2.child-cell-map", "%s: arguments of calc_fcell(%s, %s) not understood (%s, %s)" % (self.fkey, render(cc), render(ch), fmt_kind(kc), fmt_kind(kh)))
            return None
        if kc != ("cell2", "C"):
            ok = False
            why.append("argument ccell=%s has kind %s, expected a coarse cell index in 2-level ordering" % (render(cc), fmt_kind(kc)))
        if kh != ("child",):
            ok = False
            why.append("argument child=%s has kind %s, expected the child number" % (render(ch), fmt_kind(kh)))
        self.ck.ob("E2.child-cell-map", "%s/calc_fcell" % self.fkey, ok, "; ".join(why) or "calc_fcell(ccell: coarse 2-level cell, child: child number) -> fine 2-level cell",
                   self.fn.file, n.get("l"), sample={"ccell": render(cc), "child": render(ch)})
        return ("cell2", "F") if ok else ("bad", "; ".join(why))


def fmt_kind(k):
    if k is None:
        return "unknown"
    names = {"cellP": "cell index of the %s mesh", "cell2": "2-level-ordering cell index of the %s mesh", "ldof": "local dof index of the %s space"}
    if k[0] in names:
        return names[k[0]] % {"F": "fine", "C": "coarse", None: "?"}.get(k[1], "?")
    if k[0] == "bad":
        return "ill-formed (%s)" % k[1]
    return {"child": "child number", "cub": "cubature point index"}.get(k[0], str(k))


def reaches_calc_fcell(fn, depth=0, seen=None):
    """the function computes child cells with CoarseFineCellMapping::calc_fcell, directly or through helpers defined in the analysed sources"""
    seen = seen if seen is not None else set()
    if id(fn) in seen or depth > 3:
        return False
    seen.add(id(fn))
    for c in stmt_calls(fn):
        if callee_name(c) == "calc_fcell":
            return True
        if c.get("k") in ("Call", "MCall") and (c.get("cfile") or "").startswith(R("kernel/assembly/")):
            g = norm.find_callee(fn.facts, c)
            if g is not None and g is not fn and g.name not in PRODUCERS and reaches_calc_fcell(g, depth + 1, seen):
                return True
    return False


def innermost_loop(par, n):
    cur = n
    while id(cur) in par:
        cur, slot = par[id(cur)]
        if cur.get("k") in ("For", "While", "Do", "ForRange") and slot == "body":
            return cur
    return None


def check_grid_transfer(ck, fn):
    name = fn.name
    sp = "%s<%s>" % (name, ",".join(sorted({short(fn.type(p["t"])).split("<")[0].split("::")[-2] + ":" + re.sub(r".*(Hypercube|Simplex)<(\d)>.*", r"\1\2", fn.type(p["t"]))
                                                 for p in fn.params if "Space::" in fn.type(p["t"])})))
    fkey = "GridTransfer::" + sp
    g = GT(ck, fn, fkey)
    rs, par = g.rs, g.par
    if sorted(g.pside.values()) != ["C", "F"]:
        ck.incomplete("E2.cell-index", fkey + ": fine_space / coarse_space parameters not recognised")
        return
    calls = stmt_calls(fn)
    # ---- own beliefs: container dimension <-> space ---------------------------------------------
    dims = {}      # (param decl, 'rows'|'columns'|'size') -> side
    eqs = []
    for c in calls:
        if c.get("callee") == "FEAT::assertion" and c.get("a"):
            e = c["a"][0]
            if e.get("k") == "Bin" and e.get("op") == "==":
                sides = []
                for x in (e["lhs"], e["rhs"]):
                    if x.get("k") == "MCall" and (x.get("obj") or {}).get("k") == "Ref" and x["obj"].get("dk") == "param":
                        if callee_name(x) == "get_num_dofs" and x["obj"]["d"] in g.pside:
                            sides.append(("side", g.pside[x["obj"]["d"]]))
                        elif callee_name(x) in ("rows", "columns", "size"):
                            sides.append(("dim", (x["obj"]["d"], callee_name(x))))
                if len(sides) == 2:
                    eqs.append(sides)
    for _ in range(3):
        for a, b in eqs:
            for x, y in ((a, b), (b, a)):
                if x[0] == "dim":
                    sv = y[1] if y[0] == "side" else dims.get(y[1])
                    if sv is not None:
                        if dims.get(x[1], sv) != sv:
                            ck.ob("E1.scatter-roles", fkey + "/asserts", False, "the function's own assertions equate one dimension with both spaces", fn.file, fn.line)
                        dims[x[1]] = sv
    want_rows = {"assemble_prolongation": "F", "assemble_truncation": "C"}.get(name)
    # ---- cell indices --------------------------------------------------------------------------
    n_prep = 0
    for c in calls:
        if c.get("k") == "MCall" and callee_name(c) == "prepare" and len(c.get("a", [])) == 1:
            obj, a = c.get("obj"), c["a"][0]
            so = g.side1(obj)
            at = fn.ntype(a)
            if "Evaluator" in at or "evaluator" in at.lower():
                sa = g.side1(a)
                if so is None or sa is None:
                    ck.incomplete("E2.cell-index", "%s: fine/coarse side of %s or %s not understood" % (fkey, render(obj), render(a)))
                    continue
                ck.ob("E2.cell-index", "%s/%s.prepare(evaluator)" % (fkey, render(obj)), so is not None and so == sa,
                      "%s (side %s) prepared with %s (side %s)" % (render(obj), so, render(a), sa), fn.file, c.get("l"))
                # prepare order: the evaluator handed over must itself have been prepared for the cell of THIS iteration
                tp = rs.path(a)
                il_ = innermost_loop(par, c)
                tprep = [p_ for p_ in calls if p_.get("k") == "MCall" and callee_name(p_) == "prepare" and len(p_.get("a", [])) == 1 and p_ is not c
                         and rs.path(p_.get("obj")) == tp and innermost_loop(par, p_) is il_]
                okey = "%s/%s.prepare(%s)" % (fkey, render(obj), render(a))
                if any(fn.cfg.stmt_dominates(p_["i"], c["i"]) for p_ in tprep):
                    ck.ob("E7.prepare-order", okey, True, "%s.prepare(cell) dominates %s.prepare(%s) in the same loop iteration" % (render(a), render(obj), render(a)), fn.file, c.get("l"))
                elif tprep and all(fn.cfg.stmt_dominates(c["i"], p_["i"]) for p_ in tprep):
                    ck.ob("E7.prepare-order", okey, False, "%s is prepared from %s at line %s BEFORE %s.prepare(cell) at line %s of the same iteration: the space evaluator is set up for "
                          "the cell of the previous iteration (wrong for every evaluator whose prepare() reads the trafo evaluator's cell data: non-parametric / isoparametric "
                          "elements; a no-op only for Lagrange-type evaluators)" % (render(obj), render(a), c.get("l"), render(a), tprep[0].get("l")), fn.file, c.get("l"))
                else:
                    other_ = dfl.unmodelled_mutable_uses(fn, rs, tp, modelled=("prepare", "finish", "operator()"))
                    ck.incomplete("E7.prepare-order", "%s: no %s.prepare(cell) that dominates it in the same loop iteration was found%s" % (
                        okey, render(a), " (the evaluator is handed to %s, which is not modelled)" % render(other_[0])[:40] if other_ else " (conditional / different loop)"))
                continue
            kd = g.kind(a)
            if so is None or kd is None or kd[0] == "loop?":
                ck.incomplete("E2.cell-index", "%s: cell index expression %s passed to %s.prepare not understood (%s)" % (fkey, render(rs.value(a))[:80], render(obj), fmt_kind(kd)))
                continue
            ok = so is not None and kd == ("cellP", so)
            ck.ob("E2.cell-index", "%s/%s.prepare" % (fkey, render(obj)), ok,
                  "%s belongs to the %s space/mesh and is prepared with %s of kind: %s%s" % (
                      render(obj), {"F": "fine", "C": "coarse"}.get(so, "?"), render(a), fmt_kind(kd), "" if ok else " — expected the cell index of that mesh (after the mesh permutation lookup)"),
                  fn.file, c.get("l"), sample={"object": render(obj), "index": render(a), "kind": fmt_kind(kd)})
            n_prep += 1
    check_accumulators(ck, fn, g, fkey, calls)
    # ---- local dof indices ----------------------------------------------------------------------
    locmat = {}       # decl of a Tiny matrix/vector local -> list of index-kind tuples seen
    phi_acc = {}      # evaluation-data object -> [(ok, text, line)]: ONE instance per data object, however many times its phi[] is read (caching a product
                      # like omega*phi[i] in a local removes reads, it does not remove the obligation)
    phi_unk = set()
    for n in fn.nodes():
        if n.get("k") == "Index" and n["b"].get("k") == "Member" and n["b"].get("n") == "phi":
            data = n["b"].get("b")
            sd = g.side1(data)
            kd = g.kind(n["idx"])
            dkey = render(rs.value(data)) if data is not None else "?"
            if sd is None or kd is None or kd[0] == "loop?":
                ck.incomplete("E2.local-dof-index", "%s: index %s of %s.phi not understood (%s)" % (fkey, render(n["idx"]), render(data), fmt_kind(kd)))
                phi_unk.add(dkey)
                continue
            ok = sd is not None and kd == ("ldof", sd)
            phi_acc.setdefault((dkey, sd), []).append((ok, "%s.phi[%s] feeding %s: %s" % (render(data), render(n["idx"]), lhs_name(par, n), fmt_kind(kd)), n.get("l")))
        elif n.get("k") == "OpCall" and n.get("op") in ("()", "[]") and strip_targs(n.get("ccls", "") or strip_targs(n.get("callee", "")).rsplit("::", 1)[0]).startswith("FEAT::Tiny::"):
            a = n.get("a", [])
            base = a[0] if a else None
            idx = a[1:]
            # m[i][j] : operator[] on the row of operator[]
            if base is not None and base.get("k") in ("OpCall", "Index") and n.get("op") == "[]":
                inner = base
                ib = inner.get("a", [None])[0] if inner.get("k") == "OpCall" else inner.get("b")
                ii = inner.get("a", [None, None])[1] if inner.get("k") == "OpCall" else inner.get("idx")
                if ib is not None and ib.get("k") == "Ref":
                    base, idx = ib, [ii] + idx
            if base is not None and base.get("k") == "Ref" and base.get("dk") == "local" and idx and all(i is not None and i.get("k") != "Int" for i in idx):
                kinds = tuple(g.kind(i) for i in idx)
                prn = par.get(id(n))
                if prn and prn[0].get("k") == "OpCall" and prn[0].get("op") == "[]" and prn[1] == ("a", 0):
                    continue      # the row part of m[i][j]; handled with the outer node
                locmat.setdefault(base["d"], []).append((kinds, n))
    for (dkey, sd), lst in sorted(phi_acc.items()):
        if dkey in phi_unk:
            continue
        bad = [x for x in lst if not x[0]]
        ck.ob("E2.local-dof-index", "%s/%s.phi" % (fkey, dkey), not bad,
              ("basis function data of the %s space: " % {"F": "fine", "C": "coarse"}.get(sd, "?")) + ("; ".join("line %s: %s" % (x[2], x[1]) for x in bad) if bad else
              "all %d reads of phi[] are indexed with a local dof index of the same space" % len(lst)), fn.file, (bad or lst)[0][2])
    # ---- scatter / gather roles -----------------------------------------------------------------
    weight_scatter = []
    mat_scatter = []
    for c in calls:
        if c.get("k") == "OpCall" and c.get("op") == "()" and re.search(r"::(ScatterAxpy|GatherAxpy)::operator\(\)$", c.get("callee", "")):
            sobj = c["a"][0]
            v = rs.var(sobj.get("d")) if sobj.get("k") == "Ref" else None
            src = None
            if v is not None and v.get("init") is not None and is_call(v["init"]) and len(v["init"].get("a", [])) == 1:
                src = v["init"]["a"][0]
            if src is None or src.get("k") != "Ref" or src.get("dk") != "param":
                ck.incomplete("E1.scatter-roles", "%s: %s is not constructed from a container parameter" % (fkey, render(sobj)))
                continue
            lm = dfl.arg_by_param(c, "loc_mat")
            if lm is not None:
                rm, cm = dfl.arg_by_param(c, "row_map"), dfl.arg_by_param(c, "col_map")
                rside, cside = dims.get((src["d"], "rows")), dims.get((src["d"], "columns"))
                if rside is None or cside is None or g.side1(rm) is None or g.side1(cm) is None:
                    ck.incomplete("E1.scatter-roles", "%s: dimensions of %s are not asserted against the spaces, or the side of the mappings %s / %s is not understood" % (
                        fkey, src["n"], render(rm), render(cm)))
                    continue
                ok = rside is not None and cside is not None and g.side1(rm) == rside and g.side1(cm) == cside
                detail = "matrix %s is asserted (rows: %s space, columns: %s space); scattered with row_map=%s (%s), col_map=%s (%s)" % (
                    src["n"], rside, cside, render(rm), g.side1(rm), render(cm), g.side1(cm))
                if want_rows is not None and rside != want_rows:
                    ok = False
                    detail += "; a %s matrix must have %s rows" % (name.split("_")[1], {"F": "fine", "C": "coarse"}[want_rows])
                ck.ob("E1.scatter-roles", "%s/%s(matrix %s)" % (fkey, "scatter", src["n"]), ok, detail, fn.file, c.get("l"),
                      sample={"row_map": render(rm), "col_map": render(cm)})
                mat_scatter.append((c, lm, g.side1(rm), g.side1(cm)))
            else:
                lv, mp = dfl.arg_by_param(c, "loc_vec"), dfl.arg_by_param(c, "mapping")
                vside = dims.get((src["d"], "size"))
                if vside is None or g.side1(mp) is None:
                    ck.incomplete("E1.scatter-roles", "%s: size of %s is not asserted against a space, or the side of the mapping %s is not understood" % (fkey, src["n"], render(mp)))
                    weight_scatter.append((c, lv, src, g.side1(mp)))
                    continue
                ok = vside is not None and g.side1(mp) == vside
                ck.ob("E1.scatter-roles", "%s/%s(vector %s)" % (fkey, "gather" if "Gather" in c["callee"] else "scatter", src["n"]), ok,
                      "vector %s is asserted to have the size of the %s space; accessed with mapping=%s (%s)" % (src["n"], vside, render(mp), g.side1(mp)), fn.file, c.get("l"))
                al = dfl.arg_by_param(c, "alpha")
                weight_scatter.append((c, lv, src, g.side1(mp)))
    # ---- local projection: M^-1 * N -------------------------------------------------------------
    wparam = fn.params[1]["n"]      # (weighted object, weight vector, ...) by position
    inv = [c for c in calls if c.get("callee") == "FEAT::Math::invert_matrix"]
    mults = [c for c in calls if c.get("k") == "MCall" and callee_name(c) == "set_mat_mat_mult"]
    key = fkey + "/local-projection"
    if len(inv) != 1 or not mults:
        ck.incomplete("E6.local-mass-inverse", "%s: %d invert_matrix calls, %d set_mat_mat_mult calls" % (fkey, len(inv), len(mults)))
        return
    iv = inv[0]
    a_arr = dfl.arg_by_param(iv, "a")
    mroot = [x for x in walk(a_arr) if x.get("k") == "Ref" and x.get("dk") == "local"]
    mass_d = mroot[0]["d"] if len(mroot) == 1 else None
    n_arg = dfl.arg_by_param(iv, "n")
    problems = []
    cfg = fn.cfg
    for mu in mults:
        a, b = dfl.arg_by_param(mu, "a"), dfl.arg_by_param(mu, "b")
        res = mu.get("obj")
        if mass_d is None or a is None or a.get("k") != "Ref" or a.get("dk") != "local" or b is None or b.get("k") != "Ref":
            ck.incomplete("E6.local-mass-inverse", "%s: operands of the local product %s / the array handed to invert_matrix (%s) are not plain local matrices" % (fkey, render(mu)[:60], render(a_arr)[:40]))
            return
        if a.get("d") != mass_d:
            problems.append((mu.get("l"), "left factor of the local product is %s, not the inverted mass matrix %s (X = M^-1 * N)" % (render(a), mroot[0]["n"] if mroot else "?")))
        if not cfg.stmt_dominates(iv["i"], mu["i"]):
            ck.incomplete("E6.local-mass-inverse", "%s: invert_matrix does not dominate the product (conditional inversion not modelled)" % fkey)
            return
        # which scatter consumes the product
        rs_ = cs_ = None
        if name != "prolongate_vector":
            used = [ms for ms in mat_scatter if ms[1].get("k") == "Ref" and res is not None and ms[1].get("d") == res.get("d")]
            if len(used) != 1:
                ck.incomplete("E6.local-mass-inverse", "%s: the product %s = M^-1*N is not directly the local matrix that is scattered (%s): shape not recognised" % (fkey, render(res), ", ".join(render(ms[1]) for ms in mat_scatter)))
                return
            else:
                rs_, cs_ = used[0][2], used[0][3]
        else:
            # matrix-free route: local fine vector = X * local coarse vector; sides from the scatter / gather mappings
            vec_side = {}
            for c, lv, src, sd in weight_scatter:
                if lv is not None and lv.get("k") == "Ref":
                    vec_side[lv["d"]] = (sd, src["n"], "Gather" in c["callee"])
            outs = [d for d, (sd, pn, ga) in vec_side.items() if not ga and pn != wparam]
            ins = [d for d, (sd, pn, ga) in vec_side.items() if ga]
            if len(outs) != 1 or len(ins) != 1:
                ck.incomplete("E6.local-mass-inverse", fkey + ": local result / input vectors of the matrix-free route not recognised")
            else:
                rs_, cs_ = vec_side[outs[0]][0], vec_side[ins[0]][0]
                for d, want, label in ((outs[0], (("ldof", rs_),), "local result vector"), (ins[0], (("ldof", cs_),), "local input vector"),
                                       (res.get("d") if res is not None else None, (("ldof", rs_), ("ldof", cs_)), "local projection matrix X")):
                    accs = locmat.get(d, [])
                    if not accs:
                        ck.incomplete("E6.local-mass-inverse", "%s: %s is never used entry-wise (computed by a construct that is not modelled)" % (fkey, label))
                    for kinds, node in accs:
                        if any(kk is None or kk[0] == "loop?" for kk in kinds):
                            ck.incomplete("E6.local-mass-inverse", "%s: index of %s not understood" % (fkey, render(node)))
                            continue
                        if kinds != want:
                            problems.append((node.get("l"), "%s entry %s is indexed (%s), expected (%s)" % (label, render(node), ", ".join(map(fmt_kind, kinds)), ", ".join(map(fmt_kind, want)))))
        if rs_ is not None:
            # index kinds of the factors
            for d, want, label in ((mass_d, (("ldof", rs_), ("ldof", rs_)), "mass matrix"), (b.get("d") if b is not None and b.get("k") == "Ref" else None, (("ldof", rs_), ("ldof", cs_)), "inter-level matrix")):
                accs = locmat.get(d, [])
                if not accs:
                    ck.incomplete("E6.local-mass-inverse", "%s: %s is never assembled entry-wise (assembled by a construct that is not modelled)" % (fkey, label))
                for kinds, node in accs:
                    if any(kk is None or kk[0] == "loop?" for kk in kinds):
                        ck.incomplete("E6.local-mass-inverse", "%s: index of %s not understood" % (fkey, render(node)))
                        continue
                    if kinds != want:
                        problems.append((node.get("l"), "%s entry %s is indexed (%s), expected (%s)" % (label, render(node), ", ".join(map(fmt_kind, kinds)), ", ".join(map(fmt_kind, want)))))
            nv = rs.value(n_arg)
            n_side = g.side1(nv.get("obj")) if nv.get("k") == "MCall" and callee_name(nv) == "get_num_local_dofs" else None
            if n_side is None:
                ck.incomplete("E6.local-mass-inverse", "%s: dimension argument %s of invert_matrix not understood" % (fkey, render(n_arg)))
            elif n_side != rs_:
                problems.append((iv.get("l"), "invert_matrix is told the dimension %s, expected the number of local dofs of the %s space" % (render(n_arg), rs_)))
    # the format of the mass matrix precedes its assembly in the same loop as the inversion
    fmts = [c for c in calls if (c.get("k") == "MCall" and callee_name(c) == "format" and (c.get("obj") or {}).get("d") == mass_d) or
            (c.get("k") == "OpCall" and c.get("op") == "=" and len(c.get("a", [])) == 2 and c["a"][0].get("k") == "Ref" and c["a"][0].get("d") == mass_d
             and unwrap_num(rs, c["a"][1]) == 0.0)]
    il = innermost_loop(par, iv)
    if not any(innermost_loop(par, f) is il and cfg.stmt_dominates(f["i"], iv["i"]) for f in fmts):
        acc_nodes = [node for kinds, node in locmat.get(mass_d, [])]
        other = [w for w in local_writes(fn, mass_d, skip=[iv] + fmts) if not any(x in acc_nodes for x in walk(w)) and innermost_loop(par, w) is il]
        mv = rs.var(mass_d)
        decl_in_loop = mv is not None and rs.var_decl_stmt.get(mass_d) is not None and innermost_loop(par, rs.var_decl_stmt[mass_d]) is il and il is not None
        if other or decl_in_loop:
            ck.incomplete("E6.local-mass-inverse", "%s: the mass matrix is not format()ted in the inversion loop, but it is (re)initialised there by %s, which is not modelled" % (
                fkey, render(other[0])[:60] if other else "its declaration"))
        else:
            problems.append((iv.get("l"), "the mass matrix is not re-formatted in the loop in which it is inverted (entries of the previous cell would be accumulated into an inverse)"))
    ck.ob("E6.local-mass-inverse", key, not problems, "; ".join("line %s: %s" % p for p in problems) or
          "X = set_mat_mat_mult(a = inverted local mass matrix (row space x row space), b = inter-level matrix (row space x column space)); X is what is scattered",
          fn.file, problems[0][0] if problems else iv.get("l"))
    # ---- weights: one increment of 1 per local projection ----------------------------------------
    wparam = fn.params[1]["n"]      # (weighted object, weight vector, ...) by position
    ws = [w for w in weight_scatter if w[2]["n"] == wparam]
    wp = []
    if len(ws) != 1:
        wd = fn.params[1]["d"]
        used = [x for x in fn.nodes() if x.get("k") == "Ref" and x.get("d") == wd]
        asserts_only = all(any(p_[0].get("callee") == "FEAT::assertion" for p_ in dfl.enclosing_stmt_chain(par, x)) for x in used)
        if len(ws) == 0 and (not used or asserts_only):
            ck.ob("E7.weight-per-projection", fkey + "/weights", False, "the weight vector parameter '%s' is never written: no multiplicities are counted" % wparam, fn.file, fn.line)
        else:
            ck.incomplete("E7.weight-per-projection", "%s: %d scatter operations into the weight vector parameter '%s'; the weights are handled by a construct that is not modelled" % (fkey, len(ws), wparam))
    else:
        c, lv, src, sd = ws[0]
        if innermost_loop(par, c) is not il:
            wp.append("the weight vector is incremented in a different loop than the one in which the local mass matrix is inverted: "
                      "the number of increments per dof no longer equals the number of local projections added to its matrix row")
        # value: the nearest preceding writer of the local weight vector in that loop formats it to 1
        lvd = lv.get("d") if lv.get("k") == "Ref" else None
        writers = [x for x in calls if x.get("k") == "MCall" and (x.get("obj") or {}).get("d") == lvd and not x.get("cconst") and cfg.stmt_dominates(x["i"], c["i"])]
        last = None
        for x in writers:
            if last is None or cfg.stmt_dominates(last["i"], x["i"]):
                last = x
        wdoubt = None
        otherw = [w for w in local_writes(fn, lvd, skip=writers + [c])] if lvd is not None else []
        if lvd is None:
            wdoubt = "the local weight vector %s is not a plain local" % render(lv)
        elif last is not None and callee_name(last) == "format" and innermost_loop(par, last) is innermost_loop(par, c) and not otherw:
            if not (last.get("a") and is_one(rs, last["a"][0])):
                v_ = rs.value(last["a"][0]) if last.get("a") else None
                if v_ is None or unwrap_num(rs, v_) is not None:
                    wp.append("the local weight vector %s is formatted to %s instead of 1 before it is scattered" % (render(lv), render(last["a"][0]) if last.get("a") else "0"))
                else:
                    wdoubt = "value %s of the local weight vector not understood" % render(last["a"][0])
        elif last is None and not otherw:
            wp.append("the local weight vector %s is never set before it is scattered" % render(lv))
        else:
            wdoubt = "the local weight vector %s is set by %s, which is not modelled" % (render(lv), render((otherw or [last])[0])[:60])
        al = dfl.arg_by_param(c, "alpha")
        if al is not None and not is_one(rs, al):
            if unwrap_num(rs, al) is not None:
                wp.append("weight scatter uses alpha=%s" % render(al))
            else:
                wdoubt = "scaling %s of the weight scatter not understood" % render(al)
        if wdoubt and not wp:
            ck.incomplete("E7.weight-per-projection", "%s: %s" % (fkey, wdoubt))
            check_refine_points(ck, fn, g, fkey, calls)
            return
        ck.ob("E7.weight-per-projection", fkey + "/weights", not wp, "; ".join(wp) or "one scatter of an all-ones local vector per inverted local mass matrix, same loop, mapping of the row space",
              fn.file, c.get("l"))
    # ---- refined cubature point of the coarse evaluation ----------------------------------------
    check_refine_points(ck, fn, g, fkey, calls)


def check_accumulators(ck, fn, g, fkey, calls, rule="E7.local-accumulator-reset"):
    """writer / reader contract of the local Tiny matrices and vectors of an assembler: a local X that is accumulated into (X(i,j) += ..., X[i] += ...,
    GatherAxpy(X, mapping) — an axpy, not an assignment) and consumed (inverted, multiplied, scattered, read) holds the contribution of ONE iteration
    of the innermost loop C that contains both the accumulation and the consumer only if X is reset (format() / assigned as a whole) inside C, before
    the accumulation.  A reset hoisted out of C leaves the sum over all earlier iterations in X from the second iteration on."""
    rs, par, cfg = g.rs, g.par, fn.cfg
    if cfg is None:
        return
    tiny = {}
    for d, v in rs.vars.items():
        t = fn.type(v.get("t")) if v.get("t") is not None else ""
        if re.search(r"\bTiny::(Matrix|Vector)<", t) and not v.get("ref") and not t.strip().endswith("*"):
            tiny[d] = v

    def base_local(x):
        """decl of the Tiny local an element access / expression denotes"""
        for _ in range(4):
            if x is None:
                return None
            if x.get("k") == "Ref":
                return x.get("d") if x.get("d") in tiny else None
            if x.get("k") == "OpCall" and x.get("op") in ("()", "[]") and x.get("a"):
                x = x["a"][0]
            elif x.get("k") == "Index":
                x = x.get("b")
            elif x.get("k") == "Member":
                x = x.get("b")
            else:
                return None
        return None
    acc, resets, reads, opaque = {}, {}, {}, {}
    claimed = set()
    for n in dfl.own_nodes(fn):
        k = n.get("k")
        if k == "Assign" and n.get("op") in ("+=", "-=") and base_local(n["lhs"]) is not None and n["lhs"].get("k") != "Ref":
            acc.setdefault(base_local(n["lhs"]), []).append(n)
            for x in walk(n["lhs"]):
                claimed.add(id(x))
        elif k == "Assign" and n.get("op") == "=" and n["lhs"].get("k") == "Ref" and n["lhs"].get("d") in tiny:
            resets.setdefault(n["lhs"]["d"], []).append(n)
            claimed.add(id(n["lhs"]))
        elif k == "OpCall" and n.get("op") == "=" and len(n.get("a", [])) == 2 and n["a"][0].get("k") == "Ref" and n["a"][0].get("d") in tiny:
            resets.setdefault(n["a"][0]["d"], []).append(n)          # operator=(value | matrix | initializer list): the whole object is overwritten
            claimed.add(id(n["a"][0]))
        elif k == "OpCall" and n.get("op") == "()" and re.search(r"::GatherAxpy::operator\(\)$", n.get("callee", "") or ""):
            lv = dfl.arg_by_param(n, "loc_vec")
            d = base_local(lv) if lv is not None else None
            if d is not None:
                acc.setdefault(d, []).append(n)
                claimed.add(id(lv))
        elif k == "MCall" and (n.get("obj") or {}).get("k") == "Ref" and n["obj"].get("d") in tiny and not n.get("cconst"):
            d = n["obj"]["d"]
            nm = callee_name(n)
            if nm == "format" or nm.startswith("set_"):
                resets.setdefault(d, []).append(n)          # the whole object is overwritten
                claimed.add(id(n["obj"]))
            elif nm.startswith("add_") or nm in ("axpy", "scale"):
                acc.setdefault(d, []).append(n)
                claimed.add(id(n["obj"]))
    for n in dfl.own_nodes(fn):
        if n.get("k") == "Ref" and n.get("d") in tiny and id(n) not in claimed:
            # any other use: a consumer (argument of a call, element read, address of the data)
            stmt = n
            for node, slot in dfl.enclosing_stmt_chain(par, n):
                if "i" in node and cfg.block_of(node["i"]) is not None:
                    stmt = node
                    break
            reads.setdefault(n["d"], []).append((n, stmt))
            pr = par.get(id(n))
            if pr is not None and is_call(pr[0]) and pr[0].get("k") in ("Call",) and not KNOWN_READERS.match(strip_targs(pr[0].get("callee", "") or "")):
                for a, pn_, pt_ in dfl.call_args_with_params(pr[0], fn):
                    if a is n and pt_ is not None and is_nonconst_ref(pt_):
                        opaque.setdefault(n["d"], []).append(pr[0])
    for d in sorted(acc, key=lambda d_: tiny[d_].get("l") or 0):
        v = tiny[d]
        key = "%s/%s" % (fkey, v["n"])
        if not reads.get(d):
            continue
        problems, doubts = [], []
        for a in acc[d]:
            la = norm.loops_around(par, a)
            # the loop whose every iteration needs a fresh X: innermost loop containing the accumulation and a consumer; with several consumers the
            # shallowest such loop (a read inside the accumulation loop itself is a partial read, not the consumer of the finished sum)
            C, depth_c = None, 0
            for rn, rstmt in reads[d]:
                lr_ = norm.loops_around(par, rn)
                common = []
                for x, y in zip(la, lr_):
                    if x is not y:
                        break
                    common.append(x)
                if common and (C is None or len(common) < depth_c):
                    C, depth_c = common[-1], len(common)
            if C is None:
                continue
            decl_in = [x for x in dfl.enclosing_loops(fn, par, v) if x is C]
            good = [r for r in resets.get(d, []) if any(x is C for x in norm.loops_around(par, r)) and "i" in r and "i" in a and cfg.stmt_dominates(r["i"], a["i"])]
            if good:
                continue
            if decl_in:
                ini_ = v.get("init")
                if ini_ is not None and ini_.get("k") in ("Construct", "TempObj") and len(ini_.get("a", [])) == 1 and unwrap_num(rs, ini_["a"][0]) == 0.0:
                    continue          # a fresh object per iteration, value-constructed to zero: Tiny::Matrix(DataType(0))
                doubts.append((a.get("l"), "%s is declared inside the loop; whether its initial value is zero is not modelled" % v["n"]))
                continue
            if opaque.get(d):
                doubts.append((a.get("l"), "%s is handed to %s, which is not modelled and may reset it" % (v["n"], render(opaque[d][0])[:50])))
                continue
            outside = [r for r in resets.get(d, []) if not any(x is C for x in norm.loops_around(par, r))]
            problems.append((a.get("l"), "%s accumulates into %s in every iteration of the loop at line %s, where it is also consumed (%s), but %s is %s: from the second iteration on it "
                             "still holds the contributions of the previous iterations" % (
                                 render(a)[:50], v["n"], C.get("l"), render(reads[d][0][1])[:40], v["n"],
                                 ("reset only outside that loop (line %s)" % outside[0].get("l")) if outside else "not reset before the accumulation in that loop")))
        if doubts and not problems:
            ck.incomplete(rule, "%s: %s" % (key, "; ".join(sorted({"line %s: %s" % d_ for d_ in doubts}))[:300]))
            continue
        uniq = list({p_[1]: p_ for p_ in problems}.values())
        ck.ob(rule, key, not uniq, "; ".join("line %s: %s" % p_ for p_ in uniq) or
              "%s is reset (format / assigned as a whole) inside the innermost loop that contains both its %d accumulation site(s) and its consumers, before the accumulation" % (v["n"], len(acc[d])),
              fn.file, uniq[0][0] if uniq else v.get("l"))


KNOWN_READERS = re.compile(r"^FEAT::Math::(invert_matrix|isnormal|abs|sqr|sqrt)$")


def local_writes(fn, d, skip=()):
    """statements that may write the local object d other than the calls in `skip`: assignments to it / its elements, non-const member calls,
    passing it to a non-const reference parameter"""
    out = []
    for n in fn.nodes():
        if n in skip:
            continue
        if n.get("k") == "Assign" and any(x.get("k") == "Ref" and x.get("d") == d for x in walk(n["lhs"])):
            out.append(n)
        elif is_call(n) and n.get("callee") not in dfl.MOVE_FNS:
            recv = dfl.receiver(n)
            if recv is not None and recv.get("k") == "Ref" and recv.get("d") == d and not n.get("cconst") and (
                    n.get("k") == "MCall" or (n.get("k") == "OpCall" and n.get("op") in ("=", "+=", "-=", "*="))):
                out.append(n)
            else:
                for a, pn_, pt_ in dfl.call_args_with_params(n, fn):
                    if a is not recv and pt_ is not None and is_nonconst_ref(pt_) and any(x.get("k") == "Ref" and x.get("d") == d for x in walk(a)):
                        out.append(n)
                        break
    return out


def lhs_name(par, n):
    """name of the accumulation target an expression feeds (for instance keys)"""
    cur = n
    while id(cur) in par:
        cur, slot = par[id(cur)]
        if cur.get("k") == "Assign":
            for x in walk(cur["lhs"]):
                if x.get("k") == "Ref" and x.get("dk") == "local":
                    return x["n"]
            return "?"
    return "?"


def check_refine_points(ck, fn, g, fkey, calls):
    """fine evaluator at point k of rule Q, coarse evaluator at point child*|Q|+k of the rule refined from Q (RefineFactoryCore
    stores the image of point j in child i at index i*n+j, kernel/cubature/refine_factory.hpp)"""
    rs = g.rs
    refined_from = {}
    for c in calls:
        if c.get("k") == "Call" and c.get("callee", "").endswith("RefineFactoryCore::create") and len(c.get("a", [])) >= 2:
            a, b = c["a"][0], c["a"][1]
            if a.get("k") == "Ref" and b.get("k") == "Ref":
                refined_from[a["d"]] = b["d"]
    evals = []
    for c in calls:
        if c.get("k") == "OpCall" and c.get("op") == "()" and len(c.get("a", [])) == 3:
            ev, data, pt = c["a"]
            if pt.get("k") == "MCall" and callee_name(pt) == "get_point" and (pt.get("obj") or {}).get("k") == "Ref":
                evals.append((c, g.side1(ev), pt["obj"]["d"], pt["a"][0], pt["obj"]["n"]))
    fine = [e for e in evals if e[1] == "F"]
    key = fkey + "/refined-point"
    for c, sd, rule_d, idx, rn in evals:
        if sd != "C" or rule_d not in refined_from:
            continue
        base = refined_from[rule_d]
        partner = [e for e in fine if e[2] == base and dfl.innermost_loop_same(g.par, e[0], c)]
        detail = "coarse evaluation at %s.get_point(%s)" % (rn, render(rs.value(idx)))
        if not partner:
            ck.incomplete("E2.refined-point", "%s: %s, but no fine evaluation at a point of the rule it was refined from in the same loop" % (fkey, detail))
            continue
        kf = partner[0][3]

        def flat(x, op):
            x = rs.value(x)
            while x.get("k") in ("Cast", "Construct", "TempObj") and (x.get("e") is not None or len(x.get("a", [])) == 1):
                x = rs.value(x.get("e") or x["a"][0])
            if x.get("k") == "Bin" and x.get("op") == op:
                return flat(x["lhs"], op) + flat(x["rhs"], op)
            return [x]

        def atom(x):
            """'child' | 'k' (the fine point index) | 'n' (points of the base rule) | ('other', text) for understood atoms, None otherwise"""
            if x.get("k") == "Ref":
                if g.kind(x) == ("child",):
                    return "child"
                if kf.get("k") == "Ref" and x.get("d") == kf.get("d"):
                    return "k"
                kd = g.kind(x)
                if kd is not None and kd[0] in ("cub", "cellP", "cell2", "ldof"):
                    return ("other", x.get("n"))
                return None
            if x.get("k") == "MCall" and callee_name(x) == "get_num_points" and (x.get("obj") or {}).get("k") == "Ref":
                return "n" if x["obj"].get("d") == base else ("other", render(x))
            if x.get("k") == "MCall" and callee_name(x) == "get_num_children":
                return ("other", "num_children")
            if x.get("k") == "Int":
                return ("other", x.get("v"))
            return None
        # closed form of the index as a polynomial over loop counters (running counters across the (child, point) nest, hoisted factors, named temporaries)
        verdict = None
        try:
            km = g.__dict__.setdefault("_km", norm.KernelModel(fn))
            child_loops = [L_ for d_, (L_, b_) in g.loopvar.items() if g.kind({"k": "Ref", "dk": "local", "d": d_, "n": "?"}) == ("child",)
                           and any(node is L_ for node, sl in dfl.enclosing_stmt_chain(g.par, c))]
            pv = km.val(idx, idx)
            kv = km.val(kf, kf)
            nbase = [x for x in fn.nodes() if x.get("k") == "MCall" and callee_name(x) == "get_num_points" and (x.get("obj") or {}).get("k") == "Ref" and x["obj"].get("d") == base]
            if len(child_loops) == 1 and km.loops.get(id(child_loops[0])) is not None and nbase and pv[0] is None and kv[0] is None and not pv[1].unknown() and not kv[1].unknown():
                ci = km.loops[id(child_loops[0])]
                cpoly = ci["base"] + norm.Poly.atom(ci["counter"])          # value of the child variable
                nv = km.val(nbase[0], nbase[0])
                if not nv[1].unknown() and not cpoly.unknown():
                    verdict = (pv[1] == cpoly * nv[1] + kv[1])
        except Exception:
            verdict = None
        if verdict is not None:
            detail += "; the fine evaluation uses point %s of the base rule; index as closed form: %s, expected child * base.get_num_points() + %s" % (render(kf), pv[1].key(), render(kf))
            ck.ob("E2.refined-point", key, verdict, detail, fn.file, c.get("l"))
            continue
        poly = []
        understood = True
        for t in flat(idx, "+"):
            fs = [atom(f) for f in flat(t, "*")]
            if any(f is None for f in fs):
                understood = False
            poly.append(tuple(sorted(map(str, fs))))
        if not understood or kf.get("k") != "Ref":
            ck.incomplete("E2.refined-point", "%s: %s: index expression not understood" % (fkey, detail))
            continue
        ok = sorted(poly) == sorted([("child", "n"), ("k",)])
        detail += "; the fine evaluation uses point %s of the base rule; expected index child * base.get_num_points() + %s" % (render(kf), render(kf))
        ck.ob("E2.refined-point", key, ok, detail, fn.file, c.get("l"))


# =====================================================================================================
# driver
# =====================================================================================================

def check_inverse_total(ck, facts, rule="E6.inverse-unconditional"):
    """Math::invert_matrix (kernel/util/math.hpp, outside the anchor list): the GridTransfer assemblers call it in statement position and deliberately ignore the
    returned determinant (it may underflow on fine meshes although the inversion is fine), so they rely on the inversion being carried out for EVERY matrix: the
    function has no exit that depends on the matrix entries.  Every return statement lies outside the elimination loops and is guarded only by conditions over
    the scalar / pointer parameters (argument validity, the 1x1 case); values derived from a[...] (pivot, determinant) never decide whether the function returns.
    A data-dependent early return (absolute pivot threshold) leaves the matrix uninverted for small cells while ||M*N|| is still a normal number."""
    users = {}
    for fn in facts.functions:
        if fn.tk == "pattern" or not strip_targs(fn.qn).startswith("FEAT::Assembly::GridTransfer::"):
            continue
        par = dfl.parents(fn)
        for c in stmt_calls(fn):
            if c.get("k") == "Call" and strip_targs(c.get("callee", "") or "") == "FEAT::Math::invert_matrix":
                pr = par.get(id(c))
                if pr is not None and pr[0].get("k") in ("Block", "If", "For", "While", "Do", "ForRange"):       # the status is discarded
                    g = norm.find_callee(facts, c)
                    if g is None:
                        ck.incomplete(rule, "%s: the body of %s is not in the fact base" % (fn_key(fn), c.get("cfull") or c.get("callee")))
                    else:
                        users.setdefault(id(g), (g, fn))
    for g, user in users.values():
        key = short(g.full.replace("FEAT::", ""))
        ptr = {p_["d"]: p_["n"] for p_ in g.params if g.type(p_["t"]).strip().endswith("*")}
        par = dfl.parents(g)
        # locals that (transitively) hold values read from the arrays
        tainted = set()
        changed = True

        def reads_data(e):
            for x in walk(e):
                if x.get("k") == "Index" or (x.get("k") == "Un" and x.get("op") == "*"):
                    return True
                if x.get("k") == "Ref" and x.get("dk") == "local" and x.get("d") in tainted:
                    return True
            return False
        while changed:
            changed = False
            for n in dfl.own_nodes(g):
                d_ = None
                if n.get("k") == "Var" and n.get("init") is not None and reads_data(n["init"]):
                    d_ = n["d"]
                elif n.get("k") == "Assign" and n["lhs"].get("k") == "Ref" and n["lhs"].get("dk") == "local" and (reads_data(n["rhs"]) or (n.get("op") != "=" and n["lhs"]["d"] in tainted)):
                    d_ = n["lhs"]["d"]
                if d_ is not None and d_ not in tainted:
                    # (control dependence: a local assigned under a data-dependent condition is data-dependent too)
                    tainted.add(d_)
                    changed = True
            for n in dfl.own_nodes(g):
                if n.get("k") in ("Assign", "Var") and (n.get("k") == "Var" or n["lhs"].get("k") == "Ref"):
                    d_ = n["d"] if n.get("k") == "Var" else n["lhs"].get("d")
                    if d_ not in tainted and any(reads_data(cn) for cn, br in enclosing_conds_c18(par, n)):
                        tainted.add(d_)
                        changed = True
        problems, unknown = [], []
        rets = [n for n in dfl.own_nodes(g) if n.get("k") == "Return"]
        for r_ in rets:
            conds = [cn for cn, br in enclosing_conds_c18(par, r_)]
            loops = dfl.enclosing_loops(g, par, r_)
            dep = [cn for cn in conds if reads_data(cn)] + [L.get("c") for L in loops if L.get("c") is not None and reads_data(L["c"])]
            if dep:
                problems.append((r_.get("l"), "return %s under the condition %s, which depends on the matrix entries: for such matrices the function returns without having "
                                 "inverted the matrix, and the caller %s discards the status" % (render(r_.get("e"))[:30], render(dep[0])[:70], fn_key(user))))
            elif loops:
                unknown.append((r_.get("l"), "return inside the loop at line %s (whether the elimination is complete there is not modelled)" % loops[-1].get("l")))
        if not rets:
            unknown.append((g.line, "no return statement found"))
        if unknown and not problems:
            ck.incomplete(rule, "%s: %s" % (key, "; ".join("line %s: %s" % u for u in unknown)[:300]))
            continue
        ck.ob(rule, key, not problems, "; ".join("line %s: %s" % p_ for p_ in problems) or
              "%d return statement(s), none inside the elimination loops, none guarded by a condition that reads the matrix; the status is discarded by %s" % (len(rets), fn_key(user)),
              g.file, problems[0][0] if problems else g.line)


def check_mesh_permutation(ck, facts, rule="E2.mesh-permutation-dims"):
    """Geometry::MeshPermutation (kernel/geometry/mesh_permutation.hpp, outside the anchor list; GridTransfer reads get_perm() / get_inv_perm() of the fine and the coarse mesh
    and takes the un-permuted branch when they are empty): the permutations are stored per entity dimension in member arrays of extent shape_dim+1, the cell permutation
    at index shape_dim.  Every loop of a member function that subscripts these member arrays (of *this or of another MeshPermutation) with its loop variable — copy in
    clone(), inversion in create_inverse_permutations(), construction, validation, size computation — covers the whole extent 0 .. shape_dim.  A loop that stops at
    shape_dim-1 silently leaves the CELL permutation empty / stale: the transfer between permuted meshes then pairs wrong child cells."""
    def const_of(e, depth=0, rs=None):
        e = norm._strip(rs.value(e) if rs is not None and e is not None else e)
        if e is None or depth > 8:
            return None
        if e.get("k") == "Int":
            return int(e["v"])
        if e.get("k") == "Ref" and e.get("v") is not None:
            try:
                return int(e["v"])
            except (TypeError, ValueError):
                return None
        if e.get("k") in ("Construct", "TempObj", "Cast") and (e.get("e") is not None or len(e.get("a", [])) == 1):
            return const_of(e.get("e") if e.get("e") is not None else e["a"][0], depth + 1, rs)
        if e.get("k") == "Bin" and e.get("op") in ("+", "-", "*"):
            a, b = const_of(e["lhs"], depth + 1, rs), const_of(e["rhs"], depth + 1, rs)
            if a is None or b is None:
                return None
            return a + b if e["op"] == "+" else (a - b if e["op"] == "-" else a * b)
        return None
    seen = set()
    extent_of = {}        # (class, member array) -> extent, read from the subscript sites of the class
    for fn in facts.functions:
        if fn.tk == "pattern" or strip_targs(fn.cls) != "FEAT::Geometry::MeshPermutation":
            continue
        for n in fn.nodes():
            if n.get("k") in ("OpCall", "MCall") and (n.get("ccls") or "").startswith("std::array<"):
                b_ = norm._strip(n["a"][0] if n.get("k") == "OpCall" and n.get("a") else n.get("obj"))
                m_ = re.search(r", (\d+)>$", n["ccls"].strip())
                if b_ is not None and b_.get("k") == "Member" and b_.get("field") and m_:
                    extent_of[(fn.cls, b_.get("n"))] = int(m_.group(1))
    for fn in facts.functions:
        if fn.tk == "pattern" or strip_targs(fn.cls) != "FEAT::Geometry::MeshPermutation" or fn.cfg is None:
            continue
        rs = Resolver(fn)
        par = dfl.parents(fn)
        mods_ = norm._mods_of(fn)
        nloop = 0
        for L in dfl.own_nodes(fn):
            if L.get("k") not in ("For", "While", "ForRange", "Do"):
                continue
            lr = norm.loop_range(fn, L, par, mods_) if L.get("k") in ("For", "While") else None
            # member arrays subscripted with the loop variable
            hits = []
            for n in dfl.own_walk(L.get("body")):
                base = ix = None
                if n.get("k") == "OpCall" and n.get("op") == "[]" and len(n.get("a", [])) == 2:
                    base, ix = n["a"]
                elif n.get("k") == "MCall" and callee_name(n) == "at" and len(n.get("a", [])) == 1:
                    base, ix = n.get("obj"), n["a"][0]
                elif n.get("k") == "Index":
                    base, ix = n["b"], n["idx"]
                if base is None:
                    continue
                bb = norm._strip(base)
                if not (bb is not None and bb.get("k") == "Member" and bb.get("field")):
                    continue
                t = (n.get("ccls") or "") if n.get("k") in ("OpCall", "MCall") else fn.ntype(bb)
                m = re.search(r"^std::array<.*, (\d+)>$", t.strip()) or re.search(r"\[(\d+)\]$", t.strip())
                if not m:
                    continue
                iv = norm._strip(ix)
                if lr is not None and iv is not None and iv.get("k") == "Ref" and iv.get("d") == lr["var"]:
                    hits.append((bb.get("n"), int(m.group(1)), n))
                elif lr is None and iv is not None and iv.get("k") == "Ref" and iv.get("dk") == "local" and iv.get("d") in mods_ and any(
                        any(a_ is L for a_, s_ in dfl.enclosing_stmt_chain(par, m_)) for m_ in mods_[iv["d"]]):
                    hits.append((bb.get("n"), int(m.group(1)), n))
            rng = norm._strip(L.get("range")) if L.get("k") == "ForRange" else None
            rng_field = rng.get("n") if rng is not None and rng.get("k") == "Member" and rng.get("field") and (fn.cls, rng.get("n")) in extent_of else None
            if not hits and rng_field is None:
                continue
            nloop += 1
            key = "%s::%s/loop#%d(%s)" % (short(fn.cls.replace("FEAT::", "")), fn.name, nloop, ",".join(sorted({h[0] for h in hits} | ({rng_field} if rng_field else set()))))
            if (key, fn.line) in seen:
                continue
            seen.add((key, fn.line))
            if rng_field is not None:
                # a range-for over a per-dimension member array visits every dimension by construction; other member arrays may be subscripted with a unit
                # running counter that starts at 0 and is advanced after its uses (then it equals the dimension of the iteration)
                E = extent_of[(fn.cls, rng_field)]
                bad_, shifted_ = [], []
                for nm_, ext_, node_ in hits:
                    ixn = node_["a"][1] if node_.get("k") == "OpCall" else (node_["a"][0] if node_.get("k") == "MCall" else node_.get("idx"))
                    iv_ = norm._strip(ixn)
                    rc_ = norm.running_counter(fn, par, L, iv_["d"], node_) if iv_ is not None and iv_.get("k") == "Ref" else None
                    st_ = norm._strip(rc_["start"]) if rc_ else None
                    if not (rc_ is not None and rc_["phase"] == 0 and ext_ == E and st_ is not None and st_.get("k") == "Int" and str(st_.get("v")) == "0"
                            and (rc_["step"] is None or const_of(rc_["step"], 0, rs) == 1)):
                        lo_ = const_of(rc_["start"], 0, rs) if rc_ is not None else None
                        if rc_ is not None and lo_ is not None and (rc_["step"] is None or const_of(rc_["step"], 0, rs) == 1) and ext_ == E:
                            shifted_.append((nm_, lo_ + rc_["phase"]))       # understood, but not the dimension of the iteration
                        else:
                            bad_.append(nm_)
                if shifted_:
                    ck.ob(rule, key, False, "range-for over %s at line %s: %s" % (rng_field, L.get("l"), "; ".join(
                        "%s is subscripted with dimensions %d .. %d instead of 0 .. %d (entry 0 is never processed, the last access runs past the array)" % (nm_, lo_, lo_ + E - 1, E - 1)
                        for nm_, lo_ in sorted(set(shifted_)))), fn.file, L.get("l"))
                elif bad_:
                    ck.incomplete(rule, "%s: range-for over %s at line %s; the subscript of %s is not a recognised unit running counter" % (key, rng_field, L.get("l"), ", ".join(sorted(set(bad_)))))
                else:
                    ck.ob(rule, key, True, "range-for over the member array %s (all %d entity dimensions)%s" % (
                        rng_field, E, "; %s subscripted with a unit running counter" % ", ".join(sorted({h[0] for h in hits})) if hits else ""), fn.file, L.get("l"))
                continue
            extents = {h[1] for h in hits}
            if lr is None or lr["sign"] < 0 or len(extents) != 1:
                ck.incomplete(rule, "%s: the loop at line %s over the per-dimension arrays is not a recognised ascending counting loop" % (key, L.get("l")))
                continue
            E = extents.pop()
            a, b = const_of(lr["start"], 0, rs), const_of(lr["bound"], 0, rs)
            bnd = norm._strip(rs.value(lr["bound"]))
            if b is None and bnd is not None and bnd.get("k") == "MCall" and callee_name(bnd) == "size" and (bnd.get("ccls") or "").startswith("std::array<"):
                m2 = re.search(r", (\d+)>$", bnd["ccls"].strip())
                b = int(m2.group(1)) if m2 else None
            if a is None or b is None or lr["cmp"] not in ("<", "<=", "!="):
                ck.incomplete(rule, "%s: bounds (%s, %s %s) of the loop at line %s are not compile-time constants" % (key, render(lr["start"]), lr["cmp"], render(lr["bound"])[:40], L.get("l")))
                continue
            N = b + 1 if lr["cmp"] == "<=" else b
            ok = (a == 0 and N == E)
            ck.ob(rule, key, ok,
                  ("the loop at line %s runs over dimensions %d .. %d but the member array(s) %s have %d entries (dimensions 0 .. shape_dim = %d): %s" % (
                      L.get("l"), a, N - 1, ", ".join(sorted({h[0] for h in hits})), E, E - 1,
                      "dimension(s) %s are never processed — the cell permutation (index shape_dim) stays empty / stale" % ", ".join(map(str, [x for x in range(E) if x < a or x >= N]))
                      if N <= E else "the loop runs past the end of the array")) if not ok else
                  "covers all %d entity dimensions 0 .. shape_dim of %s" % (E, ", ".join(sorted({h[0] for h in hits}))), fn.file, L.get("l"))


def enclosing_conds_c18(par, n):
    """[(condition node, branch)] of the if statements / conditional expressions around n (innermost first)"""
    out = []
    cur = n
    while id(cur) in par:
        p_, slot = par[id(cur)]
        if p_.get("k") in ("If", "Cond") and slot in ("then", "else"):
            out.append((p_["c"], slot))
        elif p_.get("k") == "Switch" and slot == "body":
            out.append((p_["c"], "case"))
        cur = p_
    return out


def load_main(ck, alt=False):
    files = "|".join([R("kernel/lafem/transfer.hpp"), R("kernel/global/transfer.hpp"), R("kernel/assembly/grid_transfer.hpp"),
                      R("control/"), R("kernel/geometry/intern/coarse_fine_cell_mapping.hpp"), R("kernel/util/math.hpp"), R("kernel/geometry/mesh_permutation.hpp")])
    facts = featlib.extract("tu/c18_transfer.cpp", files=files, extra=("-DC18_ALT",) if alt else ())
    ck.tu(facts)
    for e in facts.errors_outside_repo():
        ck.incomplete("E0.instantiate", "driver tu/c18_transfer.cpp no longer matches the API: %s:%s %s" % (e["file"], e["line"], e["msg"]))
    anchored = ("kernel/lafem/transfer.hpp", "kernel/global/transfer.hpp", "kernel/assembly/grid_transfer.hpp", "control/asm/transfer_asm.hpp",
                "control/asm/transfer_voxel_asm.hpp", "kernel/geometry/intern/coarse_fine_cell_mapping.hpp")
    bad = [e for e in facts.errors_in_repo()]
    seen_keys = set()
    for e in bad:
        where = rel(e["file"])
        if where in anchored:
            owner = None
            for fn in facts.functions:
                if fn.file == e["file"] and fn.line <= e["line"] <= max(fn.end, fn.line) and (owner is None or fn.line >= owner.line):
                    owner = fn
            name = strip_targs(owner.qn).replace("FEAT::", "") if owner is not None else None
            if name is None:
                for nt in e.get("notes", []):
                    m = re.search(r"in instantiation of (?:member )?function(?: template specialization)? '([^']+)'", nt["msg"])
                    if m and rel(nt["file"]) != where or (m and nt["line"] != e["line"]):
                        name = strip_targs(m.group(1)).replace("FEAT::", "")
                        break
            key = "%s/%d" % (name, len(owner.params)) if owner is not None else (name or "%s/%s" % (where, re.sub(r"\s+", " ", e["msg"])[:80]))
            if key in seen_keys:
                continue
            seen_keys.add(key)
            ck.ob("E0.instantiate", key, False,
                  "front-end error inside an anchored transfer function: %s:%d: %s" % (where, e["line"], e["msg"][:200]), e["file"], e["line"])
        else:
            ck.incomplete("E0.instantiate", "front-end error while instantiating the transfer drivers: %s:%d: %s" % (where, e["line"], e["msg"]))
    ck.ob("E0.instantiate", "tu/c18_transfer.cpp%s" % ("[float,u32]" if alt else ""), True,
          "LAFEM/Global::Transfer (CSR, BWrappedCSR, convert), 10 GridTransfer entry points x element/shape pairs, 8 control-layer transfer assembly entry points and "
          "5 composite system levels were instantiated%s" % ("; %d member(s) with front-end errors are reported separately" % len(seen_keys) if seen_keys else " without front-end errors"),
          None, None, trivial=True)
    return facts


def declare_rules(ck):
    ck.rule("E0.instantiate", "the transfer classes, GridTransfer assemblers and control-layer transfer assembly functions type-check for the driver's arguments", 1)
    ck.rule("E1.transfer-accessors", "LAFEM::Transfer::get_mat_{prol,rest,trunc} (const and non-const) return three distinct member matrices; "
            "otherwise assembly fills one matrix and prol/rest/trunc apply another (any transfer)", 2)
    ck.rule("E1.transfer-apply", "LAFEM::Transfer::{prol,rest,trunc} perform exactly one 2-operand apply of the member matrix of the same kind with "
            "r = the non-const (result) parameter and x = the const (input) parameter, positions (fine, coarse), on every path; "
            "wrong for every non-symmetric transfer (rest applying mat_prol maps fine vectors with a fine x coarse matrix)", 6)
    ck.rule("E1.transfer-triple", "constructors, move-assignment, clone and convert of LAFEM::Transfer keep (prol, rest, trunc) slot <-> field kind; "
            "convert() converts member X from the source's X; a clone / converted transfer with swapped slots restricts with the prolongation matrix", 11)
    ck.rule("E4.global-accessors", "Global::Transfer::get_mat_X forwards to the local transfer's get_mat_X (method parity)", 12)
    ck.rule("E4.global-delegate", "Global::Transfer::{prol,prol_recv,rest,rest_send,trunc,trunc_send}: every path applies exactly the local operator of the same "
            "kind on (fine.local(), coarse buffer); a temporary coarse buffer is filled by muxer split/split_recv before a prolongation and handed to muxer "
            "join/join_send after a restriction/truncation; the result global vector is sync_0'ed afterwards on every path "
            "(wrong for every multi-process run with a coarse-level muxer, or any run with neighbours if the sync is dropped)", 12)
    ck.rule("E8.rest-is-transpose", "typestate over the CFG of every function that writes Transfer::get_mat_prol()/get_mat_rest() objects: the restriction that is stored is "
            "transpose() of the very prolongation object that is stored (or of an object it is a value clone of), or a parallel clone composition of part transfers "
            "(rest block s from the same part transfer as prol block s); no modification of the prolongation (format, assembly, scale_rows, shrink, deslagging, "
            "assignment) and none of the restriction follows on any path to a normal exit or to the re-binding of the references in a level loop. "
            "Broken => R != P^T for every mesh pair (weights differ from 1 at every shared fine dof)", 18)
    ck.rule("E7.weights-inverted-once", "typestate of every weight vector produced by GridTransfer::assemble_prolongation/_truncation/prolongate_vector: "
            "[sync_0 / muxer split in global assembly ->] component_invert(w, w, 1) exactly once -> scale_rows(M, M, w) / component_product(f, f, w) of the object "
            "assembled together with it, on every path to a normal exit (path-sensitive on the bool flags). Broken => rows of every dof shared by k>1 cells are k "
            "(or k^2) times too large", 15)
    ck.rule("E7.shrink-after-normalisation", "a transfer matrix is shrunk (entries below a tolerance relative to max_abs_element dropped) only after its rows were scaled by the inverted "
            "weights: scale_rows(M, M, 1/w) precedes M.shrink(...) on every path (typestate of the weights). Broken => the threshold is applied to un-normalised rows; for elements "
            "with strongly varying dof multiplicities (3D Q2) genuine entries are dropped and the prolongation is no longer exact on the coarse space", 8)
    ck.rule("E7.zeroed-before-assembly", "GridTransfer::assemble_prolongation / assemble_truncation / prolongate_vector ADD into their [in,out] matrix and vectors: every object "
            "a function hands to them is zero on every path into the call — format(), built from a graph, or transpose / value clone of an object that is zero at that point; an "
            "object of the caller counts as non-zero at entry (re-assembly on an existing transfer is an admissible history, cf. the `if(loc_prol.empty())` guards). "
            "Broken => the second assembly accumulates onto the first: every entry is doubled", 28)
    ck.rule("E3.candidates-all-registered", "GridTransfer::assemble_intermesh_transfer / transfer_intermesh_vector: a contribution that is weighted by 1/C.size() (C = list of source cells "
            "containing a cubature point) requires the producer loop over C to register the point for EVERY candidate: full extent, no break / continue / return of that loop, "
            "unconditional registration (count/fill agreement of producer and consumer). Broken => points on source-cell interfaces get total weight < 1: constants are not reproduced", 4)
    ck.rule("E2.cell-index", "index kinds in the child-cell loops of the GridTransfer assemblers: evaluators / dof-mappings of the fine (coarse) space are prepared with a cell "
            "index of the fine (coarse) mesh in its own (possibly permuted) numbering; get_perm() maps mesh numbering -> 2-level ordering, get_inv_perm() back, the "
            "guard of a conditional lookup (bool locals resolved, !empty() / size()>0 normalised) is logically equivalent to 'the permutation that is applied is non-empty' "
            "— a guard that also depends on the other level's permutation skips a needed lookup when exactly one level is permuted. "
            "Broken => wrong child cells for every permuted mesh (or every mesh)", 78)
    ck.rule("E2.child-cell-map", "CoarseFineCellMapping is built from (fine mesh, coarse mesh) and calc_fcell receives (ccell = coarse cell in 2-level ordering, child = child number); "
            "swapped arguments pick cells of other parents for every mesh with more cells than children", 13)
    ck.rule("E2.local-dof-index", "basis function arrays phi[] of the fine (coarse) space data are indexed by a loop variable bounded by the number of local dofs of the same space; "
            "wrong for every element pair with different local dof counts, transposes the local matrix otherwise (one instance per evaluation-data object of an assembler)", 26)
    ck.rule("E1.scatter-roles", "local matrices are scattered with (row_map, col_map) = mappings of the spaces the function's own XASSERTs equate with (rows, columns) "
            "(prolongation: fine x coarse, truncation: coarse x fine); local vectors with the mapping of the space their size is asserted to have", 29)
    ck.rule("E6.local-mass-inverse", "X = set_mat_mat_mult(a = the matrix handed to Math::invert_matrix (dominating, re-formatted in the same loop, dimension = local dofs of the row space), "
            "b = inter-level mass matrix); mass is indexed (row, row), inter-level (row, col) local dofs; X is the matrix that is scattered / applied. N*M^-1 instead of "
            "M^-1*N is wrong for every non-commuting pair, i.e. every element with more than one local dof", 13)
    ck.rule("E7.weight-per-projection", "the weight vector receives exactly one scatter of an all-ones local vector per inverted local mass matrix (same innermost loop), so that "
            "weight(dof) = number of local projections added to the row of that dof", 13)
    ck.rule("E7.per-iteration-container-reset", "GridTransfer::assemble_intermesh_transfer / transfer_intermesh_vector: a container that outlives the target-cell loop and whose elements "
            "are filled per target cell (push_back into C.at(k)) and consumed in the same iteration is empty again before the next iteration: cleared / re-created as a whole, or every "
            "element cleared in a loop over all elements (only paths guarded by the element's emptiness may skip it), or declared inside the loop. Broken (no clear in one of the "
            "twins) => cubature points of earlier target cells are integrated again: wrong for every mesh with more than one target cell per thread", 4)
    ck.rule("E7.prepare-order", "GridTransfer assemblers: every space_eval.prepare(trafo_eval) is dominated, within the same loop iteration, by trafo_eval.prepare(cell) — the space "
            "evaluator is set up from the trafo evaluator of the CURRENT cell (the documented evaluator protocol prepare(cell) -> prepare(trafo_eval) -> ... -> finish). Broken (order "
            "swapped) => evaluators whose prepare() reads cell data (non-parametric discontinuous P1 on quads / hexas) use the previous cell", 26)
    ck.rule("E7.local-accumulator-reset", "GridTransfer assemblers: a local Tiny matrix / vector that is accumulated into (X(i,j) += ..., GatherAxpy(X, mapping) — an axpy, not an "
            "assignment) and consumed (inverted, multiplied, scattered) is reset (format() / assigned as a whole) inside the innermost loop that contains both the accumulation and the "
            "consumer, before the accumulation. Broken (reset hoisted out of the cell loop) => from the second cell on the local still holds the sum over the cells visited so far: wrong "
            "for every mesh with more than one coarse cell", 32)
    ck.rule("E6.inverse-unconditional", "Math::invert_matrix (kernel/util/math.hpp; its determinant is deliberately discarded by the GridTransfer assemblers — checked: the call is in "
            "statement position): no exit of the function depends on the matrix entries; every return lies outside the elimination loops and is guarded only by conditions over "
            "the scalar / pointer parameters. Broken (absolute pivot threshold with early return) => for small cells (mesh in micrometre units, float on fine 3D meshes) the local mass "
            "matrix is silently left uninverted", 1)
    ck.rule("E2.mesh-permutation-dims", "Geometry::MeshPermutation (kernel/geometry/mesh_permutation.hpp; GridTransfer reads get_perm()/get_inv_perm() and takes the un-permuted branch if "
            "empty): every loop of a member function that subscripts the per-dimension member arrays (extent shape_dim+1, cell permutation last) with its loop variable covers "
            "0 .. shape_dim. Broken (`<` instead of `<=`) => the cell permutation is not copied / inverted: transfers on a cloned permuted mesh pair wrong child cells", 10)
    ck.rule("E2.refined-point", "the coarse evaluator is evaluated at point child*n+k of the rule refined from the rule whose point k the fine evaluator uses "
            "(layout i*n+j of Cubature::RefineFactoryCore); any other index pairs fine and coarse basis values at different physical points", 13)


class Once:
    """proxy of Check that records one obligation per (rule, key): several instantiations of one template yield the
    same instance; a failing result wins"""

    def __init__(self, ck):
        self.ck = ck
        self.res = {}
        self.order = []

    def ob(self, rule, key, ok, detail="", file=None, line=None, sample=None, trivial=False):
        k = (rule, key)
        if k not in self.res:
            self.order.append(k)
            self.res[k] = (ok, detail, file, line, sample, trivial)
        elif self.res[k][0] and not ok:
            self.res[k] = (ok, detail, file, line, sample, trivial)
        return ok

    def incomplete(self, rule, what):
        if (rule, what) not in self.res:
            self.res[(rule, what)] = None
            self.ck.incomplete(rule, what)

    def flush(self):
        for k in self.order:
            ok, detail, file, line, sample, trivial = self.res[k]
            self.ck.ob(k[0], k[1], ok, detail, file, line, sample=sample, trivial=trivial)
        self.order = []


def struct_hash(fn):
    """hash of the resolved body without types / ids: equal for instantiations that differ only in template arguments"""
    import hashlib
    h = hashlib.sha1()
    for n in fn.nodes():
        h.update(("%s|%s|%s|%s|%s;" % (n.get("k"), strip_targs(n.get("callee", "") or ""), n.get("n", ""), n.get("op", ""), n.get("v", ""))).encode())
    return h.hexdigest()


MODELLED_CALLEES = set(PRODUCERS) | set(KNOWN_MUTATORS) | set(ACCESSOR) | {
    "sync_0", "sync_1", "join", "join_send", "split", "split_recv", "component_invert", "component_product", "local", "unwrap", "assemble_matrix_2lvl",
    "assemble_prolongation_direct", "assemble_truncation_direct", "prolongate_vector_direct", "assemble_intermesh_transfer_direct", "transfer_intermesh_vector_direct"}


def inline_select(fn):
    """helpers that may be inlined into fn for the typestate rules: defined in the same file, not one of the library functions the rules model by name"""
    def select(call, g):
        return g.file == fn.file and g.name not in MODELLED_CALLEES and not strip_targs(g.qn).startswith("FEAT::Control::Asm::VoxelAux::")
    return select


def analyse(ck, facts, once, grid=True):
    seen = set()
    for fn in facts.functions:
        if fn.tk == "pattern" or is_transfer_cls(fn.cls):
            continue
        sig = (fn.file, fn.line, struct_hash(fn))
        if sig in seen:
            continue        # another instantiation of the same template with an identical resolved body
        seen.add(sig)
        # the typestate rules follow objects through ONE function: if the plain run meets a callee it does not model, helpers defined in the
        # same file (an extracted block, a local lambda) are inlined with their parameters bound and the rules are run on the inlined function
        trial = norm.Trial(once)
        check_rest_transpose(trial, fn, fn_key(fn))
        check_weights(trial, fn, fn_key(fn))
        check_zeroed(trial, fn, fn_key(fn))
        if trial.incompletes():
            fn2 = norm.inline_helpers(fn, inline_select(fn))
            if fn2 is not fn:
                trial2 = norm.Trial(once)
                check_rest_transpose(trial2, fn2, fn_key(fn))
                check_weights(trial2, fn2, fn_key(fn))
                check_zeroed(trial2, fn2, fn_key(fn))
                if len(trial2.incompletes()) < len(trial.incompletes()) or trial2.violations():
                    trial = trial2
        trial.commit()
        if strip_targs(fn.qn).startswith("FEAT::Assembly::GridTransfer::") and "intermesh" in (fn.name or ""):
            ikey = fn_key(fn) + ":" + ",".join(sorted({re.sub(r".*(Hypercube|Simplex)<(\d)>.*", r"\1\2", fn.type(p_["t"])) for p_ in fn.params if "Space::" in fn.type(p_["t"])}))
            fi = norm.inline_helpers(fn, inline_select(fn))
            check_iteration_containers(once, fi, ikey)
            check_candidate_weights(once, fn, fn_key(fn) + ":" + ",".join(sorted({re.sub(r".*(Hypercube|Simplex)<(\d)>.*", r"\1\2", fn.type(p_["t"])) for p_ in fn.params if "Space::" in fn.type(p_["t"])})))
        if grid and strip_targs(fn.qn).startswith("FEAT::Assembly::GridTransfer::") and fn.name in PRODUCERS and reaches_calc_fcell(fn):
            # statement-level helpers of the assembler (an extracted block of prepare / scatter calls) are inlined; value-returning index helpers are
            # followed through their return expression (GT.call_kind)
            check_grid_transfer(once, norm.inline_helpers(fn, inline_select(fn)))


def route_note(ck, facts):
    """clause 4 (cross-reference, never decisive): the matrix-free route and the assembled route share the local computation"""
    def norm(fn):
        out = []
        for n in fn.nodes():
            if n.get("k") == "Assign" and n.get("op") == "+=" and n["lhs"].get("k") == "OpCall" and n["lhs"].get("op") == "()":
                out.append(render(n))
            elif is_call(n) and (n.get("callee") == "FEAT::Math::invert_matrix" or callee_name(n) == "set_mat_mat_mult"):
                out.append(render(n))
        return sorted(out)
    by = {}
    for fn in facts.functions:
        if fn.tk != "pattern" and strip_targs(fn.qn).startswith("FEAT::Assembly::GridTransfer::") and fn.name in ("assemble_prolongation", "prolongate_vector") \
                and reaches_calc_fcell(fn):
            sp = tuple(sorted(short(fn.type(p["t"])) for p in fn.params if "Space::" in fn.type(p["t"])))
            by.setdefault(sp, {})[fn.name] = norm(fn)
    agree = [sp for sp, d in by.items() if len(d) == 2 and d["assemble_prolongation"] == d["prolongate_vector"]]
    differ = [sp for sp, d in by.items() if len(d) == 2 and d["assemble_prolongation"] != d["prolongate_vector"]]
    ck.note("cross-reference (clause 4, not decisive): normalised local computation (mass / inter-level accumulation, inversion, product) of assemble_prolongation and "
            "prolongate_vector is textually identical for %d space pairs, differs for %d" % (len(agree), len(differ)))


def run(tier):
    ck = Check("C18", tier)
    declare_rules(ck)
    once = Once(ck)
    facts = load_main(ck)
    inl = norm.InlinedFacts(facts, inline_select)
    norm.run_with_inlining(once, check_lafem_transfer, facts, inl)
    norm.run_with_inlining(once, check_global_transfer, facts, inl)
    analyse(ck, facts, once)
    norm.run_with_inlining(once, check_inverse_total, facts, inl)
    norm.run_with_inlining(once, check_mesh_permutation, facts, inl)
    route_note(ck, facts)
    # hand-built transfers in the tutorials / applications
    extra = [("tutorials/tutorial_05_multigrid.cpp", None, None)]
    if tier != "quick":
        extra += [("applications/poisson_scarc.cpp", None, None),
                  ("applications/meshopt_boundary-app/meshopt_boundary-app.cpp", R("control/meshopt/meshopt_control.hpp"), "assemble_system_transfer"),
                  ("kernel/assembly/grid_transfer-test.cpp", R("kernel/assembly/grid_transfer.hpp"), None),
                  ("kernel/assembly/grid_transfer-mass-test.cpp", R("kernel/assembly/grid_transfer.hpp"), None)]
    for tu, files, names in extra:
        try:
            f2 = featlib.extract(R(tu), files=files or R(tu), names=names)
        except featlib.AnalysisBroken as e:
            ck.incomplete("E8.rest-is-transpose", "%s could not be parsed: %s" % (tu, str(e)[:200]))
            continue
        ck.tu(f2)
        if f2.errors_in_repo():
            e = f2.errors_in_repo()[0]
            ck.incomplete("E8.rest-is-transpose", "%s does not parse: %s:%s %s" % (tu, rel(e["file"]), e["line"], e["msg"]))
        analyse(ck, f2, once)
    if tier != "quick":
        f3 = load_main(ck, alt=True)
        inl3 = norm.InlinedFacts(f3, inline_select)
        norm.run_with_inlining(once, check_lafem_transfer, f3, inl3)
        norm.run_with_inlining(once, check_global_transfer, f3, inl3)
        analyse(ck, f3, once)
    once.flush()
    ck.assume("index-kind typing of MeshPermutation: get_perm() maps a cell index of the permuted mesh to the 2-level (refinement) ordering, get_inv_perm() back "
              "(kernel/geometry/mesh_permutation.hpp; the independent SymbolicAssembler::assemble_graph_intermesh uses the same pairing)")
    ck.assume("RefineFactoryCore stores the image of point j in child i at index i*n+j (kernel/cubature/refine_factory.hpp)")
    ck.assume("distinct constant block indices (get(i,i) vs get(0,0), at<1,1> vs at<0,0>) denote distinct matrix blocks; SparseMatrix::transpose()/clone() "
              "implement transposition / value copy (property C02)")
    ck.assume("parameter names fine_space / coarse_space of the GridTransfer functions carry the documented roles (doxygen \\param)")
    return ck.finish(
        "Static rules on the resolved program (clang AST + CFG of the instantiated templates). Decided: (1) LAFEM::Transfer prol/rest/trunc apply the member matrix of the "
        "same kind in the documented direction, Global::Transfer delegates with method parity, muxer join/split protocol and sync_0 on every path; (2) typestate: the stored "
        "restriction is the transpose of the stored prolongation after its last modification in all 8 control-layer assembly entry points, the 5 composite system levels, "
        "tutorial 05 (thorough: + poisson_scarc, meshopt control); weight vectors are synchronised, inverted exactly once and scale the rows on every path; (3) GridTransfer "
        "assemblers: cell-index kinds incl. both permutation lookups, CoarseFineCellMapping argument roles, scatter row/column mappings against the functions' own XASSERTs, "
        "local dof index kinds, M^-1*N operand order, one weight increment per local projection, refined cubature point index, local accumulators (mass / inter-level matrices, "
        "gathered coarse vector) reset inside the loop in which they are accumulated and consumed. Index computations extracted into helpers are followed through the helpers' return values, "
        "statement-level helpers and non-generic closures of the same file are inlined for the typestate rules. NOT decided: exactness on the coarse space, "
        "T*P = I, numerical agreement of the assembled and matrix-free routes (only a textual cross-reference note), correctness of transpose()/apply() themselves (C01/C02), "
        "assemble_intermesh_transfer / transfer_intermesh_vector (not anchored), Transfer::convert (member template, not instantiated), transfers built in benchmarks/area51, "
        "GridTransfer on StructuredMesh (does not instantiate: StructuredMesh has no get_mesh_permutation(); not a documented-supported argument).")
