"""C04 — vector operations equal their element-wise definitions for every vector kind.

Static rules (no FEAT3 code is executed) on the resolved program as seen by the clang front end:

  E0   the operations named by the property instantiate for every vector kind of the driver;
  E2   every generic vector kernel is one counting loop over [0,size) (blocked: x [0,n)) in which every
       operand is subscripted by the loop variable; outputs are covered; reductions start from the neutral
       element and only accumulate; min/max index kernels compare, store and seed consistently;
  E5   every alias-specialised branch (r==x, x==y, x==z, y==z ...) equals the general branch under the
       branch condition, and the general branch equals the documented element-wise definition (sympy);
  E1   Arch call sites of Dense/Blocked/Sparse vectors: operands, scalar, extent and perspective agree with
       the callee's parameter roles; Arch dispatch wrappers forward their parameters unchanged;
  E4   TupleVector / PowerVector implement every operation by MAP / FOLD over first()/rest() with the
       same projection on every operand and the right combiner.
"""
import re

import sympy

import featlib
from featlib import Check, walk, render, is_call, rel
from lafem_roles import (Unknown, strip_targs, defile, strip, Locals, perspective, objkey, accessor, const_value,
                         assertions, counting_loop, is_zero, flatten_if_chain, stmts, live_must_pass)
from norm_c04 import inline_helpers, scalar_guard, array_units, fuse_while, fold_continue, loop_form, decision_leaves, partitions, pattern_label, alias_value, EMPTY, NONEMPTY

LAFEM = featlib.repo_path("kernel/lafem/")

# -------------------------------------------------------------------------------------------------
# oracle tables (transcribed from the repository; source given per line)
# -------------------------------------------------------------------------------------------------
_S = {n: sympy.Symbol(n) for n in ("r", "x", "y", "z", "a", "s", "acc")}

# element-wise definitions: doxygen of the DenseVector members that call the kernels (dense_vector.hpp)
KERNEL_DEF = {
    "Axpy": ("map", _S["r"] + _S["a"] * _S["x"]),            # axpy: "this <- alpha x + this"
    "ComponentProduct": ("map", _S["x"] * _S["y"]),           # component_product: "this_i <- x_i * y_i"
    "ComponentInvert": ("map", _S["s"] / _S["x"]),            # component_invert: "this_i <- alpha / x_i"
    "Scale": ("map", _S["x"] * _S["s"]),                      # scale: "this <- alpha x"
    "DotProduct": ("fold", _S["acc"] + _S["x"] * _S["y"]),    # dot: "result <- this . x"
    "TripleDotProduct": ("fold", _S["acc"] + _S["x"] * _S["y"] * _S["z"]),  # triple_dot: "x^T diag(this) y"
    "Norm2": ("fold-sqrt", _S["acc"] + _S["x"] * _S["x"]),    # norm2: "euclid norm"
    "Norm2Sqr": ("fold", _S["acc"] + _S["x"] * _S["x"]),      # norm2sqr: "squared euclid norm"
}
INDEX_KERNELS = {  # struct -> (comparison that replaces the incumbent, candidate uses Math::abs)
    "MaxAbsIndex": (">", True), "MinAbsIndex": ("<", True), "MaxIndex": (">", False), "MinIndex": ("<", False),
}
VECTOR_KERNELS = set(KERNEL_DEF) | set(INDEX_KERNELS) | {"ComponentCopy"}
ARCH_RE = r"^FEAT::LAFEM::Arch::(%s)::" % "|".join(sorted(VECTOR_KERNELS))

# extent accessor of the array returned by elements<P>() (DESIGN A.2: v.elements(): Dim(v); sv.elements(): Used(sv))
EXTENT_OF = {
    "FEAT::LAFEM::DenseVector": "size",
    "FEAT::LAFEM::DenseVectorBlocked": "size",
    "FEAT::LAFEM::SparseVector": "used_elements",
    "FEAT::LAFEM::SparseVectorBlocked": "used_elements",
}
BLOCKED_CLASSES = ("FEAT::LAFEM::DenseVectorBlocked", "FEAT::LAFEM::SparseVectorBlocked")

# E4: operations of the meta vectors and their recursion scheme (combiner table: DESIGN E4)
META_MAP = ["format", "copy", "axpy", "component_product", "component_invert", "scale", "set_vec", "set_vec_inv"]
META_FOLD = {"dot": "+", "triple_dot": "+", "norm2sqr": "+", "size": "+",
             "max_abs_element": "max", "max_element": "max", "min_abs_element": "min", "min_element": "min",
             "norm2": "norm2"}
CURATED = set(META_MAP) | set(META_FOLD) | {"axpy_blocked", "scale_blocked", "dot_blocked", "triple_dot_blocked", "norm2_blocked",
                                            "norm2sqr_blocked", "max_abs_element_blocked", "min_abs_element_blocked",
                                            "max_element_blocked", "min_element_blocked", "component_copy", "component_copy_to"}


# classes the driver tu/c04_vectors.cpp instantiates explicitly (all listed operations must exist for them)
DRIVER_EXPLICIT = {
    "DenseVector<double>", "DenseVectorBlocked<double, unsigned long, 2>", "DenseVectorBlocked<double, unsigned long, 3>",
    "SparseVector<double>", "SparseVectorBlocked<double, unsigned long, 2>",
    "TupleVector<DenseVector<double>, DenseVectorBlocked<double, FEAT::Index, 3>, DenseVector<double>>",
    "TupleVector<DenseVector<double>>", "TupleVector<DenseVectorBlocked<double, FEAT::Index, 3>, DenseVector<double>>",
    "TupleVector<DenseVectorBlocked<double, FEAT::Index, 3>>",
    "PowerVector<DenseVector<double>, 1>", "PowerVector<DenseVector<double>, 2>", "PowerVector<DenseVector<double>, 3>",
    "PowerVector<DenseVectorBlocked<double, FEAT::Index, 3>, 1>", "PowerVector<DenseVectorBlocked<double, FEAT::Index, 3>, 2>",
}


def short(qn):
    return strip_targs(qn).replace("FEAT::LAFEM::Arch::", "").replace("FEAT::LAFEM::", "")


# -------------------------------------------------------------------------------------------------
# kernel expressions -> sympy
# -------------------------------------------------------------------------------------------------
f_abs = sympy.Function("absf")
f_sqrt = sympy.Function("sqrtf")


class Wrong(Exception):
    """a fully understood construct that is definitely not what the rule requires"""
    pass


class KCtx:
    def __init__(self, fn):
        self.fn = fn
        self.loc = Locals(fn)
        self.params = {p["d"]: p["n"] for p in fn.params}
        self.ptr = {p["d"] for p in fn.params if "*" in fn.type(p["t"])}
        self.i = None          # decl id of the size-loop variable
        self.j = None          # decl id of the block-loop variable
        self.acc = set()       # decl ids of accumulator / incumbent locals
        self.tags = {}         # decl id of an index local -> tag (index kernels: incumbent index)
        self.ptrs = {}         # decl id of a pointer cursor advanced in lock step with the size loop -> decl id of its array parameter
        self.down = set()      # decl ids of loop variables of reversed inductions (the body addresses element v - 1)

    def idx_tag(self, n):
        n = strip(n)
        if self.i is not None and self.i in self.down:
            # reversed induction: v runs size..1, the element visited is v - 1
            if n.get("k") == "Bin" and n.get("op") == "-" and strip(n["lhs"]).get("k") == "Ref" and strip(n["lhs"]).get("d") == self.i \
                    and strip(n["rhs"]).get("k") == "Int" and int(strip(n["rhs"])["v"]) == 1:
                return "i"
            if n.get("k") == "Ref" and n.get("d") == self.i:
                raise Wrong("subscript `%s` (line %s) in a loop that counts down from the extent: the first iteration addresses the element one past the end and element 0 is never visited" % (render(n), n.get("l")))
        if n.get("k") == "Ref" and n.get("d") == self.i and self.i is not None and self.i not in self.ptrs:
            return "i"
        if n.get("k") == "Int" and int(n["v"]) == 0:
            return "0"
        if n.get("k") == "Ref" and n.get("d") in self.tags:
            return self.tags[n["d"]]
        # a subscript built only from the loop variable, the extent parameter and integers is understood: it addresses
        # another element than the one every other operand of the update addresses
        def affine(x):
            x = strip(x)
            if x.get("k") == "Int":
                return True
            if x.get("k") == "Ref":
                return (x.get("d") == self.i and self.i is not None) or (x.get("dk") == "param" and x.get("n") == "size")
            if x.get("k") == "Bin" and x.get("op") in ("+", "-", "*"):
                return affine(x["lhs"]) and affine(x["rhs"])
            return False
        if affine(n):
            raise Wrong("subscript `%s` (line %s) addresses another element than the loop index: for size > 1 the update combines different positions of its operands" % (render(n), n.get("l")))
        raise Unknown("subscript `%s` is neither the loop variable nor a modelled index (line %s)" % (render(n), n.get("l")))

    def cell(self, name, tag):
        return sympy.Symbol(name if tag == "i" else "%s@%s" % (name, tag))

    def cursor_cell(self, n):
        """`*p` / `p[0]` for a pointer cursor p that walks array A in lock step with the size loop -> the cell A[i]"""
        n = strip(n)
        e = None
        if n.get("k") == "Un" and n.get("op") == "*":
            e = strip(n["e"])
        elif n.get("k") == "Index":
            e = strip(n["b"])
            if not (e.get("k") == "Ref" and e.get("d") in self.ptrs):
                return None
            ix = strip(n["idx"])
            if not (ix.get("k") == "Int" and int(ix["v"]) == 0):
                raise Wrong("`%s` (line %s) addresses another element than the one the cursor points to" % (render(n), n.get("l")))
        if e is None or e.get("k") != "Ref" or e.get("d") not in self.ptrs:
            return None
        if self.i is None or self.i not in self.ptrs:
            raise Unknown("pointer cursor `%s` used outside its loop (line %s)" % (render(e), n.get("l")))
        return self.cell(self.params[self.ptrs[e["d"]]], "i")

    def sym(self, n):
        n = strip(n)
        k = n.get("k")
        if k == "Int":
            return sympy.Integer(int(n["v"]))
        if k == "Float":
            return sympy.Rational(str(n.get("text") or n["v"]).rstrip("fFlL"))
        if k == "Ref":
            d = n.get("d")
            if d in self.params and d not in self.ptr:
                return sympy.Symbol(self.params[d])
            if d in self.acc:
                return sympy.Symbol("acc")
            if "v" in n:
                return sympy.Integer(int(n["v"]))
            r = self.loc.resolve(n)
            if r is not n and not (r.get("k") == "Ref" and r.get("d") == d):
                return self.sym(r)      # `const DT_ t = x[i] * y[i];`
            raise Unknown("value `%s` is not a scalar parameter, accumulator or constant (line %s)" % (render(n), n.get("l")))
        if k == "Un" and n.get("op") == "*":
            c = self.cursor_cell(n)
            if c is not None:
                if self.j is not None and "Tiny::Vector" in self.fn.ntype(n):
                    raise Unknown("block `%s` used without component subscript (line %s)" % (render(n), n.get("l")))
                return c
            e = self.loc.resolve(n["e"])
            if e.get("k") == "Ref" and e.get("d") in self.ptr and self.j is None:
                return self.cell(self.params[e["d"]], "0")      # `*x` is x[0]
        if k == "Index":
            c = self.cursor_cell(n)
            if c is not None:
                return c
            b = self.loc.resolve(n["b"])
            if b.get("k") == "Ref" and b.get("d") in self.ptr:
                if self.j is not None and "Tiny::Vector" in self.fn.ntype(n):
                    raise Unknown("block `%s` used without component subscript (line %s)" % (render(n), n.get("l")))
                return self.cell(self.params[b["d"]], self.idx_tag(n["idx"]))
            raise Unknown("subscripted object `%s` is not an array parameter (line %s)" % (render(b), n.get("l")))
        if k == "OpCall" and n.get("op") == "[]" and len(n.get("a", [])) == 2:
            base, sub = strip(n["a"][0]), strip(n["a"][1])
            if base.get("k") == "Ref" and base.get("dk") == "local" and base.get("d") not in self.acc:
                v_ = self.loc.var.get(base.get("d"))
                if v_ is not None and v_.get("ref") and v_.get("init") is not None and base.get("d") not in self.loc.written:
                    base = strip(v_["init"])        # `ValueType_& r_i(r[i])`: the reference denotes the block it is bound to
            if self.j is not None and self.j in self.down and sub.get("k") == "Bin" and sub.get("op") == "-" and strip(sub["lhs"]).get("d") == self.j \
                    and strip(sub["rhs"]).get("k") == "Int" and int(strip(sub["rhs"])["v"]) == 1:
                sub = strip(sub["lhs"])
            elif self.j is not None and self.j in self.down:
                raise Unknown("component subscript `%s` in a reversed component loop (line %s)" % (render(sub), n.get("l")))
            if not (sub.get("k") == "Ref" and sub.get("d") == self.j and self.j is not None):
                raise Unknown("component subscript `%s` is not the block-loop variable (line %s)" % (render(sub), n.get("l")))
            c = self.cursor_cell(base)
            if c is not None:
                return c
            if base.get("k") == "Index":
                b = self.loc.resolve(base["b"])
                if b.get("k") == "Ref" and b.get("d") in self.ptr:
                    return self.cell(self.params[b["d"]], self.idx_tag(base["idx"]))
            if base.get("k") == "Ref":
                d = base.get("d")
                if d in self.params and d not in self.ptr:
                    return sympy.Symbol(self.params[d])
                if d in self.acc:
                    return sympy.Symbol("acc")
            raise Unknown("component access on `%s` not modelled (line %s)" % (render(base), n.get("l")))
        if k == "Bin" and n.get("op") in ("+", "-", "*", "/"):
            a, b = self.sym(n["lhs"]), self.sym(n["rhs"])
            return {"+": a + b, "-": a - b, "*": a * b, "/": a / b}[n["op"]]
        if k == "Un" and n.get("op") in ("-", "+"):
            return -self.sym(n["e"]) if n["op"] == "-" else self.sym(n["e"])
        if k == "Call" and len(n.get("a", [])) == 1:
            c = strip_targs(n.get("callee", ""))
            if c in ("FEAT::Math::abs", "std::abs", "std::fabs"):
                return f_abs(self.sym(n["a"][0]))
            if c in ("FEAT::Math::sqrt", "std::sqrt"):
                return f_sqrt(self.sym(n["a"][0]))
            if c == "FEAT::Math::sqr":
                return self.sym(n["a"][0]) ** 2
        raise Unknown("expression `%s` (%s) not modelled (line %s)" % (render(n)[:80], k, n.get("l")))

    def assign(self, n):
        """Assign node -> (target symbol, new value as a function of the old cells)"""
        if n.get("k") != "Assign":
            raise Unknown("statement `%s` is not an assignment (line %s)" % (render(n)[:80], n.get("l")))
        t = self.sym(n["lhs"])
        if not isinstance(t, sympy.Symbol):
            raise Unknown("assignment target `%s` is not a cell" % render(n["lhs"]))
        rhs = self.sym(n["rhs"])
        op = n.get("op")
        if op == "=":
            return t, rhs
        if op in ("+=", "-=", "*=", "/="):
            return t, {"+=": t + rhs, "-=": t - rhs, "*=": t * rhs, "/=": t / rhs}[op]
        raise Unknown("assignment operator %s" % op)


def is_nonzero(e):
    e = sympy.cancel(sympy.together(e))
    return sympy.expand(e) != 0


def classify_loop(ctx, node):
    """-> ('size'|'block', decl id) for an induction over [0,size) resp. [0,n) in any spelling lib/norm_c04.loop_form
    understands (index loop, reversed index loop, pointer cursors in lock step); a range that is understood but is not
    [0,size) is a definite violation (Wrong); anything else raises Unknown"""
    lf = loop_form(node)
    if lf is None:
        raise Unknown("loop at line %s is not an induction by steps of one over a fixed range (for(v=lo; v<hi; ++v) and its equivalents)" % node.get("l"))
    d = lf["var"]
    SIZE, BN = sympy.Symbol("size"), sympy.Symbol("BN")

    def aff(n):
        """affine value over size, the block size and the array base pointers"""
        n = ctx.loc.resolve(n)
        k = n.get("k")
        if k == "Int":
            return sympy.Integer(int(n["v"]))
        if k == "Ref":
            if n.get("d") in ctx.ptr:
                return sympy.Symbol("P%s" % n["d"])
            if n.get("dk") == "param" and n.get("n") == "size":
                return SIZE
            if n.get("n") == "n" and "v" in n and "Tiny::Vector" in (n.get("qn") or ""):
                return BN
            if "v" in n:
                return sympy.Integer(int(n["v"]))
        if k == "Bin" and n.get("op") in ("+", "-"):
            a, b = aff(n["lhs"]), aff(n["rhs"])
            return a + b if n["op"] == "+" else a - b
        if k == "Un" and n.get("op") == "&":
            e = strip(n["e"])
            if e.get("k") == "Index":
                return aff(e["b"]) + aff(e["idx"])
        raise Unknown("loop range term `%s` at line %s" % (render(n)[:50], node.get("l")))
    lo, hi = aff(lf["lo"]), aff(lf["hi"]) + lf["hi_off"]
    bases = [x for x in lo.free_symbols if str(x).startswith("P")]
    if bases:
        # pointer cursor(s) walking arrays in lock step
        if lf["down"]:
            raise Unknown("reversed pointer loop at line %s" % node.get("l"))
        pb = int(str(bases[0])[1:])
        if len(bases) != 1 or sympy.expand(lo - bases[0]) != 0:
            raise Unknown("pointer loop at line %s starts at `%s`" % (node.get("l"), render(lf["lo"])))
        ext = sympy.expand(hi - lo)
        if ext != SIZE:
            if sympy.expand(ext - SIZE).is_Integer:
                raise Wrong("the pointer loop at line %s covers [0, %s) of `%s`, not [0, size)" % (node.get("l"), ext, ctx.params[pb]))
            raise Unknown("pointer loop at line %s: end `%s` is not `%s + size`" % (node.get("l"), render(lf["hi"]), ctx.params[pb]))
        cursors = {d: pb}
        for d2, lo2 in lf["others"].items():
            e2 = aff(lo2)
            b2 = [x for x in e2.free_symbols if str(x).startswith("P")]
            if len(b2) != 1 or sympy.expand(e2 - b2[0]) != 0:
                raise Unknown("loop at line %s advances `%s`, which does not start at an array parameter" % (node.get("l"), lf["vars"][d2].get("n")))
            cursors[d2] = int(str(b2[0])[1:])
        ctx.ptrs.update(cursors)
        return "size", d
    if lf["others"]:
        raise Unknown("loop at line %s advances several variables" % node.get("l"))
    if lo != 0:
        if not lf["down"] and getattr(ctx, "allow_from_one", False) and lo == 1 and hi == SIZE:
            ctx.from_one = True      # element 0 must then be covered by the seed (checked by the caller)
            return "size", d
        if lo.is_Integer and (hi == SIZE or hi == BN):
            raise Wrong("the loop at line %s starts at %s: elements [0, %s) are never visited" % (node.get("l"), lo, lo))
        raise Unknown("loop at line %s does not start at 0" % node.get("l"))
    if lf["down"]:
        ctx.down.add(d)
    if hi == SIZE:
        return "size", d
    if hi == BN:
        return "block", d
    for full, nm in ((SIZE, "size"), (BN, "ValueType::n")):
        dlt = sympy.expand(hi - full)
        if dlt.is_Integer:
            raise Wrong("the loop at line %s covers [0, %s), not [0, %s): %s" % (node.get("l"), hi, nm, "the last elements are never visited" if dlt < 0 else "it runs past the end of the arrays"))
    raise Unknown("loop bound `%s` at line %s is neither the parameter `size` nor the block size ValueType::n" % (render(lf["hi"]), node.get("l")))


def collect_leaves(ctx, node, env, out):
    """walk a loop nest; out gets (statement, {'size': d?, 'block': d?})"""
    for s in fuse_while(stmts(node)):
        if s.get("k") == "For":
            kind, d = classify_loop(ctx, s)
            if kind in env:
                raise Unknown("nested %s loops (line %s)" % (kind, s.get("l")))
            e2 = dict(env)
            e2[kind] = d
            collect_leaves(ctx, {"k": "Block", "s": fold_continue(stmts(s["body"]))}, e2, out)
        elif s.get("k") in ("While", "Do", "ForRange"):
            raise Unknown("%s loop at line %s is not a counting loop the rule understands" % (s["k"], s.get("l")))
        else:
            out.append((s, dict(env)))


# -------------------------------------------------------------------------------------------------
def analyse_mapfold(ck, fn, struct, blocked):
    """E2 + E5 for one instantiation of a map / fold kernel.

    The body is read as a decision structure over the aliasing of its array parameters (lib/norm_c04.decision_leaves: if/else
    chains, early returns, nested and negated tests are the same leaves).  For every aliasing pattern of the array parameters
    the leaf that executes under it is determined and checked - so the obligations are per (kernel, pattern), not per branch
    as written: removing an unreachable branch or reordering tests changes nothing."""
    kind, definition = KERNEL_DEF[struct]
    key0 = "%s::%s" % (struct, fn.name)
    inst = fn.full.split("::", 3)[-1]
    file = defile(fn)
    ctx = KCtx(fn)
    arrays = [p["n"] for p in fn.params if p["d"] in ctx.ptr]
    ptr_params = {p["d"]: p["n"] for p in fn.params if p["d"] in ctx.ptr}
    written_locals = set(ctx.loc.written)
    for n_ in fn.nodes():
        if n_.get("k") == "Assign":
            t_ = strip(n_["lhs"])
            while t_.get("k") in ("Index", "OpCall"):
                t_ = strip(t_["b"]) if t_.get("k") == "Index" else strip((t_.get("a") or [{}])[0])
            if t_.get("k") == "Ref" and t_.get("dk") == "local":
                written_locals.add(t_["d"])
    # zeros are admissible data: a division the definition does not contain, by a value derived from the array contents and not
    # guarded by a test of that value, turns vanishing data into inf/NaN where the definition gives a finite value
    if not any(isinstance(p_, sympy.Pow) and p_.exp.is_negative for p_ in sympy.preorder_traversal(definition)):
        tainted = set()

        def from_data(n):
            return any((y.get("k") == "Index" and ctx.loc.resolve(y["b"]).get("d") in ctx.ptr) or (y.get("k") == "Un" and y.get("op") == "*")
                       or (y.get("k") == "Ref" and y.get("d") in tainted) for y in walk(n))
        changed = True
        while changed:
            changed = False
            for y in fn.nodes():
                tgt, src = None, None
                if y.get("k") == "Var" and y.get("init") is not None:
                    tgt, src = y["d"], y["init"]
                elif y.get("k") == "Assign":
                    t_ = strip(y["lhs"])
                    while t_.get("k") in ("Index", "OpCall"):
                        t_ = strip(t_["b"]) if t_.get("k") == "Index" else strip((t_.get("a") or [{}])[0])
                    if t_.get("k") == "Ref" and t_.get("dk") == "local":
                        tgt, src = t_["d"], y["rhs"]
                if tgt is not None and tgt not in tainted and from_data(src):
                    tainted.add(tgt)
                    changed = True

        def scan(n, conds):
            if not isinstance(n, dict):
                return
            k = n.get("k")
            div = None
            if k == "Bin" and n.get("op") == "/":
                div = n["rhs"]
            elif k == "Assign" and n.get("op") == "/=":
                div = n["rhs"]
            if div is not None and from_data(div):
                names = {y.get("d") for y in walk(div) if y.get("k") == "Ref"}
                guarded = any(names & {y.get("d") for y in walk(c) if y.get("k") == "Ref"} for c in conds) or \
                    any(render(strip(div)) in render(c) for c in conds)
                if not guarded:
                    ck.ob("E5.definition", "%s/zero-data" % key0, False,
                          "[%s] line %s divides by `%s`, a value derived from the array contents that no test guards: for vanishing data (an all-zero vector or component - admissible input) the kernel computes 0/0 = NaN resp. x/0 = inf, the element-wise definition %s gives a finite value" % (
                              inst, n.get("l"), render(div)[:50], definition), file, n.get("l"))
            if k in ("If", "Cond"):
                scan(n.get("c"), conds)
                for br in ("then", "else"):
                    scan(n.get(br), conds + [n["c"]])
                return
            for ch in featlib.children(n):
                scan(ch, conds)
        scan(fn.body, [])
    try:
        leaves = decision_leaves(stmts(fn.body))
    except Unknown as e:
        ck.incomplete("E2.kernel-loop", "%s [%s]: %s" % (key0, inst, e))
        return
    cache = {}

    def leaf_info(k):
        """analyse leaf k once -> dict, or the exception it raised"""
        if k in cache:
            return cache[k]
        try:
            cache[k] = analyse_leaf(leaves[k][1])
        except (Unknown, Wrong) as e:
            cache[k] = e
        return cache[k]

    def analyse_leaf(sts):
        accs, late_init, rest, ret = {}, {}, [], []
        carried = set()         # locals that take over an accumulator by copy (`ValueType_ r(partial);`): same accumulator from there on
        fsts = fuse_while(sts)
        for pos_, s_ in enumerate(fsts):
            if s_.get("k") == "Decl":
                for v in s_["vars"]:
                    i0_ = strip(v["init"]) if v.get("init") is not None else None
                    if i0_ is not None and i0_.get("k") == "Ref" and i0_.get("d") in accs and v["d"] in written_locals and \
                            not any(y.get("k") == "Ref" and y.get("d") == i0_["d"] for later in fsts[pos_ + 1:] for y in walk(later)):
                        carried.add(v["d"])
                        continue
                    if v["d"] in written_locals or v.get("init") is None:
                        accs[v["d"]] = v        # locals that are never written again are temporaries / aliases
            elif s_.get("k") == "Assign" and s_.get("op") == "=" and strip(s_["lhs"]).get("k") == "Ref" and strip(s_["lhs"]).get("d") in accs \
                    and accs[strip(s_["lhs"])["d"]].get("init") is None and not rest:
                late_init[strip(s_["lhs"])["d"]] = s_["rhs"]       # `DT_ r; r = DT_(0);`
            elif s_.get("k") == "Return":
                ret.append(s_)
            else:
                rest.append(s_)
        ctx.acc = set(accs) | carried
        ctx.ptrs, ctx.down = {}, set()
        lv = []
        try:
            collect_leaves(ctx, {"k": "Block", "s": rest}, {}, lv)
        except Wrong as e:
            # a loop over a range other than [0,size) is definite only if no element is handled outside the loops (peeling)
            if any(s_.get("k") not in ("For", "While", "Do") and any(y.get("k") == "Index" or (y.get("k") == "Un" and y.get("op") == "*") for y in walk(s_)) for s_ in rest):
                raise Unknown("%s; elements are also addressed outside the loops (peeled iterations are not modelled)" % e)
            raise
        lv = [(s_, e_) for s_, e_ in lv if s_.get("k") != "Decl"]      # const temporaries are resolved through their initialiser
        main = [(q, s_, e_) for q, (s_, e_) in enumerate(lv) if "size" in e_]
        fin = [(q, s_, e_) for q, (s_, e_) in enumerate(lv) if "size" not in e_]
        if not main:
            if not lv and kind == "map":
                return {"updates": [], "line": (ret[0].get("l") if ret else fn.line), "final": None, "accs": accs, "late": late_init, "ret": ret}     # nothing is written
            raise Unknown("no statement inside a loop over [0,size)")
        # several updates (one loop with several statements, or several loops in sequence) compose element by element: every
        # update touches element i (and j) of its arrays only - that is what ctx.assign establishes
        updates = []
        for q, s_, env in main:
            if blocked and "block" not in env:
                raise Unknown("blocked kernel updates outside the component loop (line %s)" % s_.get("l"))
            if not blocked and "block" in env:
                raise Unknown("scalar kernel with a component loop")
            ctx.i, ctx.j = env["size"], env.get("block")
            tgt, new = ctx.assign(s_)
            updates.append((tgt, new, s_.get("l"), env["size"]))
        if len(updates) > 1 and any(s_.get("k") == "Decl" and any(v.get("init") is not None and v["d"] not in written_locals and not v.get("ref") and
                                    any(y.get("k") == "Index" or (y.get("k") == "Un" and y.get("op") == "*") for y in walk(v["init"])) for v in s_["vars"])
                                    for s_ in walk({"k": "Block", "s": rest}) if isinstance(s_, dict)):
            # a named temporary holds the value an array element had when it was declared; with several updates the rule would
            # have to order declaration and updates - not modelled
            raise Unknown("several updates together with a local that snapshots an array element")
        if kind != "map" and len({u[3] for u in updates}) > 1:
            # separate reduction loops add up only if each of them purely accumulates
            for tgt, new, ln, _ in updates:
                if tgt != _S["acc"] or sympy.expand(new - _S["acc"]).has(_S["acc"]):
                    raise Unknown("several loops over [0,size) of which the one at line %s does not purely accumulate" % ln)
        q0 = max(q for q, _, _ in main)
        final = None
        for q, fs, fe in fin:
            ctx.i, ctx.j = None, fe.get("block")
            ft, fnew = ctx.assign(fs)
            if q > q0 and ft == _S["acc"] and sympy.simplify(fnew - f_sqrt(_S["acc"])) == 0 and final is None:
                final = "sqrt"      # per-component finalisation after the sum is complete (inside or behind the component loop)
            else:
                raise Unknown("statement `%s` outside the size loop" % render(fs)[:80])
        return {"updates": updates, "line": updates[0][2], "final": final, "accs": accs, "late": late_init, "ret": ret, "carried": carried}

    def compose(info, pat):
        """net effect of the leaf on element i under an aliasing pattern -> (target, new value)"""
        rep = {x: blk[0] for blk in pat for x in blk}
        sub = {sympy.Symbol(n): sympy.Symbol(rep.get(n, n)) for n in arrays}
        state = {}
        if not info["updates"] and kind == "map":
            rsym = _S["r"].subs(sub, simultaneous=True)
            return rsym, rsym                 # identity: r keeps its value
        for tgt, new, _, _ in info["updates"]:
            t = tgt.subs(sub, simultaneous=True)
            e = new.subs(sub, simultaneous=True)
            if state:
                e = e.subs(state, simultaneous=True)
            state[t] = e
        if len(state) != 1:
            raise Wrong("the loop body writes %s (line %s); a %s kernel writes %s only" % (sorted(map(str, state)), info["line"], kind, "the output array r" if kind == "map" else "its accumulator"))
        return list(state.items())[0]

    def shortcut_ok(sts):
        """leaf taken only for size == 0: it must do what zero iterations of the loop do"""
        accs = {}
        for s_ in sts:
            if s_.get("k") == "Decl":
                for v in s_["vars"]:
                    accs[v["d"]] = v
            elif s_.get("k") == "Return":
                e = strip(s_.get("e")) if s_.get("e") is not None else None
                if kind == "map":
                    return e is None
                if e is None:
                    return False
                r = ctx.loc.resolve(e)
                while r.get("k") == "Call" and strip_targs(r.get("callee", "")) in ("FEAT::Math::sqrt", "std::sqrt") and len(r.get("a", [])) == 1:
                    r = ctx.loc.resolve(r["a"][0])
                if is_zero(r) or (r.get("k") in ("Construct", "TempObj") and len(r.get("a", [])) == 1 and is_zero(r["a"][0])) or (r.get("k") == "Float" and float(r["v"]) == 0):
                    return True
                if r.get("k") == "Ref" and r.get("d") in accs and accs[r["d"]].get("init") is not None:
                    i0 = strip(accs[r["d"]]["init"])
                    return is_zero(i0) or (i0.get("k") in ("Construct", "TempObj") and len(i0.get("a", [])) == 1 and is_zero(i0["a"][0]))
                return False
            else:
                return False
        return kind == "map"

    selected = {}       # pattern label -> (leaf index, pattern)
    guarded = []        # (pattern label, pattern, leaf index, [(guard, polarity, condition node)]): leaves chosen by tests of the scalar arguments
    used = set()
    pats = partitions(arrays)
    scalars = {p["d"]: p["n"] for p in fn.params if p["d"] not in ctx.ptr and p["n"] != "size"}
    for pat in pats:
        label = pattern_label(pat)
        cands, trouble = [], None
        for k, (lits, sts) in enumerate(leaves):
            vals, guards = [], []
            for c, pol in lits:
                v = alias_value(c, ctx.loc, ptr_params, pat)
                if v is None:
                    g = scalar_guard(c, ctx.loc, scalars)
                    if g is None:
                        trouble = "branch condition `%s` (line %s) is neither a test of the aliasing of the array parameters nor of the scalar arguments" % (render(c)[:60], c.get("l"))
                        break
                    guards.append((g, pol, c))
                    continue
                if v in (True, False):
                    v = (v == pol)
                else:
                    v = (EMPTY if (v == EMPTY) == pol else NONEMPTY)
                vals.append(v)
            if trouble:
                break
            if any(v is False for v in vals):
                continue
            if EMPTY in vals:
                if not shortcut_ok(sts):
                    trouble = "the shortcut for size == 0 (line %s) does something else than zero iterations of the loop would (not modelled)" % (lits[0][0].get("l"))
                    break
                used.add(k)
                continue
            cands.append((k, guards))
        if trouble is None and len(cands) > 1:
            # several leaves execute under this aliasing, told apart by tests of the scalar arguments (alpha == 0, |alpha| < tol ...):
            # the leaf for generic scalar values is the main one, every other must agree with the definition under its test
            def point(gs):
                return any((g[0] == "eq") == pol for g, pol, _ in gs if g[0] in ("eq", "ne"))
            generic = [c_ for c_ in cands if not point(c_[1])]
            if len(generic) > 1:
                with_loop = [c_ for c_ in generic if any(x.get("k") in ("For", "While") for x in leaves[c_[0]][1])]
                generic = with_loop if len(with_loop) == 1 else generic
            if len(generic) != 1 or kind != "map":
                trouble = "%d leaves of the body execute under the aliasing pattern %s and the tests of the scalar arguments do not single out one for generic values" % (len(cands), label)
            else:
                for c_ in cands:
                    if c_ is not generic[0]:
                        guarded.append((label, pat, c_[0], c_[1]))
                        used.add(c_[0])
                cands = generic
        if trouble is None and len(cands) != 1:
            trouble = "%d leaves of the body execute under the aliasing pattern %s" % (len(cands), label)
        if trouble:
            ck.incomplete("E2.kernel-loop", "%s/%s [%s]: %s" % (key0, label, inst, trouble))
            continue
        selected[label] = (cands[0][0], pat)
        used.add(cands[0][0])
    for k in range(len(leaves)):
        if k not in used and len(selected) == len(pats):
            ck.note("%s [%s]: the branch under `%s` is unreachable for every aliasing pattern (an earlier test covers it)" % (
                key0, inst, " && ".join(("" if pol else "!") + render(c) for c, pol in leaves[k][0])[:100]))
    reported = set()
    results = {}
    gen_leaf = selected.get("general", (None, None))[0]
    for label, (k, pat) in selected.items():
        key = "%s/%s" % (key0, label)
        info = leaf_info(k)
        if isinstance(info, Wrong):
            ck.ob("E2.kernel-loop", key, False, "[%s] %s" % (inst, info), file, fn.line)
            continue
        if isinstance(info, Unknown):
            if k not in reported:
                ck.incomplete("E2.kernel-loop", "%s [%s]: %s" % (key, inst, info))
                reported.add(k)
            continue
        problems = []
        try:
            tgt, new = compose(info, pats[0])
            tgt_p, new_p = compose(info, pat)
        except Wrong as e:
            ck.ob("E2.kernel-loop", key, False, "[%s] %s" % (inst, e), file, info["line"])
            continue
        if kind == "map":
            if tgt != _S["r"]:
                problems.append("the loop writes %s, not the output array r" % tgt)
        else:
            if tgt != _S["acc"]:
                problems.append("the loop writes %s, not the accumulator" % tgt)
            else:
                d = sympy.expand(new - _S["acc"])
                if d.has(_S["acc"]):
                    problems.append("accumulator is not only accumulated: new value %s" % new)
        ck.ob("E2.kernel-loop", key, not problems,
              "; ".join(problems) if problems else "[%s] loop over [0,size)%s, every operand subscripted by the loop variable(s), target %s fully covered" % (inst, " x [0,n)" if blocked else "", tgt),
              file, info["line"], sample={"instantiation": inst, "update": "%s <- %s" % (tgt, new)}, trivial=(label != "general" and k == gen_leaf))
        results[label] = (k, pat, info, tgt_p, new_p)
    # reductions: neutral start, result returned (all leaves that can execute must agree)
    if kind != "map":
        try:
            infos = {k: info for (k, pat, info, _, _) in results.values()}
            if not infos:
                raise Unknown("no analysable branch")
            verdicts = []
            for k, info in sorted(infos.items()):
                accs, ret = info["accs"], info["ret"]
                if len(accs) != 1:
                    raise Unknown("%d local declarations, expected the accumulator only" % len(accs))
                v = list(accs.values())[0]
                init = strip(v.get("init")) if v.get("init") is not None else (strip(info["late"][v["d"]]) if v["d"] in info["late"] else None)
                if init is None or (init.get("k") in ("Construct", "TempObj") and not init.get("a")):
                    raise Unknown("accumulator `%s` has no initialiser the rule understands" % v["n"])
                zero = is_zero(init) or (init.get("k") in ("Construct", "TempObj") and len(init.get("a", [])) == 1 and is_zero(init["a"][0]))
                if len(ret) != 1:
                    raise Unknown("%d return statements" % len(ret))
                ctx.acc = set(accs) | info.get("carried", set())
                ctx.i = ctx.j = None
                rv = strip(ret[0].get("e"))
                if rv.get("k") == "Ref" and rv.get("d") in ctx.acc:
                    retsym = _S["acc"]
                else:
                    retsym = ctx.sym(rv)
                if info["final"] == "sqrt":
                    retsym = retsym.subs(_S["acc"], f_sqrt(_S["acc"]))
                verdicts.append((zero, retsym, render(init), v.get("l")))
            want = f_sqrt(_S["acc"]) if kind == "fold-sqrt" else _S["acc"]
            ok = all(z and sympy.simplify(r - want) == 0 for z, r, _, _ in verdicts)
            bad = [x for x in verdicts if not (x[0] and sympy.simplify(x[1] - want) == 0)] or verdicts
            ck.ob("E2.reduction", "%s/start+result" % key0, ok,
                  "[%s] accumulator starts from %s, result is %s (expected start 0, result %s)" % (inst, bad[0][2], bad[0][1], want),
                  file, bad[0][3])
        except Unknown as e:
            ck.incomplete("E2.reduction", "%s [%s]: %s" % (key0, inst, e))
    # E5: general vs definition, every aliasing pattern vs general
    if "general" not in results:
        return
    gk, gpat, g, g_tgt, g_new = results["general"]
    ck.ob("E5.definition", "%s/general" % key0, not is_nonzero(g_new - definition),
          "[%s] general branch computes %s <- %s; element-wise definition: %s" % (inst, g_tgt, g_new, definition), file, g["line"],
          sample={"instantiation": inst, "general": str(g_new), "definition": str(definition)})
    for label, (k, pat, info, tgt_p, new_p) in results.items():
        if label == "general":
            continue
        key = "%s/%s" % (key0, label)
        try:
            gt, gs = compose(g, pat)          # what the general branch would compute if it ran under this aliasing
        except Wrong as e:
            ck.incomplete("E5.alias-branch", "%s [%s]: %s" % (key, inst, e))
            continue
        ok = (tgt_p == gt) and not is_nonzero(gs - new_p)
        ck.ob("E5.alias-branch", key, ok,
              "[%s] under %s the general update %s <- %s becomes %s; the branch executed there computes %s <- %s%s" % (
                  inst, label, g_tgt, g_new, sympy.expand(gs), tgt_p, sympy.expand(new_p), "" if ok else "  -- NOT EQUAL"),
              file, info["line"], sample={"instantiation": inst, "condition": label, "general": str(sympy.expand(gs)), "specialised": str(sympy.expand(new_p))},
              trivial=(k == gk))
    # leaves selected by a test of the scalar arguments: what they compute must be what the definition gives under that test
    scal_syms = {sympy.Symbol(n) for n in scalars.values()}
    for label, pat, k, guards in guarded:
        gtext = " && ".join(("" if pol else "!") + render(c) for _, pol, c in guards)
        rule = "E5.definition" if label == "general" else "E5.alias-branch"
        key = "%s/%s[%s]" % (key0, label, gtext)
        info = leaf_info(k)
        if isinstance(info, Wrong):
            ck.ob("E2.kernel-loop", key, False, "[%s] %s" % (inst, info), file, fn.line)
            continue
        if isinstance(info, Unknown):
            ck.incomplete("E2.kernel-loop", "%s [%s]: %s" % (key, inst, info))
            continue
        try:
            tgt_p, new_p = compose(info, pat)
            gt, gs = compose(g, pat)
        except Wrong as e:
            ck.ob(rule, key, False, "[%s] %s" % (inst, e), file, info["line"])
            continue
        point = {sympy.Symbol(gd[1]): gd[2] for gd, pol, _ in guards if gd[0] in ("eq", "ne") and (gd[0] == "eq") == pol}
        region = [gd for gd, pol, _ in guards if gd[0] == "region"]
        want = gs.subs(point, simultaneous=True)
        got = new_p.subs(point, simultaneous=True)
        if tgt_p == gt and not is_nonzero(got - want):
            ck.ob(rule, key, True, "[%s] under %s and `%s` the branch computes %s <- %s, as the general update does there" % (inst, label, gtext, tgt_p, sympy.expand(got)), file, info["line"])
            continue
        ratio = sympy.cancel(sympy.together((got - want) / want)) if want != 0 else None
        if region and tgt_p == gt and ratio is not None and ratio.free_symbols <= scal_syms:
            ck.incomplete(rule, "%s [%s]: under `%s` the branch computes %s instead of %s; the relative deviation %s depends on the tested scalar only - whether the tested range makes it negligible is a floating-point argument the rule does not model" % (
                key, inst, gtext, sympy.expand(got), sympy.expand(want), ratio))
            continue
        ck.ob(rule, key, False,
              "[%s] under %s the branch taken when `%s` computes %s <- %s, the element-wise definition gives %s there: the difference %s depends on the array contents, which the test of the scalar argument says nothing about%s" % (
                  inst, label, gtext, tgt_p, sympy.expand(got), sympy.expand(want), sympy.expand(got - want),
                  "" if point or not region else " (e.g. r = 0 or |x| >> |r|)"),
              file, info["line"])


# -------------------------------------------------------------------------------------------------
def analyse_index_kernel(ck, fn, struct, blocked):
    """E2.index-kernel: argmin/argmax kernels compare, store and seed consistently"""
    cmp_want, use_abs = INDEX_KERNELS[struct]
    key = "%s::%s" % (struct, fn.name)
    inst = fn.full.split("::", 3)[-1]
    file = defile(fn)
    ctx = KCtx(fn)
    ctx.allow_from_one = True
    ctx.from_one = False
    try:
        body = fuse_while(stmts(fn.body))
        # `if(size == 0) return ...;` in front: the extremum of an empty vector is outside the property
        body = [s for s in body if not (s.get("k") == "If" and s.get("else") is None and alias_value(s["c"], ctx.loc, {}, []) == EMPTY
                                        and [x.get("k") for x in stmts(s["then"])] == ["Return"])]
        decls = {}
        for s in body:
            if s.get("k") == "Decl":
                for v in s["vars"]:
                    decls[v["d"]] = v
        loops = [s for s in body if s.get("k") == "For"]
        rets = [s for s in body if s.get("k") == "Return"]
        if len(loops) != 1 or len(rets) != 1:
            raise Unknown("body is not `incumbent; incumbent index; loop; return`")
        leaves = []
        collect_leaves(ctx, loops[0], {}, leaves)
        # an incumbent index declared inside the component loop is a per-component reset
        decl_reset = set()
        for s0, e0 in leaves:
            if s0.get("k") == "Decl" and "size" not in e0:
                for v in s0["vars"]:
                    decls[v["d"]] = v
                    decl_reset.add(v["d"])
        leaves = [(s0, e0) for s0, e0 in leaves if s0.get("k") != "Decl"]
        if len(decls) != 2 and not (blocked and len(decls) == 1):
            raise Unknown("body is not `incumbent; incumbent index; loop; return` (%d locals)" % len(decls))
        ifs = [(s, e) for s, e in leaves if s.get("k") == "If"]
        if len(ifs) != 1:
            raise Unknown("%d conditionals in the loop nest" % len(ifs))
        ifn, env = ifs[0]
        if "size" not in env or (blocked and "block" not in env) or ifn.get("else") is not None:
            raise Unknown("comparison is not inside the full loop nest")
        ctx.i, ctx.j = env["size"], env.get("block")
        then = stmts(ifn["then"])
        # incumbent index = the index local assigned from the loop variable
        best_i = None
        for s in then:
            if s.get("k") == "Assign" and s.get("op") == "=":
                l, r = strip(s["lhs"]), strip(s["rhs"])
                if l.get("k") == "Ref" and l.get("d") in decls and r.get("k") == "Ref" and r.get("d") == ctx.i:
                    best_i = l["d"]
        if best_i is None and not (blocked and len(decls) == 1):
            raise Unknown("no `incumbent index = loop variable` in the update block")
        # blocked kernels return the extremal values: the running extremum may be tracked by value alone (no index local)
        best = [d for d in decls if d != best_i][0]
        ctx.acc = {best}
        ctx.tags = {best_i: "best"} if best_i is not None else {}
        x = sympy.Symbol("x")
        cand_want = f_abs(x) if use_abs else x
        problems = []
        # comparison
        c = ctx.loc.resolve(ifn["c"])
        neg = False
        while c.get("k") == "Un" and c.get("op") == "!":
            neg = not neg
            c = ctx.loc.resolve(c["e"])
        cop = c.get("op") if c.get("k") == "Bin" else None
        if neg and cop in ("<", ">", "<=", ">="):
            cop = {"<": ">=", ">": "<=", "<=": ">", ">=": "<"}[cop]       # !(a <= b) is a > b
        if cop not in ("<", ">", "<=", ">="):
            raise Unknown("comparison `%s`" % render(ifn["c"]))
        lhs, rhs, op = ctx.sym(c["lhs"]), ctx.sym(c["rhs"]), cop
        if not lhs.has(x) and rhs.has(x):
            lhs, rhs, op = rhs, lhs, {"<": ">", ">": "<", "<=": ">=", ">=": "<="}[op]
        if op in ("<=", ">="):
            if op[0] == cmp_want:
                raise Unknown("comparison `%s` is not strict (ties would move the extremum to the last of equal elements; tie-breaking is not decided)" % render(ifn["c"]))
            op = op[0]          # wrong direction whatever happens on ties
        if op != cmp_want:
            problems.append("replaces the incumbent when candidate %s incumbent, expected %s" % (op, cmp_want))
        if lhs != cand_want:
            problems.append("candidate compared is %s, expected %s" % (lhs, cand_want))
        inc_want = [_S["acc"]] + ([cand_want.subs(x, sympy.Symbol("x@best"))] if best_i is not None else [])
        if rhs not in inc_want:
            problems.append("incumbent compared is %s, expected the stored value%s" % (rhs, (" or %s" % inc_want[1]) if len(inc_want) > 1 else ""))
        # update block: incumbent value (if stored) and index
        stored = False
        for s in then:
            l = strip(s["lhs"]) if s.get("k") == "Assign" else None
            if best_i is not None and l is not None and l.get("k") == "Ref" and l.get("d") == best_i:
                continue
            t, new = ctx.assign(s)
            if t != _S["acc"]:
                raise Unknown("update block writes %s" % t)
            stored = True
            if new != cand_want:
                problems.append("stores %s as the new incumbent although %s was compared" % (new, cand_want))
        if best_i is None and not stored:
            problems.append("the running extremum is compared against but never replaced by the larger/smaller candidate")
        # seeds
        ctx.i = None
        if best_i is not None:
            iv = decls[best_i]
            if iv.get("init") is None:
                raise Unknown("incumbent index `%s` has no initialiser" % iv["n"])
            if not is_zero(iv["init"]):
                problems.append("incumbent index starts at %s although the incumbent value is seeded from element 0" % render(iv["init"]))
        seed0 = cand_want.subs(x, sympy.Symbol("x@0"))
        if not blocked:
            bv = decls[best]
            seed = ctx.sym(bv["init"]) if bv.get("init") is not None else None
            allowed = [seed0] + ([sympy.Integer(0)] if (use_abs and cmp_want == ">") else [])
            if ctx.from_one and seed != seed0:
                problems.append("the loop starts at element 1 but the incumbent is seeded with %s, not with element 0" % seed)
            if seed not in allowed:
                problems.append("incumbent starts from %s; admissible seeds: %s (0 is neutral only for the maximum of absolute values)" % (seed, allowed))
            rv = strip(rets[0]["e"])
            if not (rv.get("k") == "Ref" and rv.get("d") == best_i):
                problems.append("returns `%s`, not the incumbent index" % render(rv))
        else:
            # per component: seed from x[0][j] and index reset, both outside the size loop but inside the block loop
            seeded = False
            reset = best_i is None or (best_i in decl_reset and is_zero(decls[best_i]["init"]))
            for s, e in leaves:
                if s is ifn:
                    continue
                if "size" in e or "block" not in e:
                    raise Unknown("statement `%s` at unexpected loop depth" % render(s)[:60])
                ctx.j = e["block"]
                l = strip(s["lhs"]) if s.get("k") == "Assign" else None
                if best_i is not None and l is not None and l.get("k") == "Ref" and l.get("d") == best_i:
                    if is_zero(s["rhs"]) and s.get("op") == "=":
                        reset = True
                    else:
                        raise Unknown("incumbent index set to `%s`" % render(s["rhs"]))
                    continue
                t, new = ctx.assign(s)
                if t == _S["acc"] and new == seed0:
                    seeded = True
                else:
                    problems.append("component seed is %s <- %s, expected %s" % (t, new, seed0))
            if not seeded:
                problems.append("component result is not seeded from element 0")
            if not reset:
                problems.append("incumbent index is not reset to 0 for every component (stale index of the previous component is compared against)")
            rv = strip(rets[0]["e"])
            if not (rv.get("k") == "Ref" and rv.get("d") == best):
                problems.append("returns `%s`, not the per-component result" % render(rv))
        ck.ob("E2.index-kernel", key, not problems,
              "[%s] " % inst + ("; ".join(problems) if problems else "loop over [0,size)%s; candidate %s %s incumbent; stored value = compared value; seeds consistent" % (" x [0,n)" if blocked else "", cand_want, cmp_want)),
              file, ifn.get("l"))
    except Wrong as e:
        ck.ob("E2.index-kernel", key, False, "[%s] %s" % (inst, e), file, fn.line)
    except Unknown as e:
        ck.incomplete("E2.index-kernel", "%s [%s]: %s" % (key, inst, e))


def analyse_component_copy(ck, fn):
    """ComponentCopy::value(_to)_generic: r[i*stride+block] <-> x[i] over [0,size)"""
    key = "ComponentCopy::%s" % fn.name
    inst = fn.full.split("::", 3)[-1]
    file = defile(fn)
    try:
        loc = Locals(fn)
        body = fuse_while(stmts(fn.body))
        body = [s for s in body if not (s.get("k") == "If" and s.get("else") is None and alias_value(s["c"], loc, {}, []) == EMPTY
                                        and [x.get("k") for x in stmts(s["then"])] == ["Return"] and stmts(s["then"])[0].get("e") is None)]
        body = [s for s in body if not (s.get("k") == "Decl" and all(v["d"] not in loc.written for v in s["vars"]))]     # hoisted constants
        # a running position advanced in the loop header (`pos += stride`) holds start + i*step in iteration i
        pre = [s for s in body[:-1] if s.get("k") == "Decl"] if body and body[-1].get("k") == "For" else []
        if pre and len(pre) == len(body) - 1:
            body = body[-1:]
        if len(body) != 1 or body[0].get("k") != "For":
            raise Unknown("body is not a single loop")
        lf = loop_form(body[0], cursors=True) if len(body) == 1 else None
        if lf is None or lf["others"] or lf["down"] or lf["hi_off"]:
            raise Unknown("loop is not for(i=0;i<size;++i) or an equivalent spelling")
        running = {}
        for d2, (start, stepn) in lf["cursors"].items():
            if start is None:
                v2 = loc.var.get(d2)
                others_w = [y for y in fn.nodes() if (y.get("k") == "Assign" and strip(y["lhs"]).get("k") == "Ref" and strip(y["lhs"]).get("d") == d2)
                            or (y.get("k") == "Un" and y.get("op") in ("++", "--", "&") and strip(y["e"]).get("k") == "Ref" and strip(y["e"]).get("d") == d2)]
                if v2 is None or v2.get("init") is None or len(others_w) != 1 or not any(v2 is v for s in pre for v in s["vars"]):
                    raise Unknown("running position `%s` is not initialised directly in front of the loop and advanced only in its header" % (v2 or {}).get("n"))
                start = v2["init"]
            running[d2] = (start, stepn)
        hi_ = loc.resolve(lf["hi"])
        cl = (lf["var"], loc.resolve(lf["lo"]), hi_)
        if not is_zero(cl[1]) or not (cl[2].get("k") == "Ref" and cl[2].get("n") == "size" and cl[2].get("dk") == "param"):
            raise Unknown("loop is not for(i=0;i<size;++i)")
        inner = [x for x in stmts(body[0]["body"]) if not (x.get("k") == "Decl" and all(v["d"] not in loc.written for v in x["vars"]))]
        if len(inner) != 1 or inner[0].get("k") != "Assign" or inner[0].get("op") != "=":
            raise Unknown("loop body is not a single assignment")
        a = inner[0]
        pn = {p["d"]: p["n"] for p in fn.params}

        def side(n):
            n = loc.resolve(n)
            if n.get("k") != "Index":
                raise Unknown("operand `%s`" % render(n))
            b = loc.resolve(n["b"])
            if b.get("k") != "Ref" or b.get("d") not in pn:
                raise Unknown("operand `%s`" % render(n))
            return pn[b["d"]], idx(n["idx"])

        def idx(n):
            n = loc.resolve(n)
            if n.get("k") == "Int":
                return sympy.Integer(int(n["v"]))
            if n.get("k") == "Ref":
                if n.get("d") in running:
                    return idx(running[n["d"]][0]) + sympy.Symbol("i") * idx(running[n["d"]][1])
                if n.get("d") == cl[0]:
                    return sympy.Symbol("i")
                if n.get("d") in pn:
                    return sympy.Symbol(pn[n["d"]])
            if n.get("k") == "Bin" and n.get("op") in "+*":
                l, r = idx(n["lhs"]), idx(n["rhs"])
                return l + r if n["op"] == "+" else l * r
            raise Unknown("index expression `%s`" % render(n))
        (ln, li), (rn, ri) = side(a["lhs"]), side(a["rhs"])
        i, st, bl = sympy.Symbol("i"), sympy.Symbol("stride"), sympy.Symbol("block")
        want_dst = "r" if fn.name == "value_generic" else "x"
        idxs = {ln: li, rn: ri}
        problems = []
        if ln != want_dst or {ln, rn} != {"r", "x"}:
            problems.append("writes %s from %s, expected %s as destination" % (ln, rn, want_dst))
        else:
            if sympy.expand(idxs["r"] - (i * st + bl)) != 0:
                problems.append("blocked array r subscripted by %s, expected i*stride+block" % idxs["r"])
            if sympy.expand(idxs["x"] - i) != 0:
                problems.append("plain array x subscripted by %s, expected i" % idxs["x"])
        ck.ob("E2.kernel-loop", key + "/general", not problems, "[%s] " % inst + ("; ".join(problems) if problems else "%s[%s] <- %s[%s] over [0,size)" % (ln, li, rn, ri)), file, a.get("l"))
    except Unknown as e:
        ck.incomplete("E2.kernel-loop", "%s [%s]: %s" % (key, inst, e))


# -------------------------------------------------------------------------------------------------
# E1: call sites
# -------------------------------------------------------------------------------------------------
def vec_class(tyname):
    """'const FEAT::LAFEM::DenseVectorBlocked<double, ...> &' -> 'FEAT::LAFEM::DenseVectorBlocked' or None"""
    t = re.sub(r"^(const\s+)+", "", (tyname or "").strip())
    t = re.sub(r"[\s&*]+(const)?$", "", t).strip()
    m = re.match(r"^(FEAT::LAFEM::(?:DenseVectorBlocked|DenseVector|SparseVectorBlocked|SparseVector))<.*>$", t)
    return m.group(1) if m and strip_targs(t) == m.group(1) else None


def check_call_site(ck, fn, call):
    loc = Locals(fn)
    struct = re.match(ARCH_RE, call["callee"]).group(1)
    kname = call["callee"].rsplit("::", 1)[-1]
    cls = strip_targs(fn.cls)
    key = "%s::%s/%s::%s" % (short(fn.cls), fn.name, struct, kname)
    pn = call.get("pn", [])
    args = call.get("a", [])
    if len(pn) != len(args):
        ck.incomplete("E1.operands", "%s: %d arguments for %d parameters" % (key, len(args), len(pn)))
        return
    slots = dict(zip(pn, args))
    array_slots = [p for p in pn if p in ("r", "x", "y", "z")]
    vec_params = [p["n"] for p in fn.params if vec_class(fn.type(p["t"]))]
    scal_params = [p["n"] for p in fn.params if not vec_class(fn.type(p["t"]))]
    # ---- operands -------------------------------------------------------------------------------
    problems = []
    objs = {}
    persp = {}
    acc_cls = {}
    offsets = {}
    for s in array_slots:
        a = accessor(loc, slots[s])
        if a is None and struct == "ComponentCopy":
            # `elements<pod>() + k`: the array advanced to component k (the kernel adds its own `block` to every address)
            r0 = loc.resolve(slots[s])
            if r0.get("k") == "Bin" and r0.get("op") == "+":
                for base_, off_ in ((r0["lhs"], r0["rhs"]), (r0["rhs"], r0["lhs"])):
                    a2 = accessor(loc, base_)
                    if a2 is not None and a2["name"] == "elements":
                        a, offsets[s] = a2, off_
                        break
        if a is None or a["name"] != "elements":
            ck.incomplete("E1.operands", "%s: slot %s receives `%s`, which is not an elements<>() accessor of an operand (pointer obtained by a construct the rule does not model)" % (key, s, render(slots[s])[:80]))
            return
        objs[s] = a["obj"]
        acc_cls[s] = strip_targs(a["cls"])
        persp[s] = a["persp"] if strip_targs(a["cls"]) in BLOCKED_CLASSES else "any"
    if not problems:
        want = sorted(["this"] + vec_params)
        got = sorted(objs.values())
        if got != want:
            problems.append("array slots %s carry operands %s; the operation has operands %s, each exactly once" % (array_slots, [objs[s] for s in array_slots], want))
        elif "r" in slots and objs.get("r") != "this" and not fn.d.get("const"):
            problems.append("output slot r carries `%s`, not the receiver" % objs.get("r"))
        elif "r" in slots and fn.d.get("const") and struct != "ComponentCopy":
            problems.append("const member passes its own array in an output slot")
    comp_done = False
    if struct == "ComponentCopy" and "block" in slots and len(scal_params) == 1:
        # address of entry i as the kernel forms it: (array + offset)[i*stride + block] -> component offset + block of block i
        def csym(n):
            n = loc.resolve(n)
            if n.get("k") == "Int":
                return sympy.Integer(int(n["v"]))
            if n.get("k") == "Ref" and n.get("dk") == "param":
                return sympy.Symbol(n["n"])
            if n.get("k") == "Ref" and "v" in n:
                return sympy.Integer(int(n["v"]))
            if n.get("k") == "Bin" and n.get("op") in ("+", "-", "*"):
                x_, y_ = csym(n["lhs"]), csym(n["rhs"])
                return {"+": x_ + y_, "-": x_ - y_, "*": x_ * y_}[n["op"]]
            raise Unknown("component term `%s`" % render(n)[:40])
        try:
            eff = csym(slots["block"])
            for s_, off_ in offsets.items():
                if s_ != "r":
                    raise Unknown("offset on the plain array in slot %s" % s_)
                eff = eff + csym(off_)
            if sympy.expand(eff - sympy.Symbol(scal_params[0])) != 0:
                problems.append("the kernel addresses component %s of every block (array %s, block slot `%s`), the operation names component `%s`%s" % (
                    sympy.expand(eff), ("advanced by `%s`" % render(offsets["r"])) if "r" in offsets else "from its start", render(slots["block"]), scal_params[0],
                    ": the component offset is applied twice" if "r" in offsets else ""))
            comp_done = True
        except Unknown as e:
            ck.incomplete("E1.operands", "%s: %s" % (key, e))
            return
    elif offsets:
        ck.incomplete("E1.operands", "%s: array slot receives an advanced pointer (not modelled)" % key)
        return
    for s in ("a", "s", "block"):
        if s == "block" and comp_done:
            continue
        if s in slots:
            v = loc.resolve(slots[s])
            if not (v.get("k") == "Ref" and v.get("dk") == "param") or len(scal_params) != 1:
                ck.incomplete("E1.operands", "%s: scalar slot %s receives the expression `%s` (not a plain parameter)" % (key, s, render(v)[:60]))
                return
            if v.get("n") not in scal_params:
                problems.append("scalar slot %s receives `%s`, not the operation's scalar parameter %s" % (s, render(v), scal_params))
    ck.ob("E1.operands", key, not problems, "; ".join(problems) if problems else "slots %s <- %s" % (array_slots, [objs[s] for s in array_slots]),
          fn.file, call.get("l"), sample={"callee_params": pn, "args": [render(a) for a in args]})
    # ---- extent + perspective -------------------------------------------------------------------
    problems = []
    sz = accessor(loc, slots.get("size")) if "size" in slots else None
    if sz is None or sz["name"] not in ("size", "used_elements", "allocated_elements"):
        ck.incomplete("E1.extent", "%s: extent slot receives `%s`, which is not an extent accessor (computed count: not modelled)" % (key, render(slots.get("size"))[:80]))
        return
    elif objs:
        ps = {p for p in persp.values() if p != "any"}
        if len(ps) > 1:
            problems.append("array arguments are taken in different perspectives %s" % persp)
        arr_p = ps.pop() if ps else "any"
        # the operand whose extent is passed: the receiver, or an operand the function asserts to be of equal size
        equal = {"this"}
        for cond, _ in assertions(fn):
            c = strip(cond)
            if c.get("k") == "Bin" and c.get("op") == "==":
                l, r = accessor(loc, c["lhs"]), accessor(loc, c["rhs"])
                if l and r and l["name"] == r["name"] and l["name"] in ("size", "used_elements") and l["persp"] == r["persp"]:
                    if "this" in (l["obj"], r["obj"]):
                        equal |= {l["obj"], r["obj"]}
        if sz["obj"] not in equal and sz["obj"] not in vec_params:
            ck.incomplete("E1.extent", "%s: extent is taken from `%s`, which is neither the receiver nor an operand" % (key, sz["obj"]))
            return
        # (an operand's extent without an XASSERT is equal to the receiver's for every admissible input: not a violation)
        owner_cls = strip_targs(sz["cls"])
        want_acc = EXTENT_OF.get(owner_cls if owner_cls in EXTENT_OF else cls)
        if sz["name"] != want_acc:
            problems.append("extent slot receives %s.%s(); the array %s.elements() holds %s() entries" % (sz["obj"], sz["name"], sz["obj"], want_acc))
        sp = sz["persp"] if (owner_cls in BLOCKED_CLASSES or cls in BLOCKED_CLASSES) else "any"
        if struct == "ComponentCopy":
            # r is the pod array of the blocked vector addressed as i*stride+block: size counts blocks (native)
            if sp not in ("native", "any"):
                problems.append("ComponentCopy walks blocks: size must be the native extent, got %s" % sp)
            st = const_value(loc, slots.get("stride"))
            m = re.search(r"DenseVectorBlocked<[^<>]*,\s*(\d+)>$", fn.cls)
            if m and st is None:
                ck.incomplete("E1.extent", "%s: stride `%s` is not a constant" % (key, render(slots.get("stride"))))
                return
            if m and int(st) != int(m.group(1)):
                problems.append("stride slot receives `%s`, not the block size %s" % (render(slots.get("stride")), m.group(1)))
        elif arr_p != "any" and sp != "any" and sp != arr_p:
            problems.append("arrays are taken in Perspective::%s but the extent in Perspective::%s" % (arr_p, sp))
    ck.ob("E1.extent", key, not problems, "; ".join(problems) if problems else "extent %s.%s<%s>() matches the arrays" % (sz["obj"], sz["name"], sz["persp"]),
          fn.file, call.get("l"))
    # ---- block guard ----------------------------------------------------------------------------
    if "block" in slots and "stride" in slots:
        b = render(loc.resolve(slots["block"]))
        st = render(loc.resolve(slots["stride"]))
        ok = False
        seen = []
        conj = []
        def flat(c):
            c = strip(c)
            if c.get("k") == "Bin" and c.get("op") == "&&":
                flat(c["lhs"]); flat(c["rhs"])
            else:
                conj.append(c)
        for cond, _ in assertions(fn):
            flat(cond)
        for c in conj:
            if c.get("k") == "Bin" and c.get("op") in ("<", ">"):
                l, r = render(loc.resolve(c["lhs"])), render(loc.resolve(c["rhs"]))
                if c["op"] == ">":
                    l, r = r, l
                if l == b:
                    seen.append("%s < %s" % (l, r))
                    if r == st:
                        ok = True
        if not seen:
            ck.ob("E1.block-guard", key, True, "no upper-bound guard on the block index recognised (none is required for admissible inputs)", fn.file, call.get("l"), trivial=True)
            return
        ck.ob("E1.block-guard", key, ok, ("guard %s" % seen) if ok else "the block index `%s` addresses r[i*%s+%s] but is guarded by %s, not by `%s < %s` (the stride passed to the kernel)" % (b, st, b, seen or "nothing", b, st),
              fn.file, call.get("l"))


def check_copy_site(ck, fn, call):
    """MemoryPool::copy(dest, src, count) in set_vec / set_vec_inv: count is the extent of the container array in the same perspective"""
    loc = Locals(fn)
    key = "%s::%s/MemoryPool::copy" % (short(fn.cls), fn.name)
    args = call.get("a", [])
    if len(args) != 3:
        ck.incomplete("E1.extent", "%s: %d arguments" % (key, len(args)))
        return
    accs = [accessor(loc, a) for a in args[:2]]
    arr = [a for a in accs if a is not None and a["name"] == "elements"]
    cnt = accessor(loc, args[2])
    problems = []
    cls = strip_targs(fn.cls)
    other = [a for a, acc in zip(args[:2], accs) if acc is None]
    if len(arr) != 1 or arr[0]["obj"] != "this" or len(other) != 1 or not (loc.resolve(other[0]).get("k") == "Ref" and loc.resolve(other[0]).get("dk") == "param") or cnt is None:
        ck.incomplete("E1.extent", "%s: `%s` is not of the form copy(array parameter <-> this->elements<>(), this->size<>())" % (key, render(call)[:100]))
        return
    else:
        dest_is_param = accs[0] is None
        if dest_is_param != (fn.name == "set_vec"):
            problems.append("copy direction does not match %s" % fn.name)
    if cnt["obj"] != "this" or cnt["name"] != EXTENT_OF.get(cls):
        problems.append("count `%s` is not the receiver's extent %s()" % (render(args[2]), EXTENT_OF.get(cls)))
    elif arr and cls in BLOCKED_CLASSES and cnt["persp"] != arr[0]["persp"]:
        problems.append("array in Perspective::%s, count in Perspective::%s" % (arr[0]["persp"], cnt["persp"]))
    ck.ob("E1.extent", key, not problems, "; ".join(problems) if problems else "count matches the array", fn.file, call.get("l"))


def check_pool_site(ck, fn, call):
    """E1.extent for the library array routines (MemoryPool::set_memory / copy / convert: `count` elements of the pointee type)
    inside the operations: value arrays and count in the same unit (scalars of the pod perspective vs blocks)"""
    loc = Locals(fn)
    key = "%s::%s/%s" % (short(fn.cls), fn.name, call["callee"].replace("FEAT::", ""))
    u = array_units(fn, loc, call, BLOCKED_CLASSES)
    if u is None:
        return
    ptr_units, cu, desc = u
    if cu is None:
        ck.incomplete("E1.extent", "%s: %s - the count is not an extent accessor or a constant (computed count: not modelled)" % (key, desc))
        return
    bad = cu != "const" and any(pu != cu for pu in ptr_units)
    ck.ob("E1.extent", key, not bad,
          ("%s: the array is addressed in %s but the count is in %s: only 1/BlockSize of the scalars are touched (or the routine overruns the array)" % (
              desc, "scalars (Perspective::pod)" if "scalar" in ptr_units else "blocks", "blocks (native perspective)" if cu == "block" else "scalars")) if bad else desc,
          fn.file, call.get("l"), trivial=(cu == "const"))


def check_size_bookkeeping(ck, fn):
    """E1.size-bookkeeping: the extent recorded in _elements_size for the pod array of a blocked vector is a pod count"""
    loc = Locals(fn)
    m = re.search(r",\s*(\d+)>$", fn.cls)
    bs = int(m.group(1)) if m else None
    sig = "(%s)" % ",".join(p["n"] for p in fn.params)
    sites = []
    for n in fn.nodes():
        if n.get("k") == "MCall" and n.get("n") == "push_back" and len(n.get("a", [])) == 1:
            o = strip(n.get("obj") or {})
            if o.get("k") == "Member" and o.get("n") == "_elements_size":
                sites.append((n, n["a"][0]))
        if n.get("k") in ("Assign", "OpCall") and n.get("op") == "=":
            lhs = n.get("lhs") if n.get("k") == "Assign" else (n.get("a") or [None])[0]
            rhs = n.get("rhs") if n.get("k") == "Assign" else (n.get("a") or [None, None])[1]
            l = strip(lhs) if lhs else {}
            if l.get("k") in ("MCall", "OpCall") and (l.get("n") == "at" or l.get("op") == "[]"):
                o = strip(l.get("obj") or (l.get("a") or [{}])[0])
                if o.get("k") == "Member" and o.get("n") == "_elements_size":
                    sites.append((n, rhs))
    allocs = [render(strip(c["a"][0])) for c in fn.calls(callee_re=r"MemoryPool::allocate_memory") if c.get("a")]
    scalar_container = strip_targs(fn.cls) not in BLOCKED_CLASSES
    for k, (node, e) in enumerate(sites):
        key = "%s::%s%s/_elements_size#%d" % (short(fn.cls), fn.name, sig, k)
        r = loc.resolve(e)
        a = accessor(loc, e)
        ok, why = None, ""
        if scalar_container:
            # the array of a scalar container holds scalars: every count is one unless it is the native (block) count of a
            # blocked operand whose pod array is being adopted (convert / constructor from a blocked vector)
            bad = [y for y in walk(r) if y.get("k") == "MCall" and not y.get("a") and y.get("n") in ("size", "used_elements", "allocated_elements")
                   and strip_targs(y.get("ccls", "")) in BLOCKED_CLASSES and perspective(y) != "pod"]
            ck.ob("E1.size-bookkeeping", key, not bad,
                  ("records `%s`: %s.%s() of a blocked vector counts blocks, but the array adopted from it holds size<Perspective::pod>() = blocks x BlockSize scalars and Container::format/_copy_content/clone/serialisation read _elements_size as the number of scalars" % (
                      render(e), objkey(bad[0].get("obj")), bad[0].get("n"))) if bad else "records `%s` (scalar container: a scalar count)" % render(e)[:60],
                  fn.file, node.get("l"))
            continue
        if a is not None and a["name"] in ("size", "used_elements", "allocated_elements"):
            blocked_obj = strip_targs(a["cls"]) in BLOCKED_CLASSES
            if a["persp"] == "pod":
                ok, why = True, "%s.%s<pod>()" % (a["obj"], a["name"])
            elif blocked_obj:
                ok, why = False, "%s.%s<%s>() counts blocks" % (a["obj"], a["name"], a["persp"] or "native")
            else:
                ok, why = True, "%s.%s() of a scalar container" % (a["obj"], a["name"])
        elif r.get("k") == "Bin" and r.get("op") == "*" and bs is not None and any(
                (const_value(loc, x) is not None and int(const_value(loc, x)) == bs) for x in (r["lhs"], r["rhs"])):
            ok, why = True, "block count x BlockSize (%s)" % render(r)
        elif render(strip(e)) in allocs:
            ok, why = True, "the count the array was allocated with (%s)" % render(strip(e))
        elif r.get("k") == "Ref" and r.get("dk") == "param":
            native = False
            for ini in fn.d.get("inits", []) or []:
                if ini.get("base") and any(y.get("k") == "Ref" and y.get("d") == r.get("d") for y in walk(ini.get("init"))):
                    native = True          # Container<DT_, IT_>(size_in): the container's native size
            for n2 in fn.nodes():
                if n2.get("k") == "MCall" and n2.get("n") == "push_back" and strip(n2.get("obj") or {}).get("n") == "_scalar_index" and n2.get("a"):
                    a0 = loc.resolve(n2["a"][0])
                    if a0.get("k") == "Ref" and a0.get("d") == r.get("d"):
                        native = True
            if native and bs != 1:
                ok, why = False, "the parameter `%s` is the native size of the container (a block count)" % r.get("n")
        if ok is None:
            ck.incomplete("E1.size-bookkeeping", "%s: recorded extent `%s` not understood" % (key, render(e)))
            continue
        ck.ob("E1.size-bookkeeping", key, ok,
              ("records %s" % why) if ok else "records `%s`: %s, but Container::format/_copy_content/serialisation read _elements_size as the number of scalars of the pod array (expected size<Perspective::pod>() = blocks x %s, as the sibling constructors record)" % (render(e), why, bs),
              fn.file, node.get("l"))


def sorting_members(facts_list):
    """per class: names of the members that (transitively, through members of the same class) call sort()"""
    direct, calls = {}, {}
    for fx in facts_list:
        for f in fx.functions:
            if f.tk == "pattern" or strip_targs(f.cls) not in ("FEAT::LAFEM::SparseVector", "FEAT::LAFEM::SparseVectorBlocked"):
                continue
            cs = set()
            for n in f.nodes():
                if n.get("k") == "MCall" and strip_targs(n.get("ccls", "")) == strip_targs(f.cls):
                    cs.add(n.get("n"))
            calls.setdefault(f.cls, {}).setdefault(f.name, set()).update(cs)
    out = {}
    for cls, m in calls.items():
        srt = {name for name, cs in m.items() if "sort" in cs and name != "sort"} | {"sort"}
        changed = True
        while changed:
            changed = False
            for name, cs in m.items():
                if name not in srt and cs & srt:
                    srt.add(name)
                    changed = True
        out[cls] = srt
    return out


SPARSE_CLASSES = ("FEAT::LAFEM::SparseVector", "FEAT::LAFEM::SparseVectorBlocked")


def lazy_sort_accessors(facts_list):
    """names of the parameterless, value-returning members of SparseVector(Blocked) that run the lazy sort step in at
    least one instantiation (the siblings of that name must then do so in every class / perspective)"""
    names = set()
    for fx in facts_list:
        for f in fx.functions:
            if f.tk == "pattern" or strip_targs(f.cls) not in SPARSE_CLASSES or f.params or f.name == "sort":
                continue
            if fx.types[f.d.get("ret")] == "void" if f.d.get("ret") is not None else True:
                continue
            if any(n.get("k") == "MCall" and n.get("n") == "sort" and strip_targs(n.get("ccls", "")) in SPARSE_CLASSES for n in f.nodes()):
                names.add(f.name)
    return names


def check_lazy_sort(ck, fn):
    """E7.sort-before-read: every exit of a sorting accessor that returns container state has passed the lazy sort step"""
    persp = perspective({"cfull": fn.full})
    key = "%s::%s%s%s" % (short(fn.cls), fn.name, "<%s>" % persp if persp else "", " const" if fn.d.get("const") else "")
    cfg = fn.cfg
    if cfg is None:
        ck.incomplete("E7.sort-before-read", "%s: no CFG" % key)
        return
    state_members = ("_scalar_index", "_elements", "_indices")
    targets, rets = [], []
    for b in cfg.blocks.values():
        for e in b["el"]:
            n = fn.by_id(e)
            if n is not None and n.get("k") == "Return":
                loc_ = Locals(fn)
                exprs = [n.get("e")] + [loc_.var[y["d"]].get("init") for y in walk(n.get("e")) if y.get("k") == "Ref" and y.get("dk") == "local" and y.get("d") in loc_.var and loc_.var[y["d"]].get("init") is not None]
                reads = any(y.get("k") == "Member" and y.get("n") in state_members for x_ in exprs for y in walk(x_))
                calls = [y for y in walk(n.get("e")) if y.get("k") == "MCall" and objkey(y.get("obj")) == "this" and y.get("n") not in ("empty",)]
                if reads:
                    targets.append(b["id"])
                    rets.append(n)
                elif calls:
                    ck.incomplete("E7.sort-before-read", "%s: return value `%s` is computed by another member (not modelled)" % (key, render(n.get("e"))[:60]))
                    return
    if not targets:
        ck.incomplete("E7.sort-before-read", "%s: no exit returning container state found" % key)
        return
    # the lazy step: a condition that reads sorted() and controls a call of sort()
    def is_step(n):
        return any(y.get("k") == "MCall" and y.get("n") in ("sorted", "sort") and objkey(y.get("obj")) == "this" for y in walk(n))
    step_blocks = set()
    for b in cfg.blocks.values():
        ids = list(b["el"]) + ([b["cond"]] if b.get("cond") is not None else [])
        if any(fn.by_id(e) is not None and is_step(fn.by_id(e)) for e in ids):
            step_blocks.add(b["id"])
    has_sort = any(n.get("k") == "MCall" and n.get("n") == "sort" for n in fn.nodes())
    reach = cfg.reachable(cfg.entry, avoid=step_blocks)
    bad = [t for t in targets if t in reach]
    problems = []
    if not has_sort:
        others = [n for n in fn.nodes() if is_call(n) and n.get("k") in ("Call", "MCall") and not (n.get("k") == "MCall" and n.get("n") in ("at", "empty", "size", "sorted"))]
        if others:
            ck.incomplete("E7.sort-before-read", "%s: no sort() call; whether `%s` performs the lazy sort is not modelled" % (key, render(others[0])[:50]))
            return
        problems.append("this instantiation never runs the lazy sort step although its siblings of the same name do")
    for t in bad:
        r = [n for n in rets if cfg.block_of(n["i"]) and cfg.block_of(n["i"])[0] == t]
        problems.append("line %s: `%s` is returned on a path that has not passed `if(sorted() == 0) sort()`: the state is read before unsorted / duplicate entries are merged" % (r[0].get("l") if r else "?", render(r[0])[:70] if r else "return"))
    ck.ob("E7.sort-before-read", key, not problems, "; ".join(problems) if problems else "%d state-returning exits, all behind the lazy sort step" % len(targets), fn.file, fn.line)


def check_sparse_insert(ck, fn, sorters):
    """E7.no-resort-in-update: the element setter of a sparse vector clears the sorted flag and triggers no re-sort itself"""
    key = "%s::operator()(%s)" % (short(fn.cls), ",".join(p["n"] for p in fn.params))
    cfg = fn.cfg
    clears = []
    for n in fn.nodes():
        if n.get("k") == "Assign" and n.get("op") == "=":
            l = strip(n["lhs"])
            if l.get("k") == "MCall" and l.get("n") == "_sorted" and is_zero(n["rhs"]):
                clears.append(n)
    srt = sorters.get(fn.cls)
    if srt is None or cfg is None:
        ck.incomplete("E7.no-resort-in-update", "%s: members of the class not available" % key)
        return
    if not clears:
        # the flag may be cleared by another construct (helper, direct _scalar_index write)
        ck.incomplete("E7.no-resort-in-update", "%s: no `_sorted() = 0` found; how the setter invalidates the sorted state is not modelled" % key)
        return
    problems = []
    cid = clears[0]["i"]
    ok, bad = cfg.must_pass(lambda x: any(y.get("i") == cid for y in walk(x)))
    if not ok:
        problems.append("a normal exit is reachable without clearing the sorted flag (the appended entry would never be sorted in)")
    for n in fn.nodes():
        if n.get("k") == "MCall" and strip_targs(n.get("ccls", "")) == strip_targs(fn.cls) and n.get("n") in srt and objkey(n.get("obj")) == "this":
            problems.append("line %s: `%s` is called while the update is in progress; it sorts (and de-duplicates) the half-updated arrays and marks the container sorted, so the entry appended afterwards is never sorted in / merged (use the raw accessor)" % (n.get("l"), render(n)))
    ck.ob("E7.no-resort-in-update", key, not problems, "; ".join(problems) if problems else "clears the sorted flag on every path and calls none of the re-sorting members %s" % sorted(srt),
          fn.file, fn.line)


def check_dispatch(ck, fn):
    """Arch::X::value* wrappers forward every parameter to the like-named slot of the implementation"""
    struct = strip_targs(fn.cls).rsplit("::", 1)[-1]
    ptypes = ",".join(fn.type(p["t"]).replace("const ", "").replace(" ", "") for p in fn.params[:1])
    key = "%s::%s(%s)" % (struct, fn.name, strip_targs(ptypes))
    own = {p["d"]: p["n"] for p in fn.params}
    impl = [c for c in fn.calls(callee_re=r"^" + re.escape(fn.cls) + r"::") if c["callee"].rsplit("::", 1)[-1].startswith(fn.name + "_")]
    if not impl:
        ck.incomplete("E1.dispatch", "%s: no call to an implementation %s_*" % (key, fn.name))
        return
    problems = []
    ids = set()
    for c in impl:
        ids.add(c["i"])
        for slot, a in zip(c.get("pn", []), c.get("a", [])):
            a = strip(a)
            if not (a.get("k") == "Ref" and a.get("d") in own):
                ck.incomplete("E1.dispatch", "%s: %s receives the expression `%s` in slot %s (not a plain parameter)" % (key, c["callee"].rsplit("::", 1)[-1], render(a)[:60], slot))
                return
            if own[a["d"]] != slot:
                problems.append("%s: slot %s receives `%s`" % (c["callee"].rsplit("::", 1)[-1], slot, render(a)))
    cfg = fn.cfg
    if cfg is not None:
        def has_impl(n):
            return any(x.get("i") in ids for x in walk(n))
        ok, bad = live_must_pass(fn, has_impl)
        if not ok:
            ck.incomplete("E1.dispatch", "%s: a normal exit is reachable without a call to an implementation of the same struct (work done inline or by an unmodelled callee?)" % key)
            return
    ck.ob("E1.dispatch", key, not problems, "; ".join(problems) if problems else "forwards %s to %s" % (list(own.values()), sorted({c["callee"].rsplit("::", 1)[-1] for c in impl})),
          fn.file, fn.line)


# -------------------------------------------------------------------------------------------------
# E4: meta vectors
# -------------------------------------------------------------------------------------------------
def meta_kind(cls):
    """-> ('TupleVector'|'PowerVector', recursive?)"""
    base = strip_targs(cls)
    if base == "FEAT::LAFEM::TupleVector":
        inner = cls[cls.index("<") + 1:-1]
        depth = 0
        parts = 1
        for ch in inner:
            if ch == "<":
                depth += 1
            elif ch == ">":
                depth -= 1
            elif ch == "," and depth == 0:
                parts += 1
        return "TupleVector", parts > 1
    if base == "FEAT::LAFEM::PowerVector":
        m = re.search(r",\s*(\d+)>$", cls)
        return "PowerVector", (m is not None and int(m.group(1)) > 1)
    return None, None


def projection(n):
    """`this->first()`, `x.rest()`, `_first`, `other._rest` -> (object, 'first'|'rest') else None"""
    n = strip(n)
    if n is None:
        return None
    if n.get("k") == "MCall" and n.get("n") in ("first", "rest") and not n.get("a"):
        return objkey(n.get("obj")), n["n"]
    if n.get("k") == "Member" and n.get("n") in ("_first", "_rest"):
        return objkey(n.get("b")), n["n"][1:]
    return None


def is_meta_type(t):
    t = re.sub(r"^(const\s+)+", "", (t or "").strip())
    t = re.sub(r"[\s&*]+(const)?$", "", t).strip()
    return re.match(r"^(FEAT::LAFEM::)?(TupleVector|PowerVector)<.*>$", t) is not None and strip_targs(t).rstrip() in (
        "FEAT::LAFEM::TupleVector", "FEAT::LAFEM::PowerVector", "TupleVector", "PowerVector")


def _combiner(e):
    """-> ('+'|'max'|'min', [operands]) for a recognised combiner expression, else (None, [])"""
    e = strip(e)
    if e.get("k") == "Bin" and e.get("op") == "+":
        return "+", [e["lhs"], e["rhs"]]
    if e.get("k") == "Call" and len(e.get("a", [])) == 2:
        c = strip_targs(e.get("callee", ""))
        if c in ("FEAT::Math::max", "std::max"):
            return "max", list(e["a"])
        if c in ("FEAT::Math::min", "std::min"):
            return "min", list(e["a"])
    return None, []


def check_meta_method(ck, fn, recursive):
    name = fn.name
    mk, _ = meta_kind(fn.cls)
    sig = "" if name != "format" else ("(rng)" if len(fn.params) == 3 else "(value)")
    key = "%s[%s]::%s%s" % (mk, "rec" if recursive else "base", name, sig)
    inst = short(fn.cls)
    loc = Locals(fn)
    want_proj = ["first", "rest"] if recursive else ["first"]
    meta_params = [p["n"] for p in fn.params if is_meta_type(fn.type(p["t"]))]
    own = {p["d"]: (k, p["n"]) for k, p in enumerate(fn.params)}
    scheme = "MAP" if name in META_MAP else "FOLD(%s)" % META_FOLD[name]
    definite, soft = [], []       # soft: the body uses a construct the rule does not model -> analysis-incomplete
    body = stmts(fn.body)
    KNOWN_OPS = set(META_MAP) | set(META_FOLD)

    def is_proj_call(n):
        return n.get("k") == "MCall" and n.get("n") in ("first", "rest") and not n.get("a")

    # every call of the body must be modelled, otherwise "missing" verdicts are not definite
    subcalls = []
    for n in fn.nodes():
        if n.get("k") in ("For", "While", "Do", "ForRange", "Lambda", "Switch"):
            soft.append("%s statement at line %s" % (n["k"], n.get("l")))
        if not is_call(n) or is_proj_call(n):
            continue
        if n.get("k") == "MCall":
            pr = projection(loc.resolve(n.get("obj")) if n.get("obj") is not None else None)
            if pr is not None and pr[0] == "this":
                subcalls.append((pr[1], n))
                continue
            if objkey(n.get("obj")) == "this" and n.get("n") == "norm2sqr" and name == "norm2" and not n.get("a"):
                continue
            soft.append("call `%s` (line %s) is not a sub-call on first()/rest()" % (render(n)[:60], n.get("l")))
            continue
        if n.get("k") == "Call" and strip_targs(n.get("callee", "")) in ("FEAT::Math::max", "FEAT::Math::min", "FEAT::Math::sqrt", "std::max", "std::min", "std::sqrt", "std::move", "std::forward"):
            continue
        if n.get("k") in ("Construct", "TempObj") and len(n.get("a", [])) <= 1:
            continue      # copies / conversions of scalars
        soft.append("call `%s` (line %s) is not modelled" % (render(n)[:60], n.get("l")))

    def finish():
        if soft:
            ck.incomplete("E4.map-fold", "%s [%s]: %s" % (key, inst, "; ".join(soft[:3])))
            return
        ck.ob("E4.map-fold", key, not definite, "[%s] %s " % (inst, scheme) + ("; ".join(definite) if definite else "over %s, operands %s projected like the receiver" % (want_proj, meta_params)),
              fn.file, fn.line, sample={"class": inst, "scheme": scheme, "body": [render(x)[:120] for x in body]})

    # ---- norm2 = sqrt(norm2sqr) --------------------------------------------------------------------------
    if name == "norm2" and not any(c.get("n") == "norm2" for _, c in subcalls):
        rets = [x for x in body if x.get("k") == "Return"]
        if len(rets) != 1 or any(x.get("k") not in ("Return", "Decl") for x in body):
            soft.append("norm2 body is not `[locals] return ...`")
            return finish()
        e = loc.resolve(rets[0]["e"])
        if not (e.get("k") == "Call" and strip_targs(e.get("callee", "")) in ("FEAT::Math::sqrt", "std::sqrt") and len(e["a"]) == 1):
            soft.append("norm2 returns `%s`, which is not a square root" % render(e)[:80])
            return finish()
        inner = loc.resolve(e["a"][0])
        if inner.get("k") == "MCall" and inner.get("n") == "norm2sqr" and not inner.get("a") and (objkey(inner.get("obj")) == "this" or (projection(inner.get("obj")) == ("this", "first") and not recursive)):
            return finish()
        comb, ops = _combiner(inner)
        if comb is not None:
            got = []
            for o in ops:
                o = loc.resolve(o)
                got.append(projection(o.get("obj"))[1] if o.get("k") == "MCall" and o.get("n") == "norm2sqr" and projection(o.get("obj")) and projection(o.get("obj"))[0] == "this" else "?")
            if "?" in got:
                soft.append("norm2 takes the root of `%s`" % render(inner)[:80])
            elif comb != "+":
                definite.append("norm2 combines the squared norms of the parts by %s, expected +" % comb)
            elif sorted(got) != want_proj:
                definite.append("norm2 takes the root of the squared norms of %s, expected %s" % (got, want_proj))
            return finish()
        soft.append("norm2 takes the root of `%s`" % render(inner)[:80])
        return finish()

    calls_by_proj = {}
    for pr, c in subcalls:
        if c.get("n") == "size" and name in ("set_vec", "set_vec_inv"):
            continue      # offset expression, checked below
        calls_by_proj.setdefault(pr, []).append(c)
    for pr in want_proj:
        cs = calls_by_proj.get(pr, [])
        if len(cs) != 1:
            definite.append("%s() is the receiver of %d sub-calls, expected exactly one" % (pr, len(cs)))
    for pr in calls_by_proj:
        if pr not in want_proj:
            definite.append("unexpected projection %s()" % pr)
    for pr in want_proj:
        for c in calls_by_proj.get(pr, [])[:1]:
            if c.get("n") != name:
                (definite if c.get("n") in KNOWN_OPS else soft).append("%s() calls %s, not %s (method parity)" % (pr, c.get("n"), name))
            if name == "size" and perspective(c) != perspective({"cfull": fn.full}):
                definite.append("%s().size<%s>() inside size<%s>()" % (pr, perspective(c), perspective({"cfull": fn.full})))
            args = c.get("a", [])
            used_meta = []
            # every parameter of the operation is forwarded: a parameter that no argument of the sub-call mentions is replaced
            # by the callee's default value (e.g. alpha = 1) - silently, because the call still compiles
            mentioned = {y.get("d") for a_ in args for y in walk(loc.resolve(a_)) if y.get("k") == "Ref"} | {y.get("d") for a_ in args for y in walk(a_) if y.get("k") == "Ref"}
            for d_, (k_, pn_) in own.items():
                if d_ not in mentioned and name not in ("set_vec", "set_vec_inv"):
                    definite.append("%s().%s(...) does not receive the parameter `%s` of the operation (a constant / the sub-vector's default value is passed instead)" % (pr, name, pn_))
            if len(args) != len(fn.params) and not any("does not receive" in x for x in definite):
                soft.append("%s().%s receives %d arguments for %d parameters" % (pr, name, len(args), len(fn.params)))
            for k, a in enumerate(args):
                ap = projection(loc.resolve(a))
                if ap is not None:
                    if ap[0] not in meta_params:
                        soft.append("%s().%s(...) receives `%s`, which is not a projection of an operand" % (pr, name, render(a)))
                    elif ap[1] != pr:
                        definite.append("%s().%s(...) receives `%s`: operand projected by %s(), receiver by %s()" % (pr, name, render(a), ap[1], pr))
                    used_meta.append(ap[0])
                    continue
                r = loc.resolve(a)
                if name in ("set_vec", "set_vec_inv"):
                    if pr == "first":
                        if not (r.get("k") == "Ref" and r.get("d") in own):
                            soft.append("first().%s receives `%s`" % (name, render(a)))
                    else:
                        okoff = None
                        if r.get("k") == "Bin" and r.get("op") == "+":
                            p0, off = loc.resolve(r["lhs"]), loc.resolve(r["rhs"])
                            if p0.get("k") != "Ref":
                                p0, off = off, p0
                            if p0.get("k") == "Ref" and p0.get("d") in own and off.get("k") == "MCall" and off.get("n") == "size" \
                                    and projection(off.get("obj")) == ("this", "first"):
                                okoff = perspective(off) == "pod"
                        if okoff is None:
                            soft.append("rest().%s receives `%s` (offset form not modelled)" % (name, render(a)))
                        elif not okoff:
                            definite.append("rest().%s receives `%s`: the offset must be first().size<Perspective::pod>() (scalars), not the native block count" % (name, render(a)))
                    continue
                if r.get("k") == "Ref" and r.get("d") in own:
                    if own[r["d"]][1] in meta_params:
                        definite.append("%s().%s receives the whole operand `%s` instead of its %s()" % (pr, name, own[r["d"]][1], pr))
                    elif own[r["d"]][0] != k:
                        definite.append("%s().%s: argument %d is the parameter `%s` (position %d)" % (pr, name, k, own[r["d"]][1], own[r["d"]][0]))
                    continue
                if const_value(loc, a) is not None or r.get("k") in ("Int", "Float", "Bool"):
                    continue        # a constant in place of a parameter: reported as "parameter not forwarded" above
                soft.append("%s().%s: argument `%s` is neither a projected operand nor an unchanged parameter" % (pr, name, render(a)))
            if sorted(used_meta) != sorted(meta_params):
                definite.append("%s().%s uses operands %s, the operation has %s (each exactly once)" % (pr, name, used_meta, meta_params))
    # shape of the body: MAP = the sub-calls as statements; FOLD = [locals] + a single return combining them
    if name in META_MAP:
        for x in body:
            if not (x.get("k") == "MCall" and any(x is c for cs in calls_by_proj.values() for c in cs)) and x.get("k") != "Decl":
                soft.append("statement `%s` in a MAP body" % render(x)[:70])
    else:
        rets = [x for x in body if x.get("k") == "Return"]
        if len(rets) != 1 or any(x.get("k") not in ("Return", "Decl") for x in body):
            soft.append("FOLD body is not `[locals] return ...`")
        else:
            e = loc.resolve(rets[0]["e"])
            comb = META_FOLD[name]
            if not recursive:
                if not (e.get("k") == "MCall" and projection(e.get("obj")) == ("this", "first")):
                    soft.append("base case returns `%s`" % render(e)[:80])
            else:
                got_comb, operands = _combiner(e)
                if got_comb is None:
                    if e.get("k") == "MCall" and projection(e.get("obj")) and projection(e.get("obj"))[0] == "this":
                        pass        # a single part: already reported as a missing sub-call above
                    else:
                        soft.append("the parts are combined by `%s` (combiner not modelled)" % render(e)[:80])
                elif got_comb != comb:
                    definite.append("combines the parts by %s, expected %s" % (got_comb, comb))
                else:
                    got = []
                    for o in operands:
                        o = loc.resolve(o)
                        got.append(projection(o.get("obj"))[1] if o.get("k") == "MCall" and projection(o.get("obj")) and projection(o.get("obj"))[0] == "this" else "?")
                    if "?" in got:
                        soft.append("combiner operands `%s` are not the part results" % [render(o)[:40] for o in operands])
                    elif sorted(got) != ["first", "rest"]:
                        definite.append("combiner operands are the results of %s, expected first() and rest()" % got)
    finish()


# -------------------------------------------------------------------------------------------------
def run(tier):
    ck = Check("C04", tier)
    ck.rule("E0.instantiable", "every operation of the property (axpy, scale, component_product/invert, dot, triple_dot, norm2(sqr), min/max(_abs)_element, copy, format and the *_blocked forms) type-checks for every vector kind of the driver. Broken for: any call of that member.", 14)
    ck.rule("E2.kernel-loop", "for every aliasing pattern of its array parameters, the code a generic vector kernel executes under that pattern (whatever the spelling of its alias tests: if/else chain, early return, negated test) is one induction over [0,size) (blocked: times [0,n); index loop, reversed index loop or pointer cursors in lock step) whose single update addresses every array at the current element and writes the output array r resp. the accumulator. Broken for: any size>1 (stale/partial output), sizes that are not a multiple of a stride.", 66)
    ck.rule("E2.reduction", "dot/triple_dot/norm kernels start the accumulator from 0 and return it (Norm2: its square root). Broken for: every non-empty input (uninitialised or wrong start), empty vectors (must give 0).", 14)
    ck.rule("E2.index-kernel", "min/max(_abs) index kernels: the loop covers [0,size), the candidate compared is the one stored, the direction matches the name, the incumbent is seeded from element 0 (0 only for max-abs), blocked kernels reset the incumbent index per component. Broken for: all-negative vectors (seed 0), negative first element (min_abs seeded without abs), block vectors whose extreme components sit at different positions.", 14)
    ck.rule("E5.definition", "the general branch of every kernel equals the documented element-wise definition (polynomial/rational normal form); a branch selected by a test of the scalar arguments (alpha == 0, |alpha| < tol, ...) computes what the definition gives under that test - a deviation that depends on the array contents is a violation, one that depends on the tested scalar only is a floating-point argument the rule does not decide; a kernel whose definition has no division does not divide by an unguarded value derived from the array contents (zeros are admissible data). Broken for: all-zero vectors / components (NaN), all non-aliased calls; scalar values inside the tested range with r = 0 or |x| >> |r|.", 26)
    ck.rule("E5.alias-branch", "for every aliasing pattern of the array parameters (r==x, x==y, x==z, y==z, r==x==y, ...) the code executed under that pattern equals the general branch after substituting the aliasing. Broken for: calls that pass the same vector for two operands (never done by the tests).", 38)
    ck.rule("E1.operands", "Arch call sites of DenseVector/DenseVectorBlocked/SparseVector(Blocked): the array slots carry the receiver and every vector parameter exactly once (receiver in the output slot r), the scalar slot carries the scalar parameter; ComponentCopy: array offset + block slot together name the component the operation names (the kernel addresses r[i*stride + block] from the pointer it gets). Broken for: any x != y, alpha != 1, component index > 0 when the offset is applied at both sites.", 65)
    ck.rule("E1.extent", "the extent slot carries the number of entries of the arrays passed: size<P>() for dense, used_elements<P>() for sparse vectors, P = perspective of the arrays (pod arrays with pod extent), of the receiver or an operand asserted equal; set_vec/set_vec_inv copy counts likewise; library array routines inside the operations (MemoryPool::set_memory/copy/convert) receive value arrays and count in the same unit (scalars vs blocks). Broken for: block size > 1 (only 1/BlockSize of the data processed or overrun), sparse vectors with fewer entries than their dimension, special-case paths (alpha == 0) of blocked vectors.", 71)
    ck.rule("E1.size-bookkeeping", "every extent a DenseVectorBlocked / SparseVectorBlocked constructor, convert, read_from or insertion records in _elements_size for its pod array is a pod count (size<Perspective::pod>(), blocks x BlockSize, or the very count the array was allocated with) - what Container::format/_copy_content/clone iterate over; all sites of a class agree; a DenseVector that adopts the pod array of a blocked vector (convert / constructor) records a scalar count, never the native (block) count of the source. Broken for: format()/copy()/clone() on range views, freshly built blocked vectors or converted vectors with BlockSize > 1 (only 1/BlockSize of the scalars touched).", 17)
    ck.rule("E7.sort-before-read", "the lazily sorting accessors of SparseVector / SparseVectorBlocked (elements<P>(), indices(), used_elements<P>(): every class, constness and perspective instantiation of a name that sorts in any sibling) return container state only on paths that passed `if(sorted()==0) sort()`. Broken for: vectors filled out of order or with repeated indices, read through the instantiation that skips the step (count before duplicates are merged -> min/max kernels read a stale tail).", 13)
    ck.rule("E7.no-resort-in-update", "the element setter operator()(index, value) of SparseVector / SparseVectorBlocked clears the sorted flag on every path and, until it returns, calls no member that (transitively) runs sort() - the function's own CAUTION comment. Broken for: the insertion that exceeds the allocated capacity when it updates an existing index or is not the largest index: the container stays flagged sorted with an unsorted / duplicated tail, so used_elements(), operator()(i) and min/max(_abs)_element read stale data.", 2)
    ck.rule("E1.block-guard", "component_copy/component_copy_to guard the block index against the stride they pass to the kernel (0 <= block < BlockSize). Broken for: vectors with fewer blocks than BlockSize (valid index rejected), block >= BlockSize on long vectors (out-of-bounds write accepted).", 4)
    ck.rule("E1.dispatch", "every Arch::X::value / value_blocked / value_to wrapper forwards each of its parameters to the like-named slot of the implementation it selects, on every path. Broken for: all callers of that kernel.", 42)
    ck.rule("E4.map-fold", "TupleVector / PowerVector (recursive and base specialisation): every operation calls the same operation on first() (and rest()), every meta operand projected by the same projection as the receiver, other parameters unchanged and in place, reductions combined by + / Math::max / Math::min, norm2 = sqrt(norm2sqr), set_vec offsets rest by first().size<pod>(). Broken for: any composition with more than one block.", 171)

    extra = ("-DVERIF_THOROUGH",) if tier == "thorough" else ()
    all_facts = [featlib.extract("tu/c04_vectors.cpp", files=LAFEM + "|/verif/tu/", extra=extra)]
    if tier == "thorough":
        for t in ("dense_vector-test.cpp", "dense_vector_blocked-test.cpp", "sparse_vector-test.cpp", "sparse_vector_blocked-test.cpp",
                  "meta_vector-axpy-test.cpp", "meta_vector-comp_invert-test.cpp", "meta_vector-comp_prod-test.cpp",
                  "meta_vector-dot-norm2-test.cpp", "meta_vector-scale-test.cpp"):
            p = featlib.repo_path("kernel/lafem/" + t)
            try:
                all_facts.append(featlib.extract(p, files=LAFEM))
            except (featlib.AnalysisBroken, OSError) as e:
                ck.incomplete("E0.instantiable", "repo TU %s could not be parsed: %s" % (t, str(e)[:200]))

    seen_fn = set()
    n_e0 = 0
    sorters = sorting_members(all_facts)
    lazy_names = lazy_sort_accessors(all_facts)
    for facts in all_facts:
        ck.tu(facts)
        driver = facts.tu.startswith(featlib.VERIF)
        for e in facts.errors_outside_repo():
            if driver or True:
                ck.incomplete("E0.instantiable", "front-end error outside the repository: %s:%d %s" % (e["file"], e["line"], e["msg"][:160]))
        # E0: errors inside curated members are findings, others are recorded
        bad_members = {}
        for e in facts.errors_in_repo():
            member = None
            for nt in e["notes"]:
                m = re.search(r"in instantiation of (?:function template specialization|member function) '(.*?)' requested here", nt["msg"])
                if m:
                    member = m.group(1)
                    break
            mname = strip_targs(member or "").rsplit("::", 1)[-1] if member else None
            if mname in CURATED:
                bad_members.setdefault((strip_targs(member).replace("FEAT::LAFEM::", ""), mname), []).append(e)
            else:
                ck.note("instantiation not applicable (not an operation of C04): %s:%d %s [%s]" % (rel(e["file"]), e["line"], e["msg"][:100], mname))
        for (mem, mname), errs in bad_members.items():
            e = errs[0]
            ck.ob("E0.instantiable", mem, False, "does not instantiate: %s:%d %s" % (rel(e["file"]), e["line"], e["msg"][:200]), e["file"], e["line"])
            n_e0 += 1

        for fn in facts.functions:
            if fn.tk == "pattern" or fn.body is None:
                continue
            ident = (fn.full, fn.line, ",".join(fn.type(p["t"]) for p in fn.params))
            if ident in seen_fn:
                continue
            seen_fn.add(ident)
            base = strip_targs(fn.cls)
            # ---- kernels -----------------------------------------------------------------------
            m = re.match(r"^FEAT::LAFEM::Arch::(\w+)$", base)
            if m and m.group(1) in VECTOR_KERNELS:
                struct = m.group(1)
                if fn.name.endswith("_generic"):
                    blocked = "blocked" in fn.name
                    try:
                        fn = inline_helpers(fn)        # helpers of kernel/lafem (also with lambdas), if constexpr, std::fill/copy
                    except Unknown as e:
                        ck.incomplete("E2.kernel-loop", "%s::%s: %s" % (struct, fn.name, e))
                        continue
                    if struct in KERNEL_DEF:
                        analyse_mapfold(ck, fn, struct, blocked)
                    elif struct in INDEX_KERNELS:
                        analyse_index_kernel(ck, fn, struct, blocked)
                    else:
                        analyse_component_copy(ck, fn)
                elif fn.name in ("value", "value_blocked", "value_to"):
                    check_dispatch(ck, fn)
                continue
            # ---- leaf containers ---------------------------------------------------------------
            if base in EXTENT_OF:
                for c in fn.calls(callee_re=ARCH_RE):
                    if c.get("k") == "Call":
                        check_call_site(ck, fn, c)
                if base in BLOCKED_CLASSES or base == "FEAT::LAFEM::DenseVector":
                    check_size_bookkeeping(ck, fn)
                if base in SPARSE_CLASSES and fn.name in lazy_names and not fn.params:
                    check_lazy_sort(ck, fn)
                if base in ("FEAT::LAFEM::SparseVector", "FEAT::LAFEM::SparseVectorBlocked") and fn.name == "operator()" and len(fn.params) == 2 and not fn.d.get("const"):
                    check_sparse_insert(ck, fn, sorters)
                if fn.name in ("set_vec", "set_vec_inv"):
                    for c in fn.calls(callee_re=r"^FEAT::MemoryPool::copy$"):
                        check_copy_site(ck, fn, c)
                elif fn.name in CURATED:
                    for c in fn.calls(callee_re=r"^FEAT::MemoryPool::(copy|set_memory|convert)$"):
                        check_pool_site(ck, fn, c)
                continue
            # ---- meta vectors ------------------------------------------------------------------
            mk, rec = meta_kind(fn.cls)
            if mk is not None and (fn.name in META_MAP or fn.name in META_FOLD):
                if fn.name == "copy" and not any(is_meta_type(fn.type(p["t"])) for p in fn.params):
                    continue     # copy(const VT_&) conversions are not the vector operation
                check_meta_method(ck, fn, rec)
    # E0 positive statement: the curated members were all dumped (bodies exist) for the driver's classes
    f0 = all_facts[0]
    for cls_re, members in ((r"^FEAT::LAFEM::DenseVector<", ["axpy", "scale", "component_product", "component_invert", "dot", "triple_dot", "norm2", "norm2sqr", "max_abs_element", "min_abs_element", "max_element", "min_element", "copy", "set_vec"]),
                            (r"^FEAT::LAFEM::DenseVectorBlocked<", ["axpy", "axpy_blocked", "scale", "scale_blocked", "component_product", "component_invert", "component_copy", "component_copy_to", "dot", "dot_blocked", "triple_dot", "triple_dot_blocked", "norm2", "norm2_blocked", "norm2sqr", "norm2sqr_blocked", "max_abs_element", "max_abs_element_blocked", "min_abs_element", "min_abs_element_blocked", "max_element", "max_element_blocked", "min_element", "min_element_blocked", "copy"]),
                            (r"^FEAT::LAFEM::SparseVector<", ["max_abs_element", "min_abs_element", "max_element", "min_element"]),
                            (r"^FEAT::LAFEM::SparseVectorBlocked<", ["max_abs_element", "min_abs_element", "max_element", "min_element"]),
                            (r"^FEAT::LAFEM::TupleVector<", sorted(set(META_MAP) | set(META_FOLD))),
                            (r"^FEAT::LAFEM::PowerVector<", sorted(set(META_MAP) | set(META_FOLD)))):
        classes = sorted({f.cls for f in f0.functions if re.search(cls_re, f.cls) and f.tk != "pattern"
                          and strip_targs(f.cls) == cls_re[1:-1] and f.name in members})
        if not classes:
            ck.incomplete("E0.instantiable", "no instantiation of %s in the driver" % cls_re)
        for cls in classes:
            have = {f.name for f in f0.functions if f.cls == cls}
            missing = [m for m in members if m not in have]
            k = cls.replace("FEAT::LAFEM::", "")
            if k not in DRIVER_EXPLICIT:
                # implicitly instantiated (rest classes, thorough extras): only the members their users need exist
                ck.ob("E0.instantiable", k + "/operations", True, "%d of %d operations instantiated and type-checked (class not explicitly instantiated by the driver)" % (len(members) - len(missing), len(members)), None, None, trivial=True)
                continue
            if missing:
                ck.incomplete("E0.instantiable", "%s: no body for %s although the driver instantiates the class explicitly (member removed or renamed?)" % (k, missing))
            ck.ob("E0.instantiable", k + "/operations", True, "%d operations instantiated and type-checked" % (len(members) - len(missing)), None, None)

    ck.assume("alias branches are compared as per-element updates; this is exact because E2.kernel-loop establishes that every operand is read and written at the loop index only (an in-place update cannot observe another element)")
    ck.assume("floating-point rounding, overflow and the MKL/CUDA back ends are not modelled; min/max on empty vectors is outside the property (undefined)")
    ck.assume("container-level copy/format of the leaf vectors (Container::_copy_content, Container::format) belong to C02/C20 and are only checked here through the meta-vector recursion")
    return ck.finish(
        "Static rules over the clang-resolved program (driver tu/c04_vectors.cpp%s): (E2) every generic vector kernel of kernel/lafem/arch is a canonical loop nest over [0,size)(x[0,n)) "
        "with every operand subscripted by the loop variables, outputs covered, reductions seeded neutrally, argmin/argmax kernels consistent; (E5) every alias-specialised branch equals the general "
        "branch under its aliasing condition and the general branch equals the documented definition, decided by sympy normal forms; (E1) every Arch call site of the four leaf vector classes passes "
        "receiver/operands/scalar/extent in the slots named by the callee's parameters with coherent perspective, wrappers forward unchanged; (E4) Tuple/PowerVector operations are MAP/FOLD recursions "
        "with like projections and the right combiner; (E0) the listed operations instantiate. All sizes, values and aliasing patterns are covered symbolically; template arguments are those of the driver." % (
            " + VERIF_THOROUGH + the repo's vector test TUs" if tier == "thorough" else ""))
