"""C15 — finite-element bases are derivative-consistent / dual on the lattice; trafo evaluators are consistent.

Engine E11 (lib/symex.py): the evaluator bodies (`eval_ref_values/gradients/hessians`, the non-parametric
`eval_values/eval_gradients/eval_hessians`, `Trafo::Standard::Evaluator::{prepare,map_point,calc_jac_mat,
calc_hess_ten}`, `ParametricEvalHelper::trans_*`, `TrafoEvalHelper::calc_hess_inv`, the DOF mappings and the
orientation-dependent `prepare` of Lagrange-3) are translated from the clang facts (instantiated for double,
every shape a family declares) into exact polynomials; helper functions (p0, d1p0, ..., the small dense loops
of Tiny::Vector/Matrix/Tensor3) are inlined from the fact base by declaration identity.  Identities are decided
on exact normal forms.  No FEAT3 code is executed.
"""
import itertools
import re
from fractions import Fraction
from math import comb

import featlib
from featlib import Check, rel
import symex
from symex import SymEx, AbsSymEx, PredEx, Poly, Loc, NotClosedForm, leaf_name, loc_name
from cfold import Folder, Num, NotConstant

F = featlib.repo_path
FILES = "|".join([F("kernel/space/"), F("kernel/trafo/"), F("kernel/shape.hpp"), F("kernel/eval_tags.hpp"),
                  F("kernel/util/tiny_algebra.hpp"), F("kernel/geometry/intern/face_index_mapping.hpp"),
                  F("kernel/geometry/intern/congruency_mapping.hpp"), "/verif/tu/c15_"])

# accessor contract (DESIGN A.2): IndexSet / VertexSet subscripts are pure element accessors, the mesh /
# trafo getters return sub-objects; get_num_entities(d) is the opaque entity count N[d]
ACCESSOR = re.compile(r"^FEAT::Geometry::(IndexSet|VertexSet)<.*>::operator(\(\)|\[\])$")
GETTER = re.compile(r"::(get_mesh|get_vertex_set|get_index_set|get_trafo|get_cell_index)$")


def accessor_model(sx, n, callee, this_loc, args, fn):
    if ACCESSOR.match(callee) and this_loc is not None:
        loc = this_loc
        for a in args:
            loc = loc.child(sx.index_elem(a))
        return loc
    if GETTER.search(callee) and this_loc is not None and not args:
        return this_loc.child(n.get("cfull", "").rsplit("::", 1)[-1])
    if callee.endswith("::get_num_entities") and len(args) == 1:
        return Poly.sym("N[%d]" % sx.num(args[0]).as_int())
    return None


# (family, shape) pairs whose formula lists were confirmed closed-form by reading the pinned tree.
# A listed pair that can no longer be extracted is analysis-incomplete (exit 2); an unlisted pair that
# cannot be extracted is reported as 'not covered'.
PARAMETRIC = {
    "Lagrange1": ["Simplex<2>", "Simplex<3>", "Hypercube<1>", "Hypercube<2>", "Hypercube<3>"],
    "Lagrange2": ["Simplex<2>", "Simplex<3>", "Hypercube<1>", "Hypercube<2>", "Hypercube<3>"],
    "Lagrange3": ["Simplex<2>", "Simplex<3>", "Hypercube<1>", "Hypercube<2>", "Hypercube<3>"],
    "Discontinuous-P1": ["Simplex<2>", "Simplex<3>"],
    "CroRavRanTur": ["Simplex<2>", "Simplex<3>"],
    "Bernstein2": ["Hypercube<1>", "Hypercube<2>", "Hypercube<3>"],
    "P2Bubble": ["Simplex<2>"],
    "CaiDouSanSheYe": ["Hypercube<2>"],
    # reference lists with symbolic per-cell coefficients (this->_coeff*): still polynomial in the point
    "Hermite3": ["Hypercube<1>", "Hypercube<2>", "Simplex<2>"],
    "BognerFoxSchmit": ["Hypercube<1>", "Hypercube<2>"],
}
# non-parametric evaluators: values/gradients(/Hessians) are polynomials in the image point with symbolic
# per-cell coefficient matrices (computed at run time in prepare(), not analysed); decided: grad == d value / d img_point
NONPARAMETRIC = {
    "Discontinuous-P0": ["Simplex<2>", "Simplex<3>", "Hypercube<1>", "Hypercube<2>", "Hypercube<3>"],
    "Discontinuous-P1": ["Hypercube<1>", "Hypercube<2>", "Hypercube<3>"],
    "CroRavRanTur": ["Hypercube<2>", "Hypercube<3>"],
    "Q1TBNP": ["Hypercube<2>", "Hypercube<3>"],
    "Argyris": ["Simplex<2>"],
}
LAGRANGE_DEGREE = {"Lagrange1": 1, "Lagrange2": 2, "Lagrange3": 3}
REF_BITS = {"ref_value": 0x8, "ref_grad": 0x10, "ref_hess": 0x20}   # re-read from the facts below (SpaceTags enumerators)


def shape_of(cls):
    m = re.search(r"FEAT::Shape::(Simplex|Hypercube)<(\d)>\s*>$", cls)
    if not m:
        return None
    return "%s<%s>" % (m.group(1), m.group(2))


def family_of(cls, what="Evaluator"):
    m = re.match(r"^FEAT::Space::(\w+)::%s<" % what, cls)
    if not m:
        return None
    fam = m.group(1)
    if fam == "Discontinuous":
        v = re.search(r"Variant::StdPolyP<(\d)>", cls)
        fam = "Discontinuous-P%s" % (v.group(1) if v else "?")
    return fam


def shape_dim(shape):
    return int(shape[-2])


def parse_slot(path):
    """('phi', slot, field, j, k) -> (slot, field, (j, k))"""
    if len(path) < 3 or path[0] != "phi":
        return None
    rest = list(path[3:])
    if not all(isinstance(e, int) for e in rest):
        return None
    return path[1], path[2], tuple(rest)


def slot_str(s):
    return str(s) if isinstance(s, int) else s[1:].replace("this.", "")


class RefCell:
    """reference cell vertices and face-vertex tables, folded from kernel/shape.hpp and
    kernel/geometry/intern/face_index_mapping.hpp (constant propagation, engine E9 folder)"""

    def __init__(self, facts):
        self.facts = facts
        self.verts = {}
        self.fim = {}

    def vertices(self, shape):
        if shape in self.verts:
            return self.verts[shape]
        dim = shape_dim(shape)
        nv = dim + 1 if shape.startswith("Simplex") else 2 ** dim
        fs = [f for f in self.facts.find(name="vertex") if f.cls == "FEAT::Shape::ReferenceCell<FEAT::Shape::%s>" % shape and f.tk != "pattern"]
        if not fs:
            raise NotClosedForm("ReferenceCell<%s>::vertex not in the fact base" % shape)
        out = []
        for v in range(nv):
            c = []
            for i in range(dim):
                fo = Folder([self.facts])
                try:
                    r = fo.num(fo.rvalue(fo.call_function(fs[0], [Num(Fraction(v)), Num(Fraction(i))])))
                except NotConstant as e:
                    raise NotClosedForm("ReferenceCell<%s>::vertex does not fold: %s" % (shape, e))
                c.append(Fraction(r.v))
            out.append(tuple(c))
        self.verts[shape] = out
        return out

    def face_verts(self, shape, cell_dim):
        """list over faces of dimension cell_dim: tuple of local vertex indices"""
        key = (shape, cell_dim)
        if key in self.fim:
            return self.fim[key]
        dim = shape_dim(shape)
        if cell_dim == 0:
            out = [(k,) for k in range(len(self.vertices(shape)))]
        elif cell_dim == dim:
            out = [tuple(range(len(self.vertices(shape))))]
        else:
            cls = "FEAT::Geometry::Intern::FaceIndexMapping<FEAT::Shape::%s, %d, 0>" % (shape, cell_dim)
            fs = [f for f in self.facts.find(name="map") if f.cls == cls]
            if not fs:
                raise NotClosedForm("%s::map not in the fact base" % cls)
            nfv = cell_dim + 1 if shape.startswith("Simplex") else 2 ** cell_dim
            out = []
            for c in range(64):
                row = []
                try:
                    for j in range(nfv):
                        fo = Folder([self.facts])
                        row.append(fo.num(fo.rvalue(fo.call_function(fs[0], [Num(Fraction(c)), Num(Fraction(j))]))).as_int())
                except NotConstant:
                    break
                out.append(tuple(row))
            if not out:
                raise NotClosedForm("%s::map does not fold" % cls)
        self.fim[key] = out
        return out


def lattice(shape, p, verts):
    """principal lattice of order p of the reference cell spanned by `verts`"""
    dim = shape_dim(shape)
    pts = []
    if shape.startswith("Simplex"):
        for comp in itertools.product(range(p + 1), repeat=dim + 1):
            if sum(comp) != p:
                continue
            pts.append(tuple(sum(Fraction(a, p) * verts[k][i] for k, a in enumerate(comp)) for i in range(dim)))
    else:
        lo = [min(v[i] for v in verts) for i in range(dim)]
        hi = [max(v[i] for v in verts) for i in range(dim)]
        for idx in itertools.product(range(p + 1), repeat=dim):
            pts.append(tuple(lo[i] + (hi[i] - lo[i]) * Fraction(idx[i], p) for i in range(dim)))
    return pts


def entity_nodes(simplex, d, p):
    """points of the Lagrange-p node functionals of one d-dimensional entity in the entity's own reference
    coordinates, in the order of the functionals.  Transcribed from
      kernel/space/lagrange2/node_functional.hpp (edge midpoint / cell centre),
      kernel/space/lagrange3/node_functional.hpp:181 `dom_point[k] = (2*((i >> k) & 1) - 1) / 3` (hypercubes: the
        i-th point is the one nearest to entity vertex i), :261/:266 (Simplex<1>: 1/3, 2/3), Simplex<2>: centroid."""
    if d == 0:
        return [()]
    if not simplex:
        n = p - 1
        pts = []
        for j in range(n ** d):
            pts.append(tuple(Fraction(-1) + Fraction(2 * (((j // (n ** k)) % n) + 1), p) for k in range(d)))
        return pts
    if d == 1:
        return [(Fraction(j + 1, p),) for j in range(p - 1)]
    if comb(p - 1, d) == 0:
        return []
    if comb(p - 1, d) == 1:
        return [tuple(Fraction(1, d + 1) for _ in range(d))]
    return None


def embed(simplex, ent_verts, t):
    """entity reference point t -> cell reference point (affine / multilinear in the entity's vertices)"""
    dim = len(ent_verts[0])
    d = len(t)
    if d == 0:
        return tuple(ent_verts[0])
    if simplex:
        return tuple(ent_verts[0][i] + sum(t[k] * (ent_verts[k + 1][i] - ent_verts[0][i]) for k in range(d)) for i in range(dim))
    out = [Fraction(0)] * dim
    for m, v in enumerate(ent_verts):
        w = Fraction(1)
        for k in range(d):
            w *= (1 + t[k]) / 2 if (m >> k) & 1 else (1 - t[k]) / 2
        for i in range(dim):
            out[i] += w * v[i]
    return tuple(out)


def run(tier):
    ck = Check("C15", tier)
    ck.rule("E0.instantiate", "every element family x shape it declares (and the six standard trafo evaluators, incl. facet trafos embedded in a higher world dimension) instantiates with all capabilities it states; a front-end error inside kernel/space or kernel/trafo means the evaluator cannot be used at all for that shape", 52)
    ck.rule("E0.ref-caps", "the capability set a parametric evaluator hands to ParametricEvaluator consists of reference capabilities (ref_value|ref_grad|ref_hess) only and contains ref_value; otherwise ParametricEvaluator::eval_caps (masked with the ref_* bits) is empty and every user that consults eval_caps (ExtVtkWriter static_asserts, EvaluatorBase dispatch) refuses the element", 29)
    ck.rule("E11.lists-complete", "each of the value / gradient / Hessian lists of an evaluator assigns every slot phi[0..n) (n = get_num_local_dofs()) and every component [j] / [j][k] with j,k < dim exactly over that range and nothing else; a missing entry is uninitialised data handed to the assembly for every cell", 98)
    ck.rule("E11.grad-is-derivative", "ref_grad[j] (resp. grad[j] of non-parametric evaluators, w.r.t. the image point) of every basis slot equals the partial derivative of the value formula of the same slot w.r.t. coordinate j, as polynomials; a wrong entry falsifies every gradient-based integrand (Laplace, convection) at every cubature point off the zero set of the difference", 883)
    ck.rule("E11.hess-is-second-derivative", "ref_hess[j][k] (resp. hess[j][k]) of every basis slot equals d^2 value / dx_j dx_k (both orders of every mixed pair, hence symmetric)", 1650)
    ck.rule("E11.kronecker", "Lagrange-p: the matrix phi_i(x_j) over the principal lattice of order p of FEAT's reference cell (vertices read from Shape::ReferenceCell) is a permutation matrix: each basis function is 1 at exactly one lattice point and 0 at all others, every lattice point is hit (point functionals are dual to the basis)", 15)
    ck.rule("E11.partition-of-unity", "Lagrange-p: the basis functions sum to the constant 1 (constants are reproduced)", 15)
    ck.rule("E2.dof-mapping", "DofMappingUniform / DofMappingSingleEntity: local DOF k is global index offset(c) + dofs_per_entity(c) * index_set<dim,c>(cell, i) + j with j < dofs_per_entity(c), the (c,i,j) enumerate every entity of every dimension exactly once in (c,i,j)-lexicographic order, offset(c) = sum_{c'<c} dofs(c') * num_entities(c'); any other index arithmetic makes two functionals share an index or leaves gaps on every mesh with more than one cell", 37)
    ck.rule("E13.node-order", "Lagrange-p, canonical orientation: the basis function stored in local slot s is the one dual to the node functional that the DOF mapping assigns to s, i.e. it is 1 at the point of entity (c,i), ordinal j (entity-local node order transcribed from the node_functional.hpp files, embedded through FaceIndexMapping / ReferenceCell); a consistent permutation of two formulas in all three lists passes every derivative test but interpolates onto the wrong functions", 15)
    ck.rule("E13.l3-orientation", "Lagrange-3: every orientation dependent slot index ek[i][j] / qk[i][j] used by the formula lists is defined by prepare() as offset(entity i) + SubIndexMapping<Shape,e,0>::map(i,j) built from (index_set<dim,0>[cell], index_set<dim,e>[cell], index_set<e,0>) in the constructor's parameter roles (shape_verts, shape_cells, cell_verts), for all entities and ordinals; with a missing/foreign orientation source the edge/face DOFs are flipped or not flipped independently of the mesh orientation and the interpolant is discontinuous across re-oriented edges", 4)
    ck.rule("E11.trafo-jacobian", "Trafo::Standard::Evaluator: calc_jac_mat(i,j) = d map_point_i / d dom_point_j for all i < world_dim, j < shape_dim (all entries assigned)", 44)
    ck.rule("E11.trafo-hessian", "Trafo::Standard::Evaluator: calc_hess_ten(i,j,k) = d^2 map_point_i / d dom_j d dom_k, all entries assigned", 100)
    ck.rule("E11.trafo-vertex-map", "Trafo::Standard::Evaluator: after prepare(cell), map_point(reference vertex k) is exactly the mesh vertex index_set<dim,0>(cell,k), coordinate by coordinate (coefficient definitions substituted; reference vertices from Shape::ReferenceCell)", 83)
    ck.rule("E11.chain-rule", "ParametricEvalHelper: value = ref_value; grad_j = sum_k ref_grad_k * jac_inv(k,j); hess_ab = sum_kl ref_hess_kl jac_inv(k,a) jac_inv(l,b) + sum_k ref_grad_k hess_inv(k,a,b), for every slot below max_local_dofs; TrafoEvalHelper::calc_hess_inv(k,a,b) = - sum_c jac_inv(k,c) sum_lm hess_ten(c,l,m) jac_inv(l,a) jac_inv(m,b) (operands and index order)", 43)

    ck.rule("E13.iso-chart-projection", "Trafo::Isoparam::Evaluator<degree>::prepare(cell) of the hypercube shapes, degrees 1-3, in the scenario 'every sub-entity has a chart': (a) the corners of the coefficient lattice hold the mesh vertices index_set<d,0>(cell,k) and map_point(reference vertex k) returns exactly that vertex; (b) every lattice point in the relative interior of the local sub-entity (e,i) - located through Shape's FaceIndexMapping<shape,e,0> vertex table and the corner positions, point = corner(v_0) + sum_m t_m (corner(v_2^m) - corner(v_0)) / degree, t_m = 1..degree-1 - ends as chart->project(.) with the chart taken from the chart vector of dimension e at the GLOBAL entity index_set<d,e>(cell,i) (the cell itself: at the cell index), all of its coordinates from one projection; (c) for edges the projected argument is the linear interpolation at t/degree between the two vertices of THAT edge in the edge's vertex order. A lattice point left unprojected (or projected onto a neighbour's chart) lies on the chord while the facet trafo / the neighbouring cell put it on the chart: affine functions are no longer reproduced and congruent cells get different volumes", 69)
    ck.rule("E11.volume-quadrature", "Trafo::Standard::EvalHelper<shape>::volume() (the cell volume = integral of the Jacobian volume over the reference cell): the value is sum_k w_k vol(J(p_k)) with the Jacobians taken at reference points p_k (calc_jac_mat at p_k, or the matrix assembled from the coefficients = J at the barycentre); the rule (p_k, w_k) integrates exactly every polynomial of the degree det J has on that shape - hypercube of dimension d: all monomials with every exponent <= d-1 over [-1,1]^d (d = 3: the full 2x2x2 Gauss rule), simplex: constants (weights sum to 1/d!); an incomplete point set (half of the Gauss points counted twice) is exact only for cells that are point symmetric", 6)
    ck.rule("E13.is-on-ref", "InverseMappingHelper<Shape>::is_on_ref(p, tol) (the accept test of InverseMapping::unmap_point): the accepted set, extracted as a conjunction of affine inequalities in p and tol, contains the closed reference cell of Shape::ReferenceCell for every tol >= 0 (every reference vertex satisfies every inequality; the set is convex) and only grows with tol (no inequality gets tighter when tol increases); otherwise points on a facet/vertex of a cell are dropped by unmap_point", 12)

    ck.rule("E13.bbox-candidates", "InverseMapping::find_candidate_cells (documented: never a false negative): the condition under which a cell is appended to the candidate list - extracted over one arbitrary iteration of the cell loop as a conjunction of inequalities in the point p and the corners lo = bbox[0], hi = bbox[1] of the cell's bounding box (path enumeration: reject-if-outside, accept-if-inside, flags, early exits alike) - accepts the CLOSED box: every inequality is satisfied, non-strictly, at all corners p_j in {lo_j, hi_j} for every lo <= hi (hence on the whole box, the inequalities are affine); a strict inequality drops the points on the faces of the bounding box, which for a box tolerance of 0 (or a point on the inflated face) are points of the cell itself", 6)
    ck.rule("E7.interpolation-output-zeroed", "Assembly::Interpolator::project entry points: the interpolation core accumulates (`vals[dof] += node_data[j]`, one contribution per entity dimension), therefore on EVERY path from the entry to the call that hands the output vector to the core (InterpolatorWrapper / InterpolatorCore::project, also through helpers of the Interpolator) the vector is replaced by a freshly zero-filled vector (Vector(n, 0) assigned / format()); a conditional re-allocation keeps the old coefficients of a vector of matching length and the second interpolation adds onto them; all sibling overloads alike", 2)
    ck.rule("E11.functional-normalisation", "non-parametric Rannacher-Turek / Q1TBNP evaluators, _build_coeff_matrix(): every node functional row of the nodal matrix is a NORMALISED quadrature sum  (sum_k w_k m(x_k)) / (sum_k w_k): the normaliser is the sum of exactly the weights (facet / cell Jacobian determinants at the Gauss points) that multiply the integrand terms, each once; otherwise the functional of the constant is not 1 and the basis obtained by inverting the nodal matrix is not dual to the element's integral-mean functionals on cells whose facets are not parallelograms", 24)
    ck.rule("E11.derivative-dof-scaling", "Hermite-3 / Bogner-Fox-Schmit: the reference gradient of every basis function at every reference vertex v is either 0 or row d of the trafo Jacobian matrix evaluated at v (coefficients as defined by prepare()): then and only then the real-coordinate gradient J^-T grad_ref equals e_d, i.e. the function is dual to the derivative functional d/dx_d at that vertex; a scaling by the determinant / volume measure loses the sign and mixes directions", 5)

    ck.rule("E11.nodal-duality", "Argyris (evaluator builds a nodal matrix and inverts it): column s of the nodal matrix filled by Evaluator::prepare() is the element's NODE FUNCTIONAL of local dof s (NodeFunctional<Space, dim> of the entity the DOF mapping assigns s to, ordinal j) applied to the monomial basis m_k of the evaluation lists: node_mat(k,s) = N_s(m_k) with N_s(f) = sum_alpha c_alpha d^alpha f(x_s) extracted from NodeFunctional::operator() and m_k from eval_values, and the coefficient matrix is set_inverse(node_mat). Decided exactly (rational arithmetic) on a counter-clockwise right triangle (0,0),(4,0),(0,3) AND its mirror image (clockwise, negative Jacobian determinant), for both orientations of every edge relative to the global edge (SubIndexMapping code); then N_s(phi_l) = (coeff * node_mat)(l,s) = delta_ls. A normal that follows the cell's handedness instead of the global edge tangent gives N_edge(phi_edge) = -1 on clockwise cells", 18)
    ck.rule("E1.param-config-closure", "ParametricEvaluator::operator()<space_cfg, trafo_cfg> for every configuration the evaluator's ConfigTraits produce (all capabilities, and value / grad / hess requested alone): every reference datum (ref_value, ref_grad, ref_hess) that the enabled transformation code reads from the evaluation data is written by an eval_ref_* call enabled under the same configuration, every trafo datum read is contained in trafo_cfg (with the trafo's own closure), and every requested output is written; otherwise uninitialised (NaN-initialised) reference data enter the result for exactly those assemblies that request that single capability", 101)

    facts = featlib.extract("tu/c15_spaces.cpp", files=FILES)
    ck.tu(facts)
    for e in facts.errors_outside_repo():
        ck.incomplete("E0.instantiate", "driver tu/c15_spaces.cpp no longer matches the API: %s:%d %s" % (e["file"], e["line"], e["msg"]))
    all_facts = [facts]
    if tier == "thorough":
        facts_f = featlib.extract("tu/c15_spaces.cpp", files=FILES, extra=("-DC15_DT=float",))
        ck.tu(facts_f)
        all_facts.append(facts_f)

    covered, not_covered = [], []
    for fx in all_facts:
        analyse(ck, fx, tier, covered, not_covered, primary=(fx is facts))
    check_iso_projection(ck, tier, RefCell(facts))
    check_invmap_and_interpolator(ck, tier)

    ck.note("covered (family/shape [lists]): " + "; ".join(covered))
    ck.note("not covered: " + ("; ".join(not_covered) if not_covered else "-"))
    ck.assume("IndexSet/VertexSet subscripts and the mesh/trafo getters are pure accessors (DESIGN A.2); get_num_entities(d) is an opaque count")
    ck.assume("entity-local order of the Lagrange node functionals is transcribed from kernel/space/lagrange{2,3}/node_functional.hpp (see entity_nodes); the functionals themselves are not re-derived")
    ck.assume("per-cell coefficient members of Hermite3/BFS/Argyris/CroRavRanTur/Q1TBNP/Discontinuous-P1(hypercube) computed at run time in prepare() are symbolic inputs: only the value/gradient/Hessian consistency of their formula lists is decided")
    expl = ("Symbolic translation (engine E11, exact polynomial normal forms) of every evaluator formula list of kernel/space/*/evaluator.hpp as instantiated for "
            "every declared shape, of the standard trafo evaluators of all six shapes (plus facet trafos in a higher world dimension), of the chain-rule helpers, the DOF mappings "
            "and the orientation handling of Lagrange-3; decided: lists complete, grad/hess are the derivatives of the value list (every slot, every component), "
            "Kronecker/partition of unity/node order on the principal lattice for Lagrange-1/2/3, Jacobian/Hessian/vertex interpolation of the trafo, chain-rule operand and index order, "
            "DOF index arithmetic, orientation slot definitions; E0 instantiability of all element x shape pairs (%d evaluator instances analysed). NOT decided: inter-element continuity on arbitrary meshes, "
            "node functionals as integrals (CroRavRanTur/Q1TBNP/Bernstein/Hermite/Argyris duality), run-time coefficient matrices, jac_det integrating to the volume, InverseMapping.") % (len(covered))
    return ck.finish(expl, extra={"covered": covered, "not_covered": not_covered})


class _Prefixed:
    """the float instantiation re-checks the same instances: same keys (known findings are matched by key),
    the detail says which instantiation it was"""

    def __init__(self, ck, prefix):
        self._ck, self._p = ck, prefix

    def ob(self, rule, key, ok, detail="", *a, **kw):
        return self._ck.ob(rule, key, ok, self._p + detail, *a, **kw)

    def incomplete(self, rule, what):
        return self._ck.incomplete(rule, self._p + what)

    def note(self, s):
        return self._ck.note(self._p + s)


def analyse(ck, facts, tier, covered, not_covered, primary=True):
    tag = ""
    if not primary:
        ck = _Prefixed(ck, "[instantiated for float] ")
    refcell = RefCell(facts)

    # ---- discover evaluator classes ----------------------------------------------------------------
    classes = {}
    for f in facts.functions:
        if f.tk == "pattern":
            continue
        fam = family_of(f.cls)
        if fam is None:
            continue
        sh = shape_of(f.cls)
        if sh is None:
            continue
        classes.setdefault((fam, sh), {}).setdefault(f.name, []).append(f)

    # ---- E0 ----------------------------------------------------------------------------------------
    errs = facts.errors_in_repo()
    for (fam, sh), meths in sorted(classes.items()):
        base = fam.split("-")[0]
        bad = []
        for e in errs:
            txt = e["msg"] + " " + " ".join(n["msg"] for n in e["notes"])
            if (("Space::%s::" % base) in txt and ("Shape::%s" % sh) in txt) or ("/kernel/space/%s" % base.lower()) in e["file"].replace("_", ""):
                bad.append(e)
        has_eval = any(k in meths for k in ("eval_ref_values", "eval_values"))
        ok = has_eval and not bad
        f0 = (meths.get("eval_ref_values") or meths.get("eval_values") or list(meths.values())[0])[0]
        if not has_eval and not bad:
            # the evaluator interface changed (renamed entry points): nothing to decide, not a defect by itself
            ck.incomplete("E0.instantiate", "%s%s/%s: neither eval_ref_values nor eval_values is instantiated by the driver (interface renamed?)" % (tag, fam, sh))
            continue
        ck.ob("E0.instantiate", tag + "%s/%s" % (fam, sh), ok,
              ("front-end error: %s:%d %s" % (rel(bad[0]["file"]), bad[0]["line"], bad[0]["msg"])) if bad else
              ("instantiated: " + ",".join(sorted(k for k in meths if k.startswith("eval")))) if has_eval else "no evaluation function instantiated",
              f0.file, None)
    trafo_eval = {}
    for f in facts.functions:
        m = re.match(r"^FEAT::Trafo::Standard::Evaluator<.*StandardEvalPolicy<FEAT::Shape::(Simplex|Hypercube)<(\d)>, \w+, (\d)>, FEAT::Shape::\w+<\d>>$", f.cls)
        if m and f.tk != "pattern":
            trafo_eval.setdefault(("%s<%s>" % (m.group(1), m.group(2)), int(m.group(3))), {}).setdefault(f.name, []).append(f)
    terrs = [e for e in errs if "/kernel/trafo/" in e["file"]]
    for (sh, wd), meths in sorted(trafo_eval.items()):
        if not terrs and "map_point" not in meths:
            ck.incomplete("E0.instantiate", "%sTrafo::Standard/%s/world%d: map_point is not instantiated by the driver (interface renamed?)" % (tag, sh, wd))
            continue
        ck.ob("E0.instantiate", tag + "Trafo::Standard/%s/world%d" % (sh, wd), not terrs,
              "instantiated: " + ",".join(sorted(meths)) if not terrs else "%s:%d %s" % (rel(terrs[0]["file"]), terrs[0]["line"], terrs[0]["msg"]), F("kernel/trafo/standard/evaluator.hpp"), None)
    for e in errs:
        ck.ob("E0.instantiate", tag + "error/%s/%s" % (rel(e["file"]), re.sub(r"\d+", "N", e["msg"])[:80]), False, "%s:%d %s" % (rel(e["file"]), e["line"], e["msg"]), e["file"], e["line"])

    # ---- E0.ref-caps ---------------------------------------------------------------------------------
    tags = {}
    for f in facts.functions:
        for n in f.nodes():
            if n.get("k") == "Ref" and (n.get("qn") or "").startswith("FEAT::SpaceTags::") and "v" in n:
                tags[n["qn"].rsplit("::", 1)[-1]] = int(n["v"])
        if len(tags) >= 7:
            break
    refmask = 0
    for nm in ("ref_value", "ref_grad", "ref_hess"):
        if nm not in tags:
            ck.incomplete("E0.ref-caps", "SpaceTags::%s not found in the fact base" % nm)
        refmask |= tags.get(nm, REF_BITS[nm])
    seen = set()
    for f in facts.functions:
        m = re.match(r"^FEAT::Space::ParametricEvaluator<(FEAT::Space::\w+::Evaluator<.*?FEAT::Shape::\w+<\d>>), FEAT::Trafo::.*, (?:\(FEAT::SpaceTags\))?(\d+)>$", f.cls)
        if not m or f.cls in seen:
            continue
        seen.add(f.cls)
        fam, sh = family_of(m.group(1)), shape_of(m.group(1))
        caps = int(m.group(2))
        ok = (caps & ~refmask) == 0 and (caps & tags.get("ref_value", 8)) != 0
        names = [k for k, v in sorted(tags.items(), key=lambda kv: kv[1]) if v and caps & v]
        ck.ob("E0.ref-caps", tag + "%s/%s" % (fam, sh), ok, "ParametricEvaluator<..., %s>: eval_caps = %s" % ("|".join(names) or "none", "|".join(k for k in names if k.startswith("ref_")) or "none (no capability is reported)"), f.file, f.line)

    # ---- formula lists ----------------------------------------------------------------------------------
    def num_dofs(meths):
        fs = meths.get("get_num_local_dofs")
        if not fs:
            return None
        sx = SymEx([facts])
        try:
            return sx.rv(sx.run(fs[0])).as_int()
        except NotClosedForm:
            return None

    def run_list(f):
        sx = SymEx([facts], opaque=accessor_model)
        sx.run(f)
        out = {}
        for p, v in sx.outputs("P0").items():
            ps = parse_slot(p)
            if ps is None:
                raise NotClosedForm("output location P0%s is not a basis slot" % symex.path_str(p))
            if not isinstance(v, Poly):
                raise NotClosedForm("non-numeric value in %s" % symex.path_str(p))
            out[ps] = v
        return out

    def check_complete(inst, f, lst, field, n, dim, order):
        problems = []
        slots = sorted({s for (s, fl, idx) in lst if fl == field}, key=str)
        ints = sorted(s for s in slots if isinstance(s, int))
        syms = [s for s in slots if not isinstance(s, int)]
        if n is not None:
            if len(slots) != n:
                problems.append("%d distinct slots written, get_num_local_dofs() = %d" % (len(slots), n))
            if any(not (0 <= s < n) for s in ints):
                problems.append("constant slot outside [0,%d): %s" % (n, [s for s in ints if not 0 <= s < n]))
            if not syms and ints != list(range(len(ints))):
                problems.append("constant slots are not 0..%d" % (len(ints) - 1))
        else:
            ck.incomplete("E11.lists-complete", "%s%s/%s: get_num_local_dofs() does not fold to a constant" % (tag, inst, field))
        want = list(itertools.product(range(dim), repeat=order))
        for s in slots:
            have = sorted(idx for (s2, fl, idx) in lst if s2 == s and fl == field)
            if have != want:
                miss = [i for i in want if i not in have]
                extra = [i for i in have if i not in want]
                problems.append("phi[%s].%s: missing components %s, unexpected %s" % (slot_str(s), field, miss, extra))
        other = sorted({fl for (s, fl, idx) in lst if fl != field})
        if other:
            problems.append("list also writes %s" % other)
        ck.ob("E11.lists-complete", tag + "%s/%s" % (inst, field), not problems, "; ".join(problems[:4]) if problems else "%d slots x %d components" % (len(slots), len(want)), f.file, f.line)
        return not problems

    values = {}   # (fam, sh) -> {slot: poly} of the parametric value lists
    np_values = {}   # the same for the non-parametric evaluators (values as polynomials in the image point)
    symslots = {}
    for (fam, sh), meths in sorted(classes.items()):
        inst = "%s/%s" % (fam, sh)
        dim = shape_dim(sh)
        if "eval_ref_values" in meths:
            names = ("eval_ref_values", "eval_ref_gradients", "eval_ref_hessians")
            fields = ("ref_value", "ref_grad", "ref_hess")
            expected = sh in PARAMETRIC.get(fam, [])
            X = [leaf_name("P1", i) for i in range(dim)]
            kind = "parametric"
        elif "eval_values" in meths:
            names = ("eval_values", "eval_gradients", "eval_hessians")
            fields = ("value", "grad", "hess")
            expected = sh in NONPARAMETRIC.get(fam, [])
            X = [leaf_name("P1", "img_point", i) for i in range(dim)]
            kind = "non-parametric"
        else:
            continue
        n = num_dofs(meths)
        lists = {}
        failed = None
        for nm in names:
            if nm not in meths:
                continue
            try:
                lists[nm] = run_list(meths[nm][0])
            except NotClosedForm as e:
                failed = "%s: %s" % (nm, e)
                break
        if failed:
            if expected:
                ck.incomplete("E11.grad-is-derivative", "%s%s: formula list no longer closed form: %s" % (tag, inst, failed))
            else:
                not_covered.append("%s%s (%s)" % (tag, inst, failed))
            continue
        if not expected:
            ck.note("%s%s: extracted although not in the confirmed table (treated as covered)" % (tag, inst))
        if primary:
            covered.append("%s [%s: %s]" % (inst, kind, ",".join(k.split("_")[-1] for k in lists)))
        vals = lists[names[0]]
        fv = meths[names[0]][0]
        check_complete(inst, fv, vals, fields[0], n, dim, 0)
        value_of = {s: v for (s, fl, idx), v in vals.items() if fl == fields[0]}
        if kind != "parametric":
            np_values[(fam, sh)] = (value_of, fv, X)
        if kind == "parametric":
            values[(fam, sh)] = (value_of, fv, X)
            symslots[(fam, sh)] = sorted({s for s in value_of if not isinstance(s, int)})
        for order, (nm, field, rule) in enumerate(zip(names[1:], fields[1:], ("E11.grad-is-derivative", "E11.hess-is-second-derivative")), start=1):
            if nm not in lists:
                continue
            fg = meths[nm][0]
            gr = lists[nm]
            check_complete(inst, fg, gr, field, n, dim, order)
            for (s, fl, idx), g in sorted(gr.items(), key=str):
                if fl != field or len(idx) != order or max(idx) >= dim:
                    continue
                key = tag + "%s/phi[%s].%s%s" % (inst, slot_str(s), field, "".join("[%d]" % i for i in idx))
                if s not in value_of:
                    ck.ob(rule, key, False, "%s written for slot %s which has no value formula" % (field, slot_str(s)), fg.file, fg.line)
                    continue
                want = value_of[s]
                for i in idx:
                    want = want.diff(X[i])
                ok = (g - want).is_zero()
                dn = "d/dx%d" % idx[0] if order == 1 else "d2/dx%d dx%d" % idx
                ck.ob(rule, key, ok, "%s%s = %s but %s of the value formula (%s) is %s" % (field, "".join("[%d]" % i for i in idx), g, dn, value_of[s], want) if not ok else "= %s (%s)" % (dn, value_of[s]), fg.file, fg.line,
                      sample={"value": str(value_of[s]), field: str(g)})

    # ---- DOF mappings --------------------------------------------------------------------------------------
    layouts = {}
    dm_classes = {}
    for f in facts.functions:
        m = re.match(r"^FEAT::Space::(DofMappingUniform|DofMappingSingleEntity|DofMappingIdentity)<(FEAT::Space::\w+::Element<.*?>>>(?:, FEAT::Space::Discontinuous::Variant::\w+<\d>>)?), ", f.cls)
        if m and f.tk != "pattern":
            dm_classes.setdefault(f.cls, {"kind": m.group(1), "space": m.group(2), "m": {}})["m"].setdefault(f.name, []).append(f)
    for cls, info in sorted(dm_classes.items()):
        sp = info["space"]
        mm = re.match(r"^FEAT::Space::(\w+)::Element<.*FEAT::Shape::(\w+<\d>), \d", sp)
        if not mm:
            continue
        fam = mm.group(1)
        if fam == "Discontinuous":
            v = re.search(r"Variant::StdPolyP<(\d)>", cls)
            fam = "Discontinuous-P%s" % (v.group(1) if v else "?")
        sh = mm.group(2)
        dim = shape_dim(sh)
        inst = "%s/%s" % (fam, sh)
        meths = info["m"]
        try:
            sx = SymEx([facts], opaque=accessor_model)
            idx = {}
            if info["kind"] == "DofMappingUniform":
                if "prepare" not in meths:
                    raise NotClosedForm("prepare not instantiated")
                fp = meths["prepare"][0]
                sx.run(fp, args=[Loc("cell")])
                for p, v in sx.outputs("this").items():
                    if len(p) == 2 and isinstance(p[1], int) and p[0] != "_cell_index":
                        idx[p[1]] = v
            else:
                if info["kind"] == "DofMappingSingleEntity" and "get_index" not in meths:
                    continue   # the codim-0 specialisation only forwards to DofMappingIdentity (analysed as such)
                ctor = [g for g in meths.get(info["kind"], []) if g.d.get("ctor")]
                base_prep = [g for g in facts.find(name="prepare") if g.cls == "FEAT::Space::DofMappingBase<" + sp + ">"]
                if not ctor or "get_index" not in meths or "get_num_local_dofs" not in meths or not base_prep:
                    raise NotClosedForm("constructor/get_index/get_num_local_dofs/DofMappingBase::prepare not instantiated")
                fp = meths["get_index"][0]
                sx.run(ctor[0], args=[Loc("space")])
                sx.run(base_prep[0], args=[Loc("cell")])
                nloc = sx.rv(sx.run(meths["get_num_local_dofs"][0])).as_int()
                for k in range(nloc):
                    idx[k] = sx.num(sx.run(fp, args=[Poly.const(k)]))
            layout, problems, unknown = decode_layout(idx, dim)
            if unknown:
                raise NotClosedForm("index arithmetic not recognised: " + "; ".join(unknown[:2]))
        except NotClosedForm as e:
            ck.incomplete("E2.dof-mapping", "%s%s: %s" % (tag, inst, e))
            continue
        if layout is not None:
            # entity counts per dimension must be those of the shape
            try:
                for c in sorted({c for c, i, j in layout}):
                    cnt = len(refcell.face_verts(sh, c))
                    have = sorted({i for c2, i, j in layout if c2 == c})
                    if have != list(range(cnt)):
                        problems.append("dimension %d: entities %s, the shape has %d" % (c, have, cnt))
            except NotClosedForm as e:
                ck.incomplete("E2.dof-mapping", "%s%s: %s" % (tag, inst, e))
                continue
        ck.ob("E2.dof-mapping", tag + inst, not problems, "; ".join(problems[:3]) if problems else "%d local dofs: %s" % (len(layout), " ".join("dim%d:%dx%d" % (c, len({i for c2, i, j in layout if c2 == c}), len({j for c2, i, j in layout if c2 == c})) for c in sorted({c for c, i, j in layout}))), fp.file, fp.line,
              sample={"dof_idx[last]": str(idx[max(idx)]) if idx else ""})
        if not problems:
            layouts[(fam, sh)] = layout

    # ---- Lagrange: orientation slots, Kronecker, partition of unity, node order -----------------------------
    for (fam, sh), (value_of, fv, X) in sorted(values.items()):
        if fam not in LAGRANGE_DEGREE:
            continue
        inst = "%s/%s" % (fam, sh)
        dim = shape_dim(sh)
        p = LAGRANGE_DEGREE[fam]
        meths = classes[(fam, sh)]
        try:
            verts = refcell.vertices(sh)
        except NotClosedForm as e:
            ck.incomplete("E11.kronecker", "%s%s: %s" % (tag, inst, e))
            continue
        pts = lattice(sh, p, verts)
        slots = sorted(value_of, key=str)
        problems = []
        node_of = {}
        hit = {}
        unknown = [slot_str(s) for s in slots if not value_of[s].symbols() <= set(X)]
        if unknown:
            ck.incomplete("E11.kronecker", "%s%s: basis functions %s depend on more than the reference point (per-cell coefficients); lattice duality not decidable" % (tag, inst, unknown[:3]))
            continue
        for s in slots:
            ones, others = [], []
            for q in pts:
                v = value_of[s].subs(dict(zip(X, q))).const_value()
                if v is None:
                    problems.append("phi[%s] is not a polynomial in the point alone" % slot_str(s))
                    break
                if v == 1:
                    ones.append(q)
                elif v != 0:
                    others.append((q, v))
            if len(ones) != 1 or others:
                problems.append("phi[%s]: value 1 at %d lattice points, other non-zero values at %s" % (slot_str(s), len(ones), [(tuple(map(str, q)), str(v)) for q, v in others[:2]]))
            else:
                hit.setdefault(ones[0], []).append(s)
                node_of[s] = ones[0]
        if len(slots) != len(pts):
            problems.append("%d basis functions for %d lattice points" % (len(slots), len(pts)))
        for q, ss in hit.items():
            if len(ss) > 1:
                problems.append("lattice point %s is the node of several slots %s" % (tuple(map(str, q)), [slot_str(s) for s in ss]))
        ck.ob("E11.kronecker", tag + inst, not problems, "; ".join(problems[:3]) if problems else "%d x %d permutation matrix on the order-%d lattice" % (len(slots), len(pts), p), fv.file, fv.line,
              sample={"lattice_points": len(pts), "first": [str(c) for c in pts[0]]})
        tot = Poly.const(0)
        for s in slots:
            tot = tot + value_of[s]
        ck.ob("E11.partition-of-unity", tag + inst, (tot - 1).is_zero(), "sum of basis functions = %s" % tot, fv.file, fv.line)

        # orientation dependent slots: definition in prepare()
        layout = layouts.get((fam, sh))
        slot_const = {}
        syms = symslots.get((fam, sh), [])
        if syms:
            if layout is None:
                ck.incomplete("E13.l3-orientation", "%s%s: DOF layout not established" % (tag, inst))
                continue
            okp = check_orientation(ck, facts, tag, inst, sh, dim, meths, syms, layout, slot_const)
            if not okp:
                continue
        # node order
        if layout is None:
            ck.incomplete("E13.node-order", "%s%s: DOF layout not established" % (tag, inst))
            continue
        problems = []
        simplex = sh.startswith("Simplex")
        try:
            for s in slots:
                k = s if isinstance(s, int) else slot_const.get(s)
                if k is None or not (0 <= k < len(layout)):
                    problems.append("slot %s has no DOF" % slot_str(s))
                    continue
                c, i, j = layout[k]
                nodes = entity_nodes(simplex, c, p)
                if nodes is None or j >= len(nodes):
                    raise NotClosedForm("no node-functional table for entity dimension %d ordinal %d of Lagrange-%d" % (c, j, p))
                ev = [verts[v] for v in refcell.face_verts(sh, c)[i]]
                want = embed(simplex, ev, nodes[j])
                if s in node_of and node_of[s] != want:
                    problems.append("slot %s (= dof %d: entity dim %d #%d ordinal %d) holds the function with node %s, the functional's point is %s" % (
                        slot_str(s), k, c, i, j, tuple(map(str, node_of[s])), tuple(map(str, want))))
        except NotClosedForm as e:
            ck.incomplete("E13.node-order", "%s%s: %s" % (tag, inst, e))
            continue
        if len(node_of) == len(slots):
            ck.ob("E13.node-order", tag + inst, not problems, "; ".join(problems[:3]) if problems else "all %d slots hold the function dual to their functional" % len(slots), fv.file, fv.line)

    # ---- trafo ---------------------------------------------------------------------------------------------
    for (sh, wd), meths in sorted(trafo_eval.items()):
        check_trafo(ck, facts, refcell, tag, sh, wd, meths)

    # ---- chain rule -----------------------------------------------------------------------------------------
    check_chain_rule(ck, facts, tag)
    check_volume_quadrature(ck, facts, tag)

    # ---- reference-cell predicate of the inverse mapping ---------------------------------------------------------
    check_is_on_ref(ck, facts, refcell, tag)

    # ---- producer / consumer closure of the evaluation configurations ------------------------------------------------
    check_config_closure(ck, facts, tag)

    # ---- run-time coefficient set-up: normalised functionals, derivative dof scaling ---------------------------------
    check_nodal_normalisation(ck, facts, classes, tag)
    check_derivative_scaling(ck, facts, refcell, classes, values, tag)
    if primary:
        check_nodal_duality(ck, facts, refcell, classes, np_values, layouts, tag)


def decode_layout(idx, dim):
    """idx: {k: poly} of global indices of local dof k.  -> ([(c,i,j)] per k, problems)"""
    problems = []
    unknown = []    # shapes the decoder does not understand: analysis-incomplete, never a verdict
    if not idx or sorted(idx) != list(range(len(idx))):
        return None, [], ["local dof indices written: %s (expected a dense array 0..n-1)" % sorted(idx)[:8]]
    layout = []
    dpc = {}
    offs = {}
    for k in range(len(idx)):
        v = idx[k]
        c = i = None
        coef = None
        off = Poly.const(0)
        jconst = Fraction(0)
        for mon, cf in v.t.items():
            if not mon:
                jconst = cf
                continue
            if len(mon) == 1 and mon[0][1] == 1:
                nm = mon[0][0]
                m = re.search(r"get_index_set<(\d+), (\d+)>\[cell\]\[(\d+)\]$", nm)
                if m and int(m.group(1)) == dim:
                    if c is not None:
                        unknown.append("dof %d depends on two entities: %s" % (k, v))
                    c, i, coef = int(m.group(2)), int(m.group(3)), cf
                    continue
                if nm == "cell":
                    if c is not None:
                        unknown.append("dof %d depends on two entities: %s" % (k, v))
                    c, i, coef = dim, 0, cf
                    continue
                if re.match(r"^N\[\d+\]$", nm):
                    off = off + Poly({mon: cf})
                    continue
            unknown.append("dof %d: unrecognised term in %s" % (k, v))
        if c is None:
            unknown.append("dof %d = %s does not depend on a recognised entity index" % (k, v))
            return None, problems, unknown
        if coef.denominator != 1 or coef <= 0 or jconst.denominator != 1 or not (0 <= jconst < coef):
            problems.append("dof %d = %s: ordinal %s not below the entity stride %s" % (k, v, jconst, coef))
        if dpc.setdefault(c, coef) != coef:
            problems.append("dof %d: entity stride %s differs from %s used for dimension %d" % (k, coef, dpc[c], c))
        if offs.setdefault(c, off) != off:
            problems.append("dof %d: offset %s differs from %s used for dimension %d" % (k, off, offs[c], c))
        layout.append((c, i, int(jconst)))
    if len(set(layout)) != len(layout):
        problems.append("two local dofs share (dimension, entity, ordinal)")
    if layout != sorted(layout):
        problems.append("local dofs are not ordered by (dimension, entity, ordinal)")
    # all ordinals present per entity, offsets are the block sums
    run_off = Poly.const(0)
    for c in sorted(dpc):
        if offs[c] != run_off:
            problems.append("offset of dimension %d is %s, the dofs of the lower dimensions occupy %s" % (c, offs[c], run_off))
        run_off = run_off + Poly.sym("N[%d]" % c) * dpc[c]
        for i in sorted({i2 for c2, i2, j in layout if c2 == c}):
            js = sorted(j for c2, i2, j in layout if c2 == c and i2 == i)
            if js != list(range(int(dpc[c]))):
                problems.append("entity (dim %d, #%d) has ordinals %s, stride %s" % (c, i, js, dpc[c]))
    return layout, problems, unknown


def check_orientation(ck, facts, tag, inst, sh, dim, meths, syms, layout, slot_const):
    """prepare() of an evaluator with orientation-dependent slots; fills slot_const with the slot numbers under
    the canonical orientation (map(i,j) = j).  Only definite contradictions are violations; every shape the
    matcher does not recognise is analysis-incomplete."""
    fps = meths.get("prepare")
    if not fps:
        ck.incomplete("E13.l3-orientation", "%s%s: the formula lists use %d orientation dependent slots but no prepare() of the evaluator is instantiated (slots defined elsewhere?)" % (tag, inst, len(syms)))
        return False
    fp = fps[0]
    sims = {}

    def model(sx, n, callee, this_loc, args, fn):
        base = symex.strip_targs(callee)
        if n["k"] in ("Construct", "TempObj") and base == "FEAT::Geometry::Intern::SubIndexMapping::SubIndexMapping":
            sims[loc_name(this_loc)] = (n, [loc_name(a) if isinstance(a, Loc) else None for a in args])
            return this_loc
        if base == "FEAT::Geometry::Intern::SubIndexMapping::map" and this_loc is not None and len(args) == 2:
            return Poly.sym("map(%s;%d,%d)" % (loc_name(this_loc), sx.num(args[0]).as_int(), sx.num(args[1]).as_int()))
        return accessor_model(sx, n, callee, this_loc, args, fn)

    sx = SymEx([facts], opaque=model)
    sim_dim = {}
    problems = []
    unknown = []
    try:
        sx.run(fp, args=[Loc("trafo_eval")])
        defs = {"#" + loc_name(Loc("this", p)): v for p, v in sx.outputs("this").items()}
    except NotClosedForm as e:
        # e.g. a branch on the orientation value: not a closed form, but decidable by the case analysis below
        unknown.append("prepare() is not a closed form in the orientation mapping (%s)" % e)
        defs = {}
    # the orientation sources: decided on the VALUES handed to the constructor (resolved accessor paths), so that
    # const locals / reference aliases for the index sets do not matter
    for nm, (n, argnames) in sims.items():
        m = re.match(r"^FEAT::Geometry::Intern::SubIndexMapping<FEAT::Shape::(\w+<\d>), (\d), 0>$", n.get("ccls", ""))
        if not m:
            unknown.append("orientation object of type %s" % n.get("ccls"))
            continue
        if m.group(1) != sh:
            problems.append("orientation mapping is a %s, the cell shape is %s" % (n.get("ccls"), sh))
            continue
        e = int(m.group(2))
        sim_dim[nm] = e
        want = {"shape_verts": (dim, 0, True), "shape_cells": (dim, e, True), "cell_verts": (e, 0, False)}
        pn = n.get("pn", [])
        if sorted(pn) != sorted(want):
            unknown.append("SubIndexMapping constructor parameters %s" % pn)
            continue
        for role, an in zip(pn, argnames):
            mm = re.search(r"get_index_set<(\d+), (\d+)>(\[(.*)\])?$", an or "")
            if not mm:
                unknown.append("%s = %s is not an index set of the mesh" % (role, an))
                continue
            got = (int(mm.group(1)), int(mm.group(2)), mm.group(3) is not None)
            if got[2] and "cell_index" not in (mm.group(4) or ""):
                unknown.append("%s = %s is subscripted by something else than the current cell index" % (role, an))
                continue
            if got != want[role]:
                problems.append("%s is index_set<%d,%d>%s, expected index_set<%d,%d>%s" % (role, got[0], got[1], "[cell]" if got[2] else "", want[role][0], want[role][1], "[cell]" if want[role][2] else ""))
    first_of = {}
    for k, (c, i, j) in enumerate(layout):
        first_of.setdefault((c, i), k)
    nper = {}
    for c, i, j in layout:
        nper[c] = max(nper.get(c, 0), j + 1)
    seen = {}
    for s in syms:
        if s not in defs:
            unknown.append("slot index %s is used by the formula lists but not assigned in prepare()" % slot_str(s))
            continue
        v = defs[s]
        if v.is_const():
            problems.append("%s = %s does not depend on the orientation of the entity" % (slot_str(s), v))
            continue
        msym = [mon for mon in v.t if mon]
        m = re.match(r"^map\((.*);(\d+),(\d+)\)$", msym[0][0][0]) if len(msym) == 1 and len(msym[0]) == 1 and msym[0][0][1] == 1 and v.t[msym[0]] == 1 else None
        if not m or m.group(1) not in sim_dim:
            unknown.append("%s = %s is not of the form offset + SubIndexMapping::map(i,j)" % (slot_str(s), v))
            continue
        e, i, j = sim_dim[m.group(1)], int(m.group(2)), int(m.group(3))
        off = v.t.get((), Fraction(0))
        if (e, i) not in first_of or off != first_of[(e, i)] or j >= nper.get(e, 0):
            problems.append("%s = %s: the dofs of entity (dim %d, #%d) start at local index %s and have %d ordinals" % (slot_str(s), v, e, i, first_of.get((e, i)), nper.get(e, 0)))
            continue
        if (e, i, j) in seen:
            problems.append("%s and %s are both entity (dim %d, #%d) ordinal %d" % (slot_str(s), slot_str(seen[(e, i, j)]), e, i, j))
        seen[(e, i, j)] = s
        slot_const[s] = int(off) + j
    if not unknown:
        for e in set(sim_dim.values()):
            want_n = sum(1 for c, i, j in layout if c == e)
            have_n = sum(1 for (e2, i, j) in seen if e2 == e)
            if want_n != have_n and not problems:
                problems.append("%d of %d dofs of the dimension-%d entities are addressed through the orientation mapping" % (have_n, want_n, e))
    if unknown and not problems:
        # the symbolic form was not recognised (e.g. the mapping value is used as a subscript): decide by a finite case
        # analysis instead -- evaluate prepare() concretely for every orientation code of the entities (the codes and the
        # vertex permutations map(code, j) are the constant tables of Geometry::Intern::CongruencyMapping<entity,0>)
        cprob, cunk = orientation_by_cases(facts, fp, sh, sims, sim_dim, syms, first_of, nper, slot_const)
        if cprob:
            problems = cprob
        elif cunk:
            ck.incomplete("E13.l3-orientation", "%s%s: %s" % (tag, inst, "; ".join((unknown + cunk)[:3])))
            return False
        else:
            unknown = []
    ck.ob("E13.l3-orientation", tag + inst, not problems, "; ".join(problems[:3]) if problems else "%d slots = offset(entity) + SubIndexMapping<%s,e,0>::map(i,j), e in %s" % (len(syms), sh, sorted(set(sim_dim.values()))), fp.file, fp.line,
          sample={"slots": len(syms), "example": "%s = %s" % (slot_str(syms[0]), defs.get(syms[0]))})
    return not problems


def congruency_table(facts, entity_shape):
    """[code] -> tuple(map(code, j) for j) from Geometry::Intern::CongruencyMapping<entity,0>::map (folded constants);
    only rows that are permutations are orientation codes"""
    cls = "FEAT::Geometry::Intern::CongruencyMapping<FEAT::Shape::%s, 0>" % entity_shape
    fs = [f for f in facts.find(name="map") if f.cls == cls]
    if not fs:
        raise NotClosedForm("%s::map not in the fact base" % cls)
    d = shape_dim(entity_shape)
    nv = d + 1 if entity_shape.startswith("Simplex") else 2 ** d
    out = {}
    for code in range(64):
        row = []
        try:
            for j in range(nv):
                fo = Folder([facts])
                row.append(fo.num(fo.rvalue(fo.call_function(fs[0], [Num(Fraction(code)), Num(Fraction(j))]))).as_int())
        except NotConstant:
            break
        if sorted(row) == list(range(nv)):
            out[code] = tuple(row)
    if not out:
        raise NotClosedForm("%s::map does not fold to permutation tables" % cls)
    return out


def orientation_by_cases(facts, fp, sh, sims, sim_dim, syms, first_of, nper, slot_const):
    """-> (problems, unknown).  prepare() evaluated concretely for every orientation code (all entities of one
    dimension carry the same code in one run; the entries of different entities are independent)."""
    problems, unknown = [], []
    kind = "Simplex" if sh.startswith("Simplex") else "Hypercube"
    try:
        tables = {nm: congruency_table(facts, "%s<%d>" % (kind, e)) for nm, e in sim_dim.items()}
    except NotClosedForm as e:
        return [], [str(e)]
    if not tables:
        return [], ["no orientation mapping recognised"]
    ncodes = max(len(t) for t in tables.values())
    want_slots = {}
    for s in syms:
        m = re.match(r"^#this\.(\w+)\[(\d+)\]\[(\d+)\]$", s)
        if not m:
            return [], ["slot key %s is not array[entity][ordinal]" % slot_str(s)]
        want_slots[s] = (m.group(1), int(m.group(2)), int(m.group(3)))
    arr_dim = {}
    written = {s: [] for s in want_slots}     # orientation codes for which prepare() assigns the slot
    all_codes = []
    for code_idx in range(ncodes):
        codes = {nm: sorted(t)[min(code_idx, len(t) - 1)] for nm, t in tables.items()}

        def model(sx, n, callee, this_loc, args, fn):
            base = symex.strip_targs(callee)
            if n["k"] in ("Construct", "TempObj") and base == "FEAT::Geometry::Intern::SubIndexMapping::SubIndexMapping":
                return this_loc
            if base == "FEAT::Geometry::Intern::SubIndexMapping::map" and this_loc is not None and len(args) == 2 and loc_name(this_loc) in tables:
                nm = loc_name(this_loc)
                return Poly.const(tables[nm][codes[nm]][sx.num(args[1]).as_int()])
            return accessor_model(sx, n, callee, this_loc, args, fn)
        sx = SymEx([facts], opaque=model)
        try:
            sx.run(fp, args=[Loc("trafo_eval")])
        except NotClosedForm as e:
            return [], ["prepare() with orientation codes %s: %s" % (codes, e)]
        table = {"#" + loc_name(Loc("this", p)): v for p, v in sx.outputs("this").items()}
        all_codes.append(code_idx)
        for s, (arr, i, j) in sorted(want_slots.items()):
            v = table.get(s)
            if v is None:
                continue      # judged after all codes: written for some codes only = state survives re-preparation
            written[s].append(code_idx)
            if v.const_value() is None:
                unknown.append("orientation code %s: slot %s is %s" % (codes, slot_str(s), v))
                continue
            # which mapping governs this array: the one whose table size fits the ordinals of the array
            e = arr_dim.get(arr)
            if e is None:
                nord = max(jj for (a2, ii, jj) in want_slots.values() if a2 == arr) + 1
                cands = [nm for nm, t in tables.items() if len(next(iter(t.values()))) == nord and nper.get(sim_dim[nm], 0) == nord]
                if len(cands) != 1:
                    return [], ["orientation mapping of the slot array %s not identified" % arr]
                e = arr_dim[arr] = cands[0]
            dim_e = sim_dim[e]
            if (dim_e, i) not in first_of:
                problems.append("slot %s addresses entity (dim %d, #%d) which has no dofs" % (slot_str(s), dim_e, i))
                continue
            want = first_of[(dim_e, i)] + tables[e][codes[e]][j]
            if int(v.const_value()) != want:
                problems.append("orientation code %d of entity (dim %d, #%d): %s = %s, required offset + map(code,%d) = %d (vertex permutation %s)" % (
                    codes[e], dim_e, i, slot_str(s), v, j, want, tables[e][codes[e]]))
            if code_idx == 0 and tables[e][codes[e]] == tuple(range(len(tables[e][codes[e]]))):
                slot_const[s] = int(v.const_value())
        if len(problems) > 6:
            break
    if len(all_codes) == ncodes:
        for s in sorted(want_slots):
            w = written[s]
            if not w:
                unknown.append("slot %s is never assigned by prepare() for any orientation code (defined elsewhere?)" % slot_str(s))
            elif len(w) < ncodes:
                problems.append("prepare() assigns %s only for the orientation codes %s; for the codes %s the slot keeps whatever the previously prepared cell (or the member initialiser) left: the slot table is not a function of the current cell's orientation" % (
                    slot_str(s), w, [c for c in all_codes if c not in w]))
    return problems, unknown


INVMAP_FILES = "|".join([F("kernel/trafo/inverse_mapping.hpp"), F("kernel/assembly/interpolator.hpp"), F("kernel/util/tiny_algebra.hpp")])


def check_invmap_and_interpolator(ck, tier):
    try:
        facts = featlib.extract("tu/c15_invmap.cpp", files=INVMAP_FILES)
    except (featlib.AnalysisBroken, OSError) as e:
        ck.incomplete("E13.bbox-candidates", "driver tu/c15_invmap.cpp: %s" % e)
        return
    ck.tu(facts)
    for e in facts.errors_outside_repo():
        ck.incomplete("E13.bbox-candidates", "driver tu/c15_invmap.cpp no longer matches the API: %s:%d %s" % (e["file"], e["line"], e["msg"]))
    for e in facts.errors_in_repo():
        ck.ob("E13.bbox-candidates", "E0/%s/%s" % (rel(e["file"]), re.sub(r"\d+", "N", e["msg"])[:80]), False, "front-end error %s:%d %s" % (rel(e["file"]), e["line"], e["msg"]), e["file"], e["line"])
    check_bbox_candidates(ck, facts)
    check_interpolation_zeroed(ck, facts)


def check_bbox_candidates(ck, facts):
    rule = "E13.bbox-candidates"
    for f in sorted(facts.functions, key=lambda f: f.full):
        m = re.search(r"ConformalMesh<FEAT::Shape::(\w+<\d>), \d>>, \w+>$", f.cls or "")
        if f.name != "find_candidate_cells" or f.tk == "pattern" or not m or not f.cls.startswith("FEAT::Trafo::InverseMapping<"):
            continue
        sh = m.group(1)
        dim = shape_dim(sh)
        key = "find_candidate_cells/%s" % sh
        out_d = f.params[0]["d"] if f.params else None

        def model(sx, node, callee, this_loc, args, fn):
            nm = callee.rsplit("::", 1)[-1]
            if this_loc is not None and loc_name(this_loc).startswith("this."):
                if nm in ("at", "operator[]") and len(args) == 1:
                    return Loc("BOX")
                if nm == "size":
                    return Poly.sym("NUM_BOXES")
            if nm in ("empty", "size"):
                return Poly.sym("OUT_" + nm)
            return None

        def accept(node, callee, this_loc):
            return callee.rsplit("::", 1)[-1] in ("push_back", "emplace_back") and this_loc is not None and this_loc.root == "P0"
        px = PredEx([facts], opaque=model, accept=accept, elem_root="BOX")
        try:
            px.run(f)
            atoms = px.atoms()
        except NotClosedForm as e:
            ck.incomplete(rule, "%s: %s" % (key, e))
            continue
        P = [leaf_name("P1", j) for j in range(dim)]
        LO = [leaf_name("BOX", 0, j) for j in range(dim)]
        HI = [leaf_name("BOX", 1, j) for j in range(dim)]
        allowed = set(P) | set(LO) | set(HI)
        bad = [str(L) for st, L in atoms if L.degree() > 1 or not L.symbols() <= allowed]
        if bad or not atoms or not px.accepting:
            ck.incomplete(rule, "%s: the accept condition is not a conjunction of affine inequalities in the point and the box corners: %s" % (key, bad[:2] or "no accepting path"))
            continue
        problems = []
        W = ["W%d" % j for j in range(dim)]
        for st, L in atoms:
            shown = "%s %s 0" % (L, ">" if st else ">=")
            # (corners on the face the inequality talks about first: the counterexample then reads `0 > 0`)
            order = sorted(itertools.product((0, 1), repeat=dim), key=lambda cn: sum(1 for j in range(dim) if (HI[j] in L.symbols()) != bool(cn[j])))
            for corner in order:
                at = {P[j]: Poly.sym(HI[j] if corner[j] else LO[j]) for j in range(dim)}
                v = L.subs(at).subs({HI[j]: Poly.sym(LO[j]) + Poly.sym(W[j]) for j in range(dim)})     # hi = lo + w, w >= 0
                c0 = v.t.get((), Fraction(0))
                lin_ok = all(len(mon) == 1 and mon[0][1] == 1 and mon[0][0] in W and cf >= 0 for mon, cf in v.t.items() if mon)
                if not lin_ok or c0 < 0 or (st and c0 <= 0):
                    where = ", ".join("p[%d] = %s[%d]" % (j, "hi" if corner[j] else "lo", j) for j in range(dim))
                    problems.append("the accept condition %s fails on the closed bounding box, e.g. at %s (there it reads %s %s 0 with hi = lo + W, W >= 0): points on that face of the box are not candidates" % (shown, where, v, ">" if st else ">="))
                    break
        ck.ob(rule, key, not problems, "; ".join(problems[:2]) if problems else "%d non-strict inequalities, all satisfied on lo <= p <= hi" % len(atoms), f.file, f.line,
              sample={"accept": ["%s %s 0" % (L, ">" if st else ">=") for st, L in atoms][:6]})


def check_interpolation_zeroed(ck, facts):
    rule = "E7.interpolation-output-zeroed"
    import norm_c16 as norm
    by_decl = {g.d.get("decl"): g for g in facts.functions if g.tk != "pattern" and g.body is not None and g.d.get("decl") is not None}
    # does the core accumulate?  stores into vector.elements()[...], directly in InterpolatorCore::project or in a helper of the
    # core that receives the data array as a pointer parameter
    accumulates = None
    core_fns = [g for g in facts.functions if g.tk != "pattern" and g.body is not None and "InterpolatorCore<" in (g.cls or "")]
    envs = {id(g): norm.DefEnv(g) for g in core_fns}
    data_params = {}     # decl of a core function -> indices of parameters bound to vector.elements() at some call

    def is_data(g, x, depth=0):
        """expression denotes the vector's data array: vector.elements(), a local / parameter bound to it"""
        env = envs[id(g)]
        x = env.alias(x)
        if x is None or depth > 6:
            return False
        if x.get("k") == "MCall" and x.get("n") == "elements":
            return True
        if x.get("k") == "Ref":
            if x.get("dk") == "local" and env.single_def(x.get("d")) is not None:
                return is_data(g, env.single_def(x["d"]), depth + 1)
            if x.get("dk") == "param":
                idx = [i for i, pp in enumerate(g.params) if pp["d"] == x.get("d")]
                return bool(idx) and idx[0] in data_params.get(g.d.get("decl"), set())
        return False
    for _ in range(3):
        for g in core_fns:
            for n in g.nodes():
                if n.get("k") in ("Call", "MCall") and n.get("cdecl") in by_decl and "InterpolatorCore<" in (by_decl[n["cdecl"]].cls or ""):
                    for pos, a in enumerate(n.get("a") or []):
                        if is_data(g, a):
                            data_params.setdefault(n["cdecl"], set()).add(pos)
    for g in core_fns:
        env = envs[id(g)]
        for n in g.nodes():
            if n.get("k") in ("Assign", "OpCall") and n.get("op") in ("+=", "-=", "=") and (n.get("k") == "Assign" or len(n.get("a") or []) == 2):
                lhs = n.get("lhs") if n["k"] == "Assign" else n["a"][0]
                X = norm.elem_access(lhs, env)
                if X is not None and is_data(g, X):
                    accumulates = (accumulates or False) or n.get("op") != "="
    if accumulates is None:
        ck.incomplete(rule, "no store into vector.elements() found in InterpolatorCore::project (interpolation core changed)")
        return
    if not accumulates:
        ck.note("InterpolatorCore::project assigns (does not accumulate): no zeroing of the output required")

    def is_zero(x):
        x = norm.strip(x)
        while x is not None and x.get("k") in ("Construct", "TempObj", "Cast") and len(x.get("a") or [x.get("e")]) == 1:
            x = norm.strip((x.get("a") or [x.get("e")])[0])
        if x is None:
            return False
        if x.get("k") == "Int":
            return int(x.get("v", 1)) == 0
        if x.get("k") == "Float":
            try:
                return float((x.get("text") or x.get("v")).rstrip("fFlL")) == 0.0
            except ValueError:
                return False
        return False

    def zero_vector(x, env, depth=0):
        """expression yields a freshly zero-filled vector: Vector(n, 0) (possibly through a local / std::move)"""
        x = env.alias(x)
        if x is None or depth > 4:
            return False
        if x.get("k") in ("Construct", "TempObj"):
            a = x.get("a") or []
            if len(a) == 1:
                return zero_vector(a[0], env, depth + 1)
            return len(a) == 2 and "DenseVector" in (x.get("callee") or "") and is_zero(a[1])
        if x.get("k") == "Ref" and x.get("dk") == "local" and env.single_def(x.get("d")) is not None:
            return zero_vector(env.single_def(x["d"]), env, depth + 1)
        return False

    def zero_pred(g, env, d, depth):
        marks = {}
        for n in g.nodes():
            k = n.get("k")
            if k == "OpCall" and n.get("op") == "=" and len(n.get("a") or []) == 2:
                a0 = env.alias(n["a"][0])
                if a0 is not None and a0.get("k") == "Ref" and a0.get("d") == d and zero_vector(n["a"][1], env):
                    marks[n.get("i")] = True
            if k == "MCall" and n.get("n") == "format" and n.get("obj") is not None:
                a0 = env.alias(n["obj"])
                if a0 is not None and a0.get("k") == "Ref" and a0.get("d") == d and (not n.get("a") or is_zero(n["a"][0])):
                    marks[n.get("i")] = True
            if k == "Call" and depth < 3:
                tgt = by_decl.get(n.get("cdecl"))
                if tgt is not None and "Interpolator" in (tgt.cls or tgt.qn):
                    for pos, a in enumerate(n.get("a") or []):
                        a0 = env.alias(a)
                        if a0 is not None and a0.get("k") == "Ref" and a0.get("d") == d and pos < len(tgt.params) and always_zeroes(tgt, pos, depth + 1):
                            marks[n.get("i")] = True
        return lambda st: marks.get(st.get("i")) is True

    def always_zeroes(g, pidx, depth):
        if g.cfg is None or depth > 3:
            return False
        env = norm.DefEnv(g)
        ok, _ = g.cfg.must_pass(zero_pred(g, env, g.params[pidx]["d"], depth))
        return ok

    def check_fn(g, pidx, depth=0):
        """-> list of problems: paths on which the vector reaches the core without having been zero-filled"""
        if g.cfg is None or depth > 3:
            return ["%s: not analysable" % g.name]
        env = norm.DefEnv(g)
        d = g.params[pidx]["d"]
        pred = zero_pred(g, env, d, depth)
        problems = []
        ncore = 0
        for n in g.nodes():
            if n.get("k") != "Call":
                continue
            tgt = by_decl.get(n.get("cdecl"))
            for pos, a in enumerate(n.get("a") or []):
                a0 = env.alias(a)
                if a0 is None or a0.get("k") != "Ref" or a0.get("d") != d:
                    continue
                is_core = (n.get("callee") or "").startswith("FEAT::Assembly::Intern::Interpolator") and (n.get("callee") or "").endswith("::project")
                if not is_core and (tgt is None or "Interpolator" not in (tgt.cls or tgt.qn)):
                    continue
                ncore += 1
                wb = g.cfg.block_of(n.get("i"))
                if wb is None:
                    problems.append("call at line %s not found in the CFG" % n.get("l"))
                    continue
                # zero-filled BEFORE this call (the call itself, if it is a zero-filling helper, is judged by recursion)
                ok, _ = g.cfg.must_pass(lambda st, me=n.get("i"): pred(st) and st.get("i") != me, target_blocks=[wb[0]])
                if ok:
                    continue
                if is_core:
                    problems.append("%s(): on some path to the accumulating core (line %s) the output vector has not been replaced by a zero-filled vector (a vector of matching length keeps its old coefficients)" % (g.name, n.get("l")))
                else:
                    sub, nsub = check_fn(tgt, pos, depth + 1)
                    problems += sub
                    ncore += nsub - 1
        return problems, ncore
    seen = set()
    for g in sorted(facts.functions, key=lambda g: g.full):
        if g.tk == "pattern" or g.name != "project" or g.cls != "FEAT::Assembly::Interpolator" or not g.params:
            continue
        vt = g.type(g.params[0]["t"])
        kind = "DenseVectorBlocked" if "DenseVectorBlocked" in vt else ("DenseVector" if "DenseVector" in vt else vt[:30])
        key = "Interpolator::project/%s" % kind
        if key in seen:
            continue
        seen.add(key)
        if not accumulates:
            ck.ob(rule, key, True, "core assigns, nothing to zero", g.file, g.line, trivial=True)
            continue
        problems, ncore = check_fn(g, 0)
        if not problems and not ncore:
            ck.incomplete(rule, "%s: no call handing the output vector to the interpolation core found" % key)
            continue
        ck.ob(rule, key, not problems, "; ".join(sorted(set(problems))[:2]) if problems else "zero-filled on every path to the accumulating core", g.file, g.line)


ISO_FILES = "|".join([F("kernel/trafo/"), F("kernel/shape.hpp"), F("kernel/util/tiny_algebra.hpp"), F("kernel/geometry/intern/face_index_mapping.hpp"), "/verif/tu/c15_"])


class _IsoEx(SymEx):
    """scenario 'the entity has a chart': a chart pointer fetched from a chart vector compares unequal to nullptr"""

    def binary(self, n, env, fn):
        if n["op"] in ("==", "!="):
            a0, b0 = self.eval(n["lhs"], env, fn), self.eval(n["rhs"], env, fn)
            for x, o in ((a0, b0), (b0, a0)):
                p = self.ptr_of(x)
                base = p.base if p is not None else (x if isinstance(x, Loc) else None)
                if base is not None and loc_name(base).startswith("CHART:") and isinstance(o, Poly) and o.const_value() == 0:
                    return Poly.const(1 if n["op"] == "!=" else 0)
        return super().binary(n, env, fn)

    def truth(self, v):
        x = v
        p = self.ptr_of(x)
        base = p.base if p is not None else (x if isinstance(x, Loc) else None)
        if base is not None and loc_name(base).startswith("CHART:"):
            return True       # `if(chart)`
        return super().truth(v)


def check_iso_projection(ck, tier, refcell):
    rule = "E13.iso-chart-projection"
    try:
        facts = featlib.extract("tu/c15_isoparam.cpp", files=ISO_FILES)
    except (featlib.AnalysisBroken, OSError) as e:
        ck.incomplete(rule, "driver tu/c15_isoparam.cpp: %s" % e)
        return
    ck.tu(facts)
    for e in facts.errors_outside_repo():
        ck.incomplete(rule, "driver tu/c15_isoparam.cpp no longer matches the API: %s:%d %s" % (e["file"], e["line"], e["msg"]))
    for e in facts.errors_in_repo():
        ck.ob(rule, "E0/%s/%s" % (rel(e["file"]), re.sub(r"\d+", "N", e["msg"])[:80]), False, "front-end error %s:%d %s" % (rel(e["file"]), e["line"], e["msg"]), e["file"], e["line"])
    classes = {}
    for f in facts.functions:
        m = re.match(r"^FEAT::Trafo::Isoparam::Evaluator<FEAT::Trafo::Isoparam::Mapping<.*?, (\d)>, FEAT::Trafo::StandardEvalPolicy<FEAT::Shape::Hypercube<(\d)>, \w+, (\d)>, (\d), FEAT::Shape::Hypercube<(\d)>>$", f.cls)
        if m and f.tk != "pattern" and m.group(2) == m.group(5):
            classes.setdefault((int(m.group(2)), int(m.group(3)), int(m.group(4))), {}).setdefault(f.name, []).append(f)
    if not classes:
        ck.incomplete(rule, "no Trafo::Isoparam::Evaluator instantiation found in the driver facts")
        return
    for (d, wd, n), meths in sorted(classes.items()):
        inst = "Isoparam/Hypercube<%d>/world%d/degree%d" % (d, wd, n)
        sh = "Hypercube<%d>" % d
        ctor = [g for g in meths.get("Evaluator", []) if g.d.get("ctor")]
        if not ctor or "prepare" not in meths or "map_point" not in meths:
            ck.incomplete(rule, "%s: constructor / prepare / map_point not instantiated" % inst)
            continue
        projs = {}

        def model(sx, node, callee, this_loc, args, fn):
            nm = callee.rsplit("::", 1)[-1]
            if nm == "get_charts_vector" and len(args) == 1:
                return Loc("CHARTS%d" % sx.num(args[0]).as_int())
            if nm in ("at", "operator[]") and this_loc is not None and len(args) == 1:
                src = this_loc
                for k in range(len(this_loc.path), -1, -1):
                    l2 = sx.links.get((this_loc.root, this_loc.path[:k]))
                    if l2 is not None:
                        src = Loc(l2.root, l2.path + this_loc.path[k:])
                        break
                if loc_name(src).startswith("CHARTS"):
                    return Loc("CHART:%s:%s" % (loc_name(src)[6:], sx.index_elem(args[0])))
            if nm == "project" and this_loc is not None and loc_name(this_loc).startswith("CHART:") and len(args) == 1 and isinstance(args[0], Loc):
                comps = {}
                for c in range(wd):
                    comps[c] = sx.num(args[0].child(c))
                name = "PROJ%d" % len(projs)
                projs[name] = (loc_name(Loc(this_loc.root)), comps)
                return Loc(name)
            return accessor_model(sx, node, callee, this_loc, args, fn)
        try:
            sx = _IsoEx([facts], opaque=model, no_inline=r"::get_charts_vector$")
            sx.run(ctor[0], args=[Loc("trafo")])
            fp = meths["prepare"][0]
            sx.run(fp, args=[Loc("cell")])
            verts = refcell.vertices(sh)
            # the coefficient array: the member holding the lattice (found through the corner links to the mesh vertices)
            def coeff(idx, c):
                return sx.num(Loc("this", (arr,) + tuple(idx) + (c,)))
            arr = None
            for (pth, src) in list(sx.links.root("this").items()):
                if len(pth) == d + 1 and all(isinstance(x, int) for x in pth[1:]) and "get_vertex_set" in loc_name(src):
                    arr = pth[0]
            if arr is None:
                raise NotClosedForm("no member array whose corner entries are copies of mesh vertices found")
            corner_of = {}
            problems = []
            for idx in itertools.product((0, n), repeat=d):
                nm = coeff(idx, 0).single_symbol() or ""
                m = re.match(r"^(.*get_vertex_set)\[(.*get_index_set<%d, 0>)\[cell\]\[(\d+)\]\]\[0\]$" % d, nm)
                if not m:
                    raise NotClosedForm("lattice corner %s holds %s, not a mesh vertex of the cell" % (list(idx), nm or coeff(idx, 0)))
                corner_of[int(m.group(3))] = idx
                vs, ixs = m.group(1), m.group(2)
            if sorted(corner_of) != list(range(2 ** d)):
                problems.append("the %d lattice corners hold the vertices %s of the cell" % (2 ** d, sorted(corner_of)))
            # (a) map_point(reference vertex k) = vertex k
            fm = meths["map_point"][0]
            for k, rv in enumerate(verts):
                if k not in corner_of:
                    continue
                dom = sx.new_temp("DOM")
                for i2, x in enumerate(rv):
                    sx.store[(dom.root, (i2,))] = Poly.const(x)
                img = Loc("IMG%d" % k)
                sx.run(fm, args=[img, dom])
                for c in range(wd):
                    got = sx.num(img.child(c))
                    want = "%s[%s[cell][%d]][%d]" % (vs, ixs, k, c)
                    if got.single_symbol() != want:
                        problems.append("map_point(reference vertex %d = %s)[%d] = %s, expected %s" % (k, tuple(map(str, rv)), c, got, want))
        except NotClosedForm as e:
            ck.incomplete(rule, "%s: %s" % (inst, e))
            continue
        ck.ob(rule, inst + "/corners", not problems, "; ".join(problems[:2]) if problems else "lattice corners = mesh vertices, map_point(reference vertex k) = vertex k", fp.file, fp.line)
        if problems or n < 2:
            continue
        V = lambda k, c: Poly.sym("%s[%s[cell][%d]][%d]" % (vs, ixs, k, c))
        for e in range(1, d + 1):
            try:
                ents = refcell.face_verts(sh, e)
            except NotClosedForm as ex:
                ck.incomplete(rule, "%s: %s" % (inst, ex))
                break
            for i, ev in enumerate(ents):
                key = "%s/entity%d.%d" % (inst, e, i)
                c0 = corner_of[ev[0]]
                dirs = [tuple((b - a) // n for a, b in zip(c0, corner_of[ev[2 ** m]])) for m in range(e)]
                want_chart = "CHART:%d:%s" % (e, "#cell" if e == d else "#%s" % re.sub(r"get_index_set<%d, 0>$" % d, "get_index_set<%d, %d>" % (d, e), ixs) + "[cell][%d]" % i)
                problems, unknown = [], []
                npts = 0
                for t in itertools.product(range(1, n), repeat=e):
                    idx = tuple(c0[a] + sum(t[m] * dirs[m][a] for m in range(e)) for a in range(d))
                    npts += 1
                    ids = set()
                    for c in range(wd):
                        try:
                            v = coeff(idx, c)
                        except NotClosedForm as ex:
                            unknown.append("lattice point %s: %s" % (list(idx), ex))
                            continue
                        mm = re.match(r"^(PROJ\d+)\[(\d+)\]$", v.single_symbol() or "")
                        if not mm or int(mm.group(2)) != c:
                            problems.append("lattice point %s (point %s of local %s %d) coordinate %d is %s: not the projection onto the entity's chart" % (
                                list(idx), list(t), {1: "edge", 2: "quad", 3: "hexa"}[e], i, c, str(v)[:160]))
                            continue
                        ids.add(mm.group(1))
                    if len(ids) > 1:
                        problems.append("lattice point %s takes its coordinates from different projections %s" % (list(idx), sorted(ids)))
                    for pid in ids:
                        chart, argc = projs[pid]
                        if chart != want_chart:
                            problems.append("lattice point %s (local %s %d) is projected onto %s, the entity's chart is %s" % (list(idx), {1: "edge", 2: "quad", 3: "hexa"}[e], i, chart, want_chart))
                        elif e == 1:
                            al = Fraction(t[0], n)
                            for c in range(wd):
                                wantp = V(ev[0], c) * (1 - al) + V(ev[1], c) * al
                                if argc[c] != wantp:
                                    problems.append("edge %d point %d: the projected point is %s, the linear interpolation between the edge's vertices at %s is %s" % (i, t[0], argc[c], al, wantp))
                                    break
                _finish15(ck, rule, key, problems, unknown, "%d interior lattice points = project_%s(...)" % (npts, want_chart), fp.file, fp.line)


def _finish15(ck, rule, key, problems, unknown, okmsg, file, line):
    if problems:
        ck.ob(rule, key, False, "; ".join(problems[:3]), file, line)
    elif unknown:
        ck.incomplete(rule, "%s: %s" % (key, "; ".join(unknown[:3])))
    else:
        ck.ob(rule, key, True, okmsg, file, line)


def tensor_entries(outs, rank):
    res = {}
    for p, v in outs.items():
        if len(p) == rank and all(isinstance(e, int) for e in p):
            res[p] = v
        else:
            return None
    return res


def check_trafo(ck, facts, refcell, tag, sh, wd, meths):
    inst = "%s/world%d" % (sh, wd)
    dim = shape_dim(sh)
    need = ("prepare", "map_point", "calc_jac_mat", "calc_hess_ten")
    if any(k not in meths for k in need):
        ck.incomplete("E11.trafo-jacobian", "%s%s: %s not instantiated" % (tag, inst, [k for k in need if k not in meths]))
        return
    try:
        sx = SymEx([facts], opaque=accessor_model)
        sx.run(meths["prepare"][0], args=[Loc("cell")])
        sx.run(meths["map_point"][0], args=[Loc("img"), Loc("dom")])
        sx.run(meths["calc_jac_mat"][0], args=[Loc("jac"), Loc("dom")])
        sx.run(meths["calc_hess_ten"][0], args=[Loc("hess"), Loc("dom")])
        img = tensor_entries(sx.outputs("img"), 1)
        jac = tensor_entries(sx.outputs("jac"), 2)
        hess = tensor_entries(sx.outputs("hess"), 3)
        verts = refcell.vertices(sh)
    except NotClosedForm as e:
        ck.incomplete("E11.trafo-jacobian", "%s%s: %s" % (tag, inst, e))
        return
    fj, fh, fm = meths["calc_jac_mat"][0], meths["calc_hess_ten"][0], meths["map_point"][0]
    if img is None or jac is None or hess is None or sorted(img) != [(i,) for i in range(wd)]:
        ck.incomplete("E11.trafo-jacobian", "%s%s: outputs of map_point/calc_jac_mat/calc_hess_ten are not plain tensors (img components %s)" % (tag, inst, sorted(img or {})))
        return
    X = [leaf_name("dom", j) for j in range(dim)]
    for i in range(wd):
        for j in range(dim):
            key = tag + "%s/jac_mat(%d,%d)" % (inst, i, j)
            if (i, j) not in jac:
                ck.ob("E11.trafo-jacobian", key, False, "entry never assigned", fj.file, fj.line)
                continue
            want = img[(i,)].diff(X[j])
            ok = (jac[(i, j)] - want).is_zero()
            ck.ob("E11.trafo-jacobian", key, ok, "jac_mat(%d,%d) = %s but d map_point[%d]/d dom_point[%d] = %s" % (i, j, jac[(i, j)], i, j, want) if not ok else "= d/d dom[%d] of %s" % (j, img[(i,)]), fj.file, fj.line)
            for k in range(dim):
                key = tag + "%s/hess_ten(%d,%d,%d)" % (inst, i, j, k)
                if (i, j, k) not in hess:
                    ck.ob("E11.trafo-hessian", key, False, "entry never assigned", fh.file, fh.line)
                    continue
                w2 = want.diff(X[k])
                ok = (hess[(i, j, k)] - w2).is_zero()
                ck.ob("E11.trafo-hessian", key, ok, "hess_ten(%d,%d,%d) = %s but the second derivative of map_point[%d] is %s" % (i, j, k, hess[(i, j, k)], i, w2) if not ok else "= d2/d dom[%d] d dom[%d]" % (j, k), fh.file, fh.line)
    extra = [p for p in jac if p[0] >= wd or p[1] >= dim] + [p for p in hess if p[0] >= wd or p[1] >= dim or p[2] >= dim]
    if extra:
        ck.ob("E11.trafo-jacobian", tag + inst + "/extent", False, "entries outside world_dim x shape_dim written: %s" % extra[:4], fj.file, fj.line)
    # vertex interpolation
    A = C = None
    for k, rv in enumerate(verts):
        at = dict(zip(X, rv))
        for i in range(wd):
            key = tag + "%s/vertex%d[%d]" % (inst, k, i)
            got = img[(i,)].subs(at)
            nm = got.single_symbol()
            m = re.match(r"^(?P<A>.*)\[(?P<C>.*)\[cell\]\[(?P<k>\d+)\]\]\[(?P<i>\d+)\]$", nm) if nm else None
            ok = bool(m) and int(m.group("k")) == k and int(m.group("i")) == i and "get_vertex_set" in m.group("A") and ("get_index_set<%d, 0>" % dim) in m.group("C")
            if ok:
                if A is None:
                    A, C = m.group("A"), m.group("C")
                ok = (A, C) == (m.group("A"), m.group("C"))
            if not ok and (not m) and all(("get_vertex_set" not in sname) for sname in got.symbols()):
                # the coefficients are not expressed through the mesh vertex set: prepare() changed shape
                ck.incomplete("E11.trafo-vertex-map", "%s: map_point(reference vertex %d)[%d] = %s is not expressed through vertex_set[index_set(cell,.)] (coefficient set-up not recognised)" % (key, k, i, got))
                continue
            ck.ob("E11.trafo-vertex-map", key, ok, "map_point(reference vertex %d = %s)[%d] = %s, expected the coordinate %d of mesh vertex index_set<%d,0>(cell,%d)" % (k, tuple(map(str, rv)), i, got, i, dim, k) if not ok else "= %s" % nm, fm.file, fm.line)


def check_volume_quadrature(ck, facts, tag):
    rule = "E11.volume-quadrature"
    helpers = {}
    for f in facts.functions:
        m = re.match(r"^FEAT::Trafo::Standard::EvalHelper<.*FEAT::Shape::(Simplex|Hypercube)<(\d)>, (\d)>$", f.cls or "")
        if m and f.tk != "pattern" and f.name in ("volume", "calc_jac_mat"):
            helpers.setdefault(("%s<%s>" % (m.group(1), m.group(2)), int(m.group(3))), {})[f.name] = f
    for (sh, wd), meths in sorted(helpers.items()):
        dim = shape_dim(sh)
        if "volume" not in meths or "calc_jac_mat" not in meths or dim < 2:
            continue      # 1D: the length is the norm of the single Jacobian column, no quadrature
        fvol, fjac = meths["volume"], meths["calc_jac_mat"]
        key = "EvalHelper::volume/%s/world%d" % (sh, wd)
        events = []

        def model(sx, node, callee, this_loc, args, fn):
            nm = callee.rsplit("::", 1)[-1]
            if nm == "calc_jac_mat" and len(args) == 3 and isinstance(args[0], Loc) and isinstance(args[1], Loc):
                pt = tuple(sx.num(args[1].child(i)).const_value() for i in range(dim))
                if any(c is None for c in pt):
                    raise NotClosedForm("calc_jac_mat at a non-constant point")
                for i in range(wd):
                    for j in range(dim):
                        sx.write(args[0].child(i).child(j), Poly.sym("JAC@%d[%d][%d]" % (len(events), i, j)))
                events.append(("pt", pt))
                return args[0]
            if nm == "vol" and this_loc is not None and not args:
                ents = {p2: v for p2, v in sx.sub_entries(this_loc)}
                name = "VOL%d" % len(events)
                events.append(("vol", ents))
                return Poly.sym(name)
            return None
        try:
            sx = SymEx([facts], opaque=model, no_inline=r"::(calc_jac_mat|vol)$")
            ret = sx.num(sx.run(fvol, args=[Loc("C")], this=None))
            # J at a symbolic point, for the helpers that assemble the matrix themselves
            sj = SymEx([facts])
            sj.run(fjac, args=[Loc("J"), Loc("X"), Loc("C")], this=None)
            Jsym = {p2: v for p2, v in sj.outputs("J").items()}
        except NotClosedForm as e:
            ck.incomplete(rule, "%s%s: %s" % (tag, key, e))
            continue
        pts = []
        unknown = []
        if ret.degree() > 1 or ret.t.get((), 0) != 0:
            ck.incomplete(rule, "%s%s: the returned value %s is not a weighted sum of Jacobian volumes" % (tag, key, str(ret)[:120]))
            continue
        for mon, w in ret.t.items():
            k = int(mon[0][0][3:]) if mon[0][0].startswith("VOL") else None
            if k is None:
                unknown.append("term %s" % mon[0][0])
                continue
            ents = events[k][1]
            names = {v.single_symbol() for v in ents.values() if isinstance(v, Poly)}
            jm = {re.match(r"^JAC@(\d+)\[", n2).group(1) for n2 in names if n2 and n2.startswith("JAC@")}
            if len(jm) == 1 and all(n2 and n2.startswith("JAC@") for n2 in names) and len(ents) == wd * dim:
                pts.append((events[int(next(iter(jm)))][1], w))
                continue
            # matrix assembled from the coefficients: which point p gives J(p) = M?  constant J: any point; else try the barycentre
            X = [leaf_name("X", i) for i in range(dim)]
            if all(not (set(v.symbols()) & set(X)) for v in Jsym.values()):
                if all(ents.get(p2) == v for p2, v in Jsym.items()):
                    pts.append((None, w))
                    continue
            centre = tuple(Fraction(0) for _ in range(dim))
            if all(ents.get(p2) == v.subs(dict(zip(X, centre))) for p2, v in Jsym.items()):
                pts.append((centre, w))
                continue
            unknown.append("the matrix of one vol() call is not the Jacobian at a recognised reference point")
        if unknown:
            ck.incomplete(rule, "%s%s: %s" % (tag, key, "; ".join(unknown[:2])))
            continue
        problems = []
        tol = Fraction(1, 10 ** 30)
        if sh.startswith("Simplex"):
            tot = sum(w for _, w in pts)
            fact = Fraction(1)
            for q in range(2, dim + 1):
                fact *= q
            if abs(tot - 1 / fact) > tol:
                problems.append("the weights sum to %s, the reference simplex has the volume 1/%d" % (tot, fact))
        else:
            if any(p2 is None for p2, _ in pts):
                problems.append("Jacobian taken without a reference point")
            else:
                for ex in itertools.product(range(dim), repeat=dim):
                    want = Fraction(1)
                    for a in ex:
                        want *= Fraction(2, a + 1) if a % 2 == 0 else 0
                    got = Fraction(0)
                    for p2, w in pts:
                        t = Fraction(w)
                        for c, a in zip(p2, ex):
                            t *= Fraction(c) ** a
                        got += t
                    if abs(got - want) > tol:
                        problems.append("the rule (%d points) gives %s for the monomial %s instead of %s: det J of a general cell contains this monomial, so the volume is wrong unless the cell is point symmetric" % (
                            len(pts), float(got), "*".join("x%d^%d" % (i, a) for i, a in enumerate(ex) if a) or "1", want))
                        break
        ck.ob(rule, tag + key, not problems, "; ".join(problems[:2]) if problems else "%d point(s), exact for the degree of det J" % len(pts), fvol.file, fvol.line)


def check_chain_rule(ck, facts, tag):
    done = set()
    for f in facts.functions:
        if f.tk == "pattern" or f.cls != "FEAT::Space::ParametricEvalHelper" or f.name not in ("trans_values", "trans_gradients", "trans_hessians"):
            continue
        # the same template is instantiated once per evaluation-data configuration: one instance per (function, dim, dofs)
        mpre = re.search(r"StandardEvalPolicy<FEAT::Shape::\w+<(\d)>, \w+, \d>, (\d+), \w+>", f.full)
        if mpre:
            pre = (f.name, int(mpre.group(2))) if f.name == "trans_values" else (f.name, int(mpre.group(2)), int(mpre.group(1)))
            if pre in done:
                continue
        try:
            sx = SymEx([facts])
            sx.run(f, this=None)
            outs = {}
            for p, v in sx.outputs("P0").items():
                ps = parse_slot(p)
                if ps is None or not isinstance(ps[0], int):
                    raise NotClosedForm("output %s" % symex.path_str(p))
                outs[ps] = v
        except NotClosedForm as e:
            ck.incomplete("E11.chain-rule", "%s%s: %s" % (tag, f.full[:80], e))
            continue
        slots = sorted({s for s, fl, idx in outs})
        nd = len(slots)
        problems = []
        if slots != list(range(nd)):
            problems.append("slots %s" % slots[:5])
        if f.name == "trans_values":
            key = (f.name, nd)
            if key in done:
                continue
            for (s, fl, idx), v in outs.items():
                if fl != "value" or idx or v != Poly.sym(leaf_name("P0", "phi", s, "ref_value")):
                    problems.append("phi[%d].%s = %s" % (s, fl, v))
        else:
            dims = sorted({i for s, fl, idx in outs for i in idx})
            dim = len(dims)
            key = (f.name, nd, dim)
            if key in done:
                continue
            JI = lambda k, j: Poly.sym(leaf_name("P1", k, j))
            RG = lambda s, k: Poly.sym(leaf_name("P0", "phi", s, "ref_grad", k))
            RH = lambda s, k, l: Poly.sym(leaf_name("P0", "phi", s, "ref_hess", k, l))
            HI = lambda k, a, b: Poly.sym(leaf_name("P2", k, a, b))
            for s in slots:
                if f.name == "trans_gradients":
                    for j in range(dim):
                        want = Poly.const(0)
                        for k in range(dim):
                            want = want + RG(s, k) * JI(k, j)
                        got = outs.get((s, "grad", (j,)))
                        if got is None or got != want:
                            problems.append("phi[%d].grad[%d] = %s, chain rule gives %s" % (s, j, got, want))
                else:
                    for a in range(dim):
                        for b in range(dim):
                            want = Poly.const(0)
                            for k in range(dim):
                                for l in range(dim):
                                    want = want + RH(s, k, l) * JI(k, a) * JI(l, b)
                                want = want + RG(s, k) * HI(k, a, b)
                            got = outs.get((s, "hess", (a, b)))
                            if got is None or got != want:
                                problems.append("phi[%d].hess[%d][%d] = %s, chain rule gives %s" % (s, a, b, got, want))
                if len(problems) > 3:
                    break
            nf = sum(1 for k2 in outs if k2[1] not in ("grad", "hess"))
            if nf:
                problems.append("other fields written")
        done.add(key)
        ck.ob("E11.chain-rule", tag + "ParametricEvalHelper::%s/%s" % (f.name, "x".join(str(x) for x in key[1:])), not problems, "; ".join(problems[:2]) if problems else "all %d slots" % nd, f.file, f.line)
    # hess_inv
    for f in facts.functions:
        if f.tk == "pattern" or f.name != "calc_hess_inv" or not f.cls.startswith("FEAT::Trafo::Intern::TrafoEvalHelper"):
            continue
        if not (f.body or {}).get("s"):
            continue   # the disabled TrafoEvalHelper<false> stub
        try:
            sx = SymEx([facts])
            sx.run(f, this=None)
            hi = tensor_entries({p[1:]: v for p, v in sx.outputs("P0").items() if p and p[0] == "hess_inv"}, 3)
            other = [p for p in sx.outputs("P0") if not p or p[0] != "hess_inv"]
        except NotClosedForm as e:
            ck.incomplete("E11.chain-rule", "%s%s: %s" % (tag, f.full[:80], e))
            continue
        if hi is None or not hi:
            ck.incomplete("E11.chain-rule", "%scalc_hess_inv: output is not a rank-3 tensor" % tag)
            continue
        dim = max(p[0] for p in hi) + 1
        key = ("calc_hess_inv", dim)
        if key in done:
            continue
        done.add(key)
        JI = lambda k, j: Poly.sym(leaf_name("P0", "jac_inv", k, j))
        HT = lambda c, l, m: Poly.sym(leaf_name("P0", "hess_ten", c, l, m))
        problems = []
        for k in range(dim):
            for a in range(dim):
                for b in range(dim):
                    want = Poly.const(0)
                    for c in range(dim):
                        inner = Poly.const(0)
                        for l in range(dim):
                            for m in range(dim):
                                inner = inner + HT(c, l, m) * JI(l, a) * JI(m, b)
                        want = want - JI(k, c) * inner
                    got = hi.get((k, a, b))
                    if got is None or got != want:
                        problems.append("hess_inv(%d,%d,%d) = %s, expected %s" % (k, a, b, got, want))
        if other:
            problems.append("other trafo data written: %s" % other[:2])
        ck.ob("E11.chain-rule", tag + "TrafoEvalHelper::calc_hess_inv/%d" % dim, not problems, "; ".join(problems[:2]) if problems else "all %d^3 entries" % dim, f.file, f.line)


def check_is_on_ref(ck, facts, refcell, tag):
    fs = {}
    for f in facts.find(name="is_on_ref"):
        m = re.match(r"^FEAT::Trafo::Intern::InverseMappingHelper<FEAT::Shape::(\w+<\d>)>$", f.cls)
        if m and f.tk != "pattern" and len(f.params) == 2:
            fs.setdefault(m.group(1), f)
    for sh, f in sorted(fs.items()):
        dim = shape_dim(sh)
        key = "is_on_ref/%s" % sh
        px = PredEx([facts])
        try:
            px.run(f, this=None)
            atoms = px.atoms()
            verts = refcell.vertices(sh)
        except NotClosedForm as e:
            ck.incomplete("E13.is-on-ref", "%s%s: %s" % (tag, key, e))
            continue
        X = [leaf_name("P0", i) for i in range(dim)]
        TOL = "P1"
        allowed = set(X) | {TOL}
        bad_form = [str(L) for st, L in atoms if L.degree() > 1 or not L.symbols() <= allowed]
        if bad_form or not atoms:
            ck.incomplete("E13.is-on-ref", "%s%s: accept condition is not affine in the point and the tolerance: %s" % (tag, key, bad_form[:2] or "no condition"))
            continue
        cprob, mprob = [], []
        for st, L in atoms:
            rel_s = "%s %s 0" % (L, ">" if st else ">=")
            ct = L.diff(TOL).const_value()
            if ct < 0:
                mprob.append("the accept condition %s becomes tighter when tol grows (coefficient of tol = %s)" % (rel_s, ct))
            for k, v in enumerate(verts):
                at = L.subs(dict(zip(X, v)))
                c0 = at.subs({TOL: 0}).const_value()
                c1 = at.diff(TOL).const_value()
                if c0 < 0 or c1 < 0 or (st and c0 == 0):
                    cprob.append("reference vertex %d = %s violates %s for %s (condition at the vertex: %s %s 0)" % (k, tuple(map(str, v)), rel_s, "tol = 0" if c0 < 0 or (st and c0 == 0) else ("every tol > %s" % (c0 / -c1)), at, ">" if st else ">="))
        ck.ob("E13.is-on-ref", tag + key + "/contains-cell", not cprob, "; ".join(cprob[:2]) if cprob else "all %d reference vertices satisfy the %d accept inequalities for every tol >= 0" % (len(verts), len(atoms)), f.file, f.line,
              sample={"accept": ["%s %s 0" % (L, ">" if st else ">=") for st, L in atoms][:6]})
        ck.ob("E13.is-on-ref", tag + key + "/monotone-in-tol", not mprob, "; ".join(mprob[:2]) if mprob else "no inequality tightens with tol", f.file, f.line)


def _tiny_filter(t, call):
    return t.file.endswith("/kernel/util/tiny_algebra.hpp") and t.name not in ("set_inverse", "det", "vol", "norm_euclid")


def check_nodal_normalisation(ck, facts, classes, tag):
    for (fam, sh), meths in sorted(classes.items()):
        fs = meths.get("_build_coeff_matrix")
        if not fs:
            continue
        f = fs[0]
        inst = "%s/%s" % (fam, sh)
        sx = AbsSymEx([facts], inline_filter=_tiny_filter, opaque=accessor_model)
        sx.versioned = True
        sx.allow_recip = True
        try:
            sx.run(f)
        except NotClosedForm as e:
            ck.incomplete("E11.functional-normalisation", "%s%s: %s" % (tag, inst, e))
            continue
        inv = [e for e in sx.events if e["callee"].endswith("::set_inverse") and e["args"] and isinstance(e["args"][0], Loc)]
        if len(inv) != 1:
            ck.incomplete("E11.functional-normalisation", "%s%s: the nodal matrix handed to set_inverse() is not recognised (%d calls)" % (tag, inst, len(inv)))
            continue
        nodal = inv[0]["args"][0]
        ents = {p: v for p, v in sx.sub_entries(nodal) if isinstance(v, Poly)}
        if not ents or not all(len(p) == 2 and all(isinstance(x, int) for x in p) for p in ents):
            ck.incomplete("E11.functional-normalisation", "%s%s: entries of the nodal matrix not recognised" % (tag, inst))
            continue
        # which of the two indices numbers the functionals: the one along which the normaliser is constant
        cols = sorted({p[1] for p in ents})
        for c in cols:
            problems, unknown = [], []
            recs, wts = set(), set()
            for p, v in ents.items():
                if p[1] != c or v.is_const():
                    continue
                for mon in v.t:
                    r = [(sname, e) for sname, e in mon if sname.startswith("RECIP")]
                    w = [(sname, e) for sname, e in mon if ".jac_det@" in sname]
                    if len(r) != 1 or r[0][1] != 1 or len(w) != 1 or w[0][1] != 1:
                        unknown.append("entry %s has the term %s which is not weight * integrand / normaliser" % (p, Poly({mon: v.t[mon]})))
                        break
                    recs.add(r[0][0])
                    wts.add(w[0][0])
            if not recs and not unknown:
                continue
            if len(recs) > 1:
                unknown.append("entries of functional %d use different normalisers" % c)
            if not unknown:
                den = sx.recips[sorted(recs)[0]]
                if den.degree() != 1 or any(".jac_det@" not in sname for sname in den.symbols()) or not den.t.get((), 0) == 0:
                    unknown.append("normaliser %s is not a sum of quadrature weights" % den)
                else:
                    want = Poly.const(0)
                    for w in sorted(wts):
                        want = want + Poly.sym(w)
                    if den != want:
                        short = lambda q: str(q).replace(loc_name(Loc(nodal.root)) , "")
                        problems.append("functional %d is normalised by %s but its integrand terms carry the weights %s (each must occur exactly once in the normaliser)" % (c, den, want))
            key = tag + "%s/functional[%d]" % (inst, c)
            if problems:
                ck.ob("E11.functional-normalisation", key, False, "; ".join(problems[:2]), f.file, f.line)
            elif unknown:
                ck.incomplete("E11.functional-normalisation", "%s: %s" % (key, "; ".join(unknown[:2])))
            else:
                ck.ob("E11.functional-normalisation", key, True, "sum of %d weighted integrand terms / sum of the same %d weights" % (len(wts), len(wts)), f.file, f.line)


def check_derivative_scaling(ck, facts, refcell, classes, values, tag):
    for (fam, sh), meths in sorted(classes.items()):
        if fam not in ("Hermite3", "BognerFoxSchmit") or (fam, sh) not in values or "prepare" not in meths:
            continue
        inst = "%s/%s" % (fam, sh)
        value_of, fv, X = values[(fam, sh)]
        dim = shape_dim(sh)
        fp = meths["prepare"][0]
        sx = AbsSymEx([facts], inline_filter=_tiny_filter, opaque=accessor_model)
        sx.versioned = True
        try:
            sx.run(fp)
            verts = refcell.vertices(sh)
        except NotClosedForm as e:
            ck.incomplete("E11.derivative-dof-scaling", "%s%s: prepare(): %s" % (tag, inst, e))
            continue
        defs = {loc_name(Loc("this", p)): v for p, v in sx.outputs("this").items() if isinstance(v, Poly)}
        point_of = {}
        for e in sx.events:
            if e["callee"].endswith("::operator()") and len(e["args"]) == 2 and isinstance(e["args"][1], Loc):
                snap = (e.get("snap") or {}).get(loc_name(e["args"][1]), {})
                try:
                    point_of[e["n"]] = tuple(snap[(i,)].const_value() for i in range(dim))
                except (KeyError, AttributeError):
                    point_of[e["n"]] = None
        affine = sh.startswith("Simplex") or dim == 1
        problems, unknown = [], []
        nderiv = 0
        def member_def(name):
            """value prepare() left in the member cell `this.a[i][j]` (follows aggregate copies of call-defined data)"""
            if name in defs:
                return defs[name]
            m = re.match(r"^this\.(\w+)((?:\[\d+\])*)$", name)
            if not m:
                return None
            path = (m.group(1),) + tuple(int(x) for x in re.findall(r"\[(\d+)\]", m.group(2)))
            try:
                v = sx.read(Loc("this", path))
            except NotClosedForm:
                return None
            return v if isinstance(v, Poly) and v.single_symbol() != name else None

        for s in sorted(value_of, key=str):
            mp = {}
            for k in value_of[s].symbols():
                if k.startswith("this."):
                    dv = member_def(k)
                    if dv is not None:
                        mp[k] = dv
            val = value_of[s].subs(mp)
            left = [x for x in val.symbols() if x.startswith("this.")]
            if left:
                unknown.append("phi[%s] depends on %s which prepare() does not define" % (slot_str(s), left[:2]))
                continue
            for vi, v in enumerate(verts):
                g = [val.diff(X[k]).subs(dict(zip(X, v))) for k in range(dim)]
                if all(c.is_zero() for c in g):
                    continue
                nderiv += 1
                names = [c.single_symbol() for c in g]
                ms = [re.match(r"^(.*)\.jac_mat\[(\d+)\]\[(\d+)\]@(\d+)$", nm or "") for nm in names]
                if not all(ms):
                    bad = [str(c) for c, m in zip(g, ms) if not m]
                    if any(".jac_det" in b or "vol" in b for b in bad) or all(set(c.symbols()) and all("@" in x for x in c.symbols()) for c, m in zip(g, ms) if not m):
                        problems.append("phi[%s]: reference gradient at vertex %d is %s, not a row of the Jacobian matrix (the derivative dof is scaled by a quantity that is not dx/dxi)" % (slot_str(s), vi, [str(c) for c in g]))
                    else:
                        unknown.append("phi[%s]: reference gradient at vertex %d is %s" % (slot_str(s), vi, [str(c) for c in g]))
                    continue
                d = {int(m.group(2)) for m in ms}
                ks = [int(m.group(3)) for m in ms]
                ev = {int(m.group(4)) for m in ms}
                if len(d) != 1 or ks != list(range(dim)) or len(ev) != 1:
                    problems.append("phi[%s]: reference gradient at vertex %d is %s, not one row (jac_mat[d][0..%d]) of one Jacobian" % (slot_str(s), vi, names, dim - 1))
                    continue
                pt = point_of.get(list(ev)[0])
                if not affine:
                    if pt is None:
                        unknown.append("evaluation point of the Jacobian used by phi[%s] not recognised" % slot_str(s))
                    elif tuple(pt) != tuple(v):
                        problems.append("phi[%s] (derivative dof at vertex %d = %s) is scaled with the Jacobian evaluated at %s" % (slot_str(s), vi, tuple(map(str, v)), tuple(map(str, pt))))
        if not nderiv and not problems and not unknown:
            unknown.append("no basis function with a non-zero vertex gradient found")
        key = tag + inst
        if problems:
            ck.ob("E11.derivative-dof-scaling", key, False, "; ".join(problems[:3]), fp.file, fp.line)
        elif unknown:
            ck.incomplete("E11.derivative-dof-scaling", "%s: %s" % (key, "; ".join(unknown[:3])))
        else:
            ck.ob("E11.derivative-dof-scaling", key, True, "%d (function, vertex) pairs with a non-zero reference gradient: each is a row of the Jacobian at that vertex" % nderiv, fp.file, fp.line)


def check_nodal_duality(ck, facts, refcell, classes, np_values, layouts, tag):
    rule = "E11.nodal-duality"
    fam, sh = "Argyris", "Simplex<2>"
    inst = "%s/%s" % (fam, sh)
    meths = classes.get((fam, sh))
    if not meths or "prepare" not in meths or (fam, sh) not in np_values or (fam, sh) not in layouts:
        ck.incomplete(rule, "%s%s: evaluator prepare() / value list / DOF layout not established" % (tag, inst))
        return
    try:
        facts_n = featlib.extract("tu/c15_argyris.cpp", files=FILES)
    except (featlib.AnalysisBroken, OSError) as e:
        ck.incomplete(rule, "driver tu/c15_argyris.cpp: %s" % e)
        return
    ck.tu(facts_n)
    for e in facts_n.errors_outside_repo():
        ck.incomplete(rule, "driver tu/c15_argyris.cpp no longer matches the API: %s:%d %s" % (e["file"], e["line"], e["msg"]))
    nf = {}
    for f in facts_n.functions:
        m = re.match(r"^FEAT::Space::Argyris::NodeFunctional<.*, (\d), \w+>$", f.cls)
        if m and f.tk != "pattern" and f.name == "operator()":
            nf[int(m.group(1))] = f
    layout = layouts[(fam, sh)]
    value_of, fv, X = np_values[(fam, sh)]
    fp = meths["prepare"][0]
    n = len(layout)
    # --- monomial basis of the evaluation lists: value(phi_l) = sum_k coeff(l,k) m_k(x - barycentre) ----------------
    try:
        cname = None
        for sname in sorted(value_of[0].symbols()):
            mm = re.match(r"^this\.(\w+)\[0\]\[0\]$", sname)
            if mm:
                cname = mm.group(1)
        if cname is None:
            raise NotClosedForm("the value list is not of the form sum_k coeff(l,k) * m_k")
        mono = []
        for k in range(n):
            mk = value_of[0].diff("this.%s[0][%d]" % (cname, k))
            for l in (1, n - 1):
                if value_of[l].diff("this.%s[%d][%d]" % (cname, l, k)) != mk:
                    raise NotClosedForm("the value list uses different monomials for different basis functions")
            if mk.is_zero() or any(x.startswith("this." + cname) for x in mk.symbols()):
                raise NotClosedForm("basis function values are not linear in the coefficient matrix")
            mono.append(mk)
        bsyms = sorted({x for mk in mono for x in mk.symbols() if x not in X})
    except (NotClosedForm, KeyError) as e:
        ck.incomplete(rule, "%s%s: %s" % (tag, inst, e))
        return
    everts = refcell.face_verts(sh, 1)

    def functional(dim, geom):
        """linear form of NodeFunctional<dim>::operator() on concrete geometry: -> [ (point, {symbol: coefficient}) per ordinal ]"""
        f = nf.get(dim)
        if f is None:
            raise NotClosedForm("Argyris::NodeFunctional<%d>::operator() not instantiated" % dim)
        pts = []

        def model(sx, node, callee, this_loc, args, fn):
            nm = callee.rsplit("::", 1)[-1]
            if nm == "operator()" and "FEAT::Trafo::" in callee and len(args) == 2 and isinstance(args[0], Loc):
                t = [sx.num(args[1].child(i)).const_value() if isinstance(args[1], Loc) else None for i in range(dim)]
                img, jac = geom(t)
                for i, v in enumerate(img):
                    sx.store[(args[0].root, args[0].path + ("img_point", i))] = Poly.const(v)
                for i, row in enumerate(jac):
                    for j, v in enumerate(row):
                        sx.store[(args[0].root, args[0].path + ("jac_mat", i, j))] = Poly.const(v)
                return args[0]
            if nm in ("value", "gradient", "hessian") and "Analytic::" in callee and len(args) == 1:
                pts.append(tuple(sx.num(args[0].child(i)).const_value() for i in range(2)) if isinstance(args[0], Loc) else None)
                return Loc({"value": "FV", "gradient": "FG", "hessian": "FH"}[nm])
            return accessor_model(sx, node, callee, this_loc, args, fn)
        sx = SymEx([facts_n, facts], opaque=model, no_inline=r"^FEAT::Trafo::.*::operator\(\)$")
        sx.run(f, args=[Loc("ND"), Loc("FUN")])
        if not pts or any(p is None or p != pts[0] for p in pts):
            raise NotClosedForm("NodeFunctional<%d> evaluates the function at several / unknown points %s" % (dim, pts[:3]))
        out = []
        ents = sx.outputs("ND")
        for j in range(len(ents)):
            v = ents.get((j,))
            if not isinstance(v, Poly) or v.degree() > 1 or v.t.get((), 0) != 0:
                raise NotClosedForm("node_data[%d] = %s is not a linear form in the function's value / derivatives" % (j, v))
            out.append((pts[0], {mon[0][0]: cf for mon, cf in v.t.items()}))
        return out

    def apply(form, m, bary):
        """N(m) for the polynomial m in X (barycentre symbols substituted)"""
        pt, coef = form
        m = m.subs(dict(zip(bsyms, bary))) if bsyms else m
        at = dict(zip(X, pt))
        tot = Fraction(0)
        for sname, cf in coef.items():
            mm = re.match(r"^F([VGH])((?:\[\d\])*)$", sname)
            if not mm:
                raise NotClosedForm("node functional depends on %s" % sname)
            d = m
            for a in re.findall(r"\[(\d)\]", mm.group(2)):
                d = d.diff(X[int(a)])
            v = d.subs(at).const_value()
            if v is None:
                raise NotClosedForm("monomial does not evaluate to a number at the functional's point")
            tot += cf * v
        return tot

    triangles = [("ccw", [(Fraction(0), Fraction(0)), (Fraction(4), Fraction(0)), (Fraction(0), Fraction(3))]),
                 ("cw", [(Fraction(0), Fraction(0)), (Fraction(-4), Fraction(0)), (Fraction(0), Fraction(3))])]
    for tname, V in triangles:
        for code in (0, 1):
            inv = []

            def model(sx, node, callee, this_loc, args, fn):
                base = symex.strip_targs(callee)
                nm = callee.rsplit("::", 1)[-1]
                if node["k"] in ("Construct", "TempObj") and base == "FEAT::Geometry::Intern::SubIndexMapping::SubIndexMapping":
                    return this_loc
                if base == "FEAT::Geometry::Intern::SubIndexMapping::map" and len(args) == 2:
                    j = sx.num(args[1]).as_int()
                    return Poly.const(j if code == 0 else 1 - j)
                if nm == "map_point" and len(args) == 2 and isinstance(args[0], Loc) and isinstance(args[1], Loc):
                    d0, d1 = (sx.num(args[1].child(i)).const_value() for i in range(2))
                    if d0 is None or d1 is None:
                        raise NotClosedForm("map_point at a non-constant reference point")
                    for i in range(2):
                        sx.write(args[0].child(i), Poly.const(V[0][i] + d0 * (V[1][i] - V[0][i]) + d1 * (V[2][i] - V[0][i])))
                    return args[0]
                if nm == "set_inverse" and this_loc is not None and len(args) == 1 and isinstance(args[0], Loc):
                    inv.append((loc_name(this_loc), {p2: v for p2, v in sx.sub_entries(args[0])}))
                    return this_loc
                return accessor_model(sx, node, callee, this_loc, args, fn)
            try:
                sx = SymEx([facts], opaque=model, no_inline=r"::(map_point|set_inverse)$")
                sx.run(fp, args=[Loc("trafo_eval")])
                if len(inv) != 1 or inv[0][0] != "this." + cname:
                    raise NotClosedForm("the coefficient matrix %s of the evaluation lists is not set_inverse(<nodal matrix>) (%s)" % (cname, [x[0] for x in inv]))
                M = inv[0][1]
                bary = [sx.num(Loc("this", (b[5:].split("[")[0], int(re.search(r"\[(\d+)\]$", b).group(1))))).const_value() for b in bsyms]
                if any(b is None for b in bary):
                    raise NotClosedForm("shift %s of the monomial basis is not determined by prepare()" % bsyms)
                groups = {}
                for s2, (c, i, j) in enumerate(layout):
                    groups.setdefault((c, i), []).append((j, s2))
                for (c, i), dofs in sorted(groups.items()):
                    if c == 0:
                        if code == 1:
                            continue
                        key = "%s/%s/vertex%d" % (inst, tname, i)
                        forms = functional(0, lambda t, i=i: (V[i], []))
                    elif c == 1:
                        a, b = everts[i]
                        A, B = (V[a], V[b]) if code == 0 else (V[b], V[a])
                        key = "%s/%s/edge%d/%s" % (inst, tname, i, "same-orientation" if code == 0 else "reversed")
                        forms = functional(1, lambda t, A=A, B=B: ([A[x] + t[0] * (B[x] - A[x]) for x in range(2)], [[B[x] - A[x]] for x in range(2)]))
                    else:
                        raise NotClosedForm("dofs on entities of dimension %d" % c)
                    problems = []
                    for j, s2 in dofs:
                        if j >= len(forms):
                            problems.append("dof %d is ordinal %d of an entity whose node functional assigns %d dofs" % (s2, j, len(forms)))
                            continue
                        for k in range(n):
                            got = M.get((k, s2), Poly.const(0))
                            got = got.const_value() if isinstance(got, Poly) else None
                            want = apply(forms[j], mono[k], bary)
                            if got is None or got != want:
                                problems.append("nodal matrix entry (monomial %d = %s, dof %d) = %s, the node functional of dof %d (point %s, form %s) gives %s" % (
                                    k, mono[k], s2, got, s2, tuple(map(str, forms[j][0])), {a2: str(b2) for a2, b2 in forms[j][1].items()}, want))
                                break
                    ck.ob(rule, tag + key, not problems, "; ".join(problems[:2]) if problems else "%d columns = node functional applied to the %d monomials" % (len(dofs), n), fp.file, fp.line)
            except NotClosedForm as e:
                ck.incomplete(rule, "%s%s/%s/code%d: %s" % (tag, inst, tname, code, e))


def _tag_table(facts, enum):
    out = {}
    for f in facts.functions:
        if f.name != "inst_tags":
            continue
        for n in f.nodes():
            if n.get("k") == "Ref" and (n.get("qn") or "").startswith("FEAT::%s::" % enum) and "v" in n:
                out[n["qn"].rsplit("::", 1)[-1]] = int(n["v"])
    return out


def check_config_closure(ck, facts, tag):
    stags = _tag_table(facts, "SpaceTags")
    ttags = _tag_table(facts, "TrafoTags")
    if len(stags) < 6 or len(ttags) < 7:
        ck.incomplete("E1.param-config-closure", "%sSpaceTags/TrafoTags enumerators not found in the driver facts" % tag)
        return

    def decode(txt, table):
        txt = txt.strip()
        m = re.match(r"^\(FEAT::\w+\)(\d+)$", txt)
        if m:
            v = int(m.group(1))
        elif txt.rsplit("::", 1)[-1] in table:
            v = table[txt.rsplit("::", 1)[-1]]
        elif txt.rsplit("::", 1)[-1] == "none":
            v = 0
        else:
            return None
        return {k for k, b in table.items() if b and v & b}

    PRODUCER = {"eval_ref_values": "ref_value", "eval_ref_gradients": "ref_grad", "eval_ref_hessians": "ref_hess"}
    seen = set()
    for f in sorted(facts.functions, key=lambda f: f.full):
        if f.tk == "pattern" or f.name != "operator()" or not f.cls.startswith("FEAT::Space::ParametricEvaluator<"):
            continue
        m = re.match(r"^FEAT::Space::ParametricEvaluator<(FEAT::Space::\w+::Evaluator<.*?FEAT::Shape::\w+<\d>>), ", f.cls)
        targs = re.search(r"::operator\(\)<(.*), (.*)>$", f.full)
        if not m or not targs:
            continue
        fam, sh = family_of(m.group(1)), shape_of(m.group(1))
        scfg, tcfg = decode(targs.group(1), stags), decode(targs.group(2), ttags)
        if scfg is None or tcfg is None:
            ck.incomplete("E1.param-config-closure", "%s%s/%s: template arguments %s not decoded" % (tag, fam, sh, targs.groups()))
            continue
        key = "%s/%s/%s" % (fam, sh, "|".join(sorted(scfg)) or "none")
        if key in seen:
            continue
        seen.add(key)
        produced, consumed_t = set(), set()

        def model(sx, n, callee, this_loc, args, fn):
            nm = callee.rsplit("::", 1)[-1]
            if nm in PRODUCER and len(args) == 2:
                produced.add(PRODUCER[nm])
                if isinstance(args[1], Loc) and args[1].root == "P1" and args[1].path:
                    consumed_t.add(args[1].path[0])
                return Poly.const(0)
            return None
        sx = SymEx([facts], opaque=model, no_inline=r"::Evaluator<.*>::eval_ref_(values|gradients|hessians)$")
        try:
            sx.run(f)
        except NotClosedForm as e:
            ck.incomplete("E1.param-config-closure", "%s%s: %s" % (tag, key, e))
            continue
        out = sx.outputs("P0")
        written = {p[2] for p in out if len(p) >= 3 and p[0] == "phi"}
        consumed_s = set()
        for v in out.values():
            if not isinstance(v, Poly):
                continue
            for sname in v.symbols():
                ms = re.match(r"^P0\.phi\[\d+\]\.(\w+)", sname)
                mt = re.match(r"^P1\.(\w+)", sname)
                if ms:
                    consumed_s.add(ms.group(1))
                elif mt:
                    consumed_t.add(mt.group(1))
        avail_t = set(tcfg) | {"dom_point"}
        if avail_t & {"jac_det", "jac_inv", "hess_inv"}:
            avail_t.add("jac_mat")
        if "hess_inv" in avail_t:
            avail_t |= {"hess_ten", "jac_inv"}
        problems = []
        miss = sorted(consumed_s - produced)
        if miss:
            problems.append("the transformation reads %s of the basis data but no %s call is enabled for this configuration (enabled producers: %s)" % (miss, "/".join("eval_" + x for x in miss), sorted(produced) or "none"))
        unk = sorted(x for x in consumed_t if x not in ttags)
        misst = sorted(x for x in consumed_t if x in ttags and x not in avail_t)
        if misst:
            problems.append("the transformation reads trafo data %s which trafo_cfg = %s does not provide" % (misst, sorted(tcfg)))
        want_out = sorted(x for x in ("value", "grad", "hess") if x in scfg and x not in written)
        if want_out:
            problems.append("requested %s is never written" % want_out)
        if unk and not problems:
            ck.incomplete("E1.param-config-closure", "%s%s: unknown trafo data %s" % (tag, key, unk))
            continue
        ck.ob("E1.param-config-closure", tag + key, not problems, "; ".join(problems) if problems else "reads %s <= produced %s; trafo reads %s <= %s" % (sorted(consumed_s), sorted(produced), sorted(consumed_t), sorted(avail_t)), f.file, f.line)
