"""C02 — conversion, cloning, transposition and permutation preserve the matrix.

Decided clauses (static, on the resolved program of tu/c02_convert.cpp; nothing is executed):
  E1  role agreement of the dimension slots of Container::_scalar_index (size, rows, columns, used_elements, ...)
      in every constructor / convert / transpose that fills them, at every construction of a result matrix
      (constructor parameter names are the role slots), and at Arch::Transpose call sites; rows<->columns are
      swapped in transposing context on *every* exit, and two result constructions of one function must agree;
  E7  allocate/size pairing (shared with C20, lib/lafem_rules.pair_pushes);
  E13 the aliasing table of Container::clone per CloneMode equals the documented table next to the enum;
  E13 same-type convert shares, cross-type convert allocates and converts (Container::assign, both
      `if constexpr` branches for data and index type independently).
"""
import os
import re

import featlib
from featlib import Check, walk, render, is_call, rel
import lafem_rules as L
from lafem_rules import poly, pmul, pshow, psub, single_atom, poly_verdict, documented_clone_table, classify, targs, extracted_tables, cross_clone_rules

LAFEM = featlib.repo_path("kernel/lafem/")
FILES = LAFEM + "|" + featlib.repo_path("kernel/util/memory_pool") + "|/verif/tu/c0"
DRIVER = "tu/c02_convert.cpp"
ALT = ("-DC20_DT=float", "-DC20_IT=std::uint32_t", "-DC20_DT2=double", "-DC20_IT2=std::uint64_t")

DIM_ROLES = ("rows", "columns")
# roles with a format-independent meaning (comparable across classes); other slots (allocated_elements,
# alloc_increment, sorted, num_of_offsets, used_rows, ...) are class-specific and only matched by name
CORE_ROLES = {"rows", "columns", "used_elements", "size"}
# adjacency graph accessors, kernel/adjacency/graph.hpp: "domain" nodes index the rows, "image" nodes the
# columns of the sparsity pattern a matrix is built from (SparseMatrixCSR(const Adjacency::Graph&) doc)
GRAPH_ROLES = {"get_num_nodes_domain": "rows", "get_num_nodes_image": "columns", "get_num_indices": "used_elements"}

RULES = {
    "C02.E1.slot-role": (
        "slot k of _scalar_index (role = name of the class's own accessor returning _scalar_index.at(k)) is filled with a quantity "
        "of the same role: a like-named constructor parameter (rows_in -> rows), the like-named accessor of the source object, "
        "rows*columns for size; swapped rows<->columns in transpose. Broken -> any non-square matrix converts/constructs with "
        "exchanged or stale dimensions.", 100),
    "C02.E1.perspective": (
        "within one fill of _scalar_index all quantities taken from one source object use the same Perspective (pod vs native): "
        "BCSR->CSR must take rows<pod>, columns<pod>, used_elements<pod>. Broken -> any blocked matrix with block size > 1.", 5),
    "C02.E1.ctor-args": (
        "every construction of a result matrix passes to the constructor parameters rows_in/columns_in (the callee's declared names) "
        "quantities of the same role, swapped in transposing context (function transpose: this <- x^T, taken from x).", 19),
    "C02.E1.exit-agreement": (
        "all result constructions (exits) of one function agree on the rows/columns assignment, and in transpose every one of them "
        "is the swapped one. Broken (early-out for entry-free matrices keeps rows/columns) -> transpose of an entry-free m x n "
        "matrix is m x n.", 7),
    "C02.E1.transpose-kernel": (
        "Arch::Transpose::value(r, x, rows_x, columns_x) receives the row and column count of the very matrix whose array is in slot x.", 3),
    "C02.E2.ctor-array-extents": (
        "at every construction of a CSR-like result M(rows_in=R, ..., col_ind_in, val_in, row_ptr_in) from locally built DenseVector "
        "arrays, the row_ptr array was allocated with R+1 entries (row_ptr is defined on [0,rows]) and the value array with as many entries "
        "as the column-index array (times BlockHeight*BlockWidth for BCSR, entries_per_nonzero for mirror buffers); extents compared as "
        "polynomials over the source's accessors. Broken (e.g. transpose allocating rows(x)+1 instead of columns(x)+1) -> heap overrun / "
        "uninitialised row_ptr tail for every non-square matrix.", 16),
    "C02.E2.banded-offset": (
        "band-offset convention of SparseMatrixBanded (class documentation: bottom-left diagonal 0, main diagonal rows - 1): every linear "
        "expression or equality in banded code (the class, conversions from/to it, Arch::Apply::banded kernels) of the shape "
        "+-(D - 1) +- col +- row [+- offset] with exactly one matrix-dimension atom D states offset = col - row + D - 1, and D must be the "
        "row count - in the graph constructor, CSR->Banded (both passes), operator(), extract_diag, Banded->CSR and the kernels alike "
        "(sibling agreement). Broken (columns instead of rows) -> every rectangular matrix converts with shifted bands.", 9),
    "C02.alias-safe-transpose": (
        "Arch::Transpose::value_generic(r, x, rows_x, columns_x) is called with r == x (DenseMatrix::transpose_inplace passes this->elements() "
        "twice; transpose(x) with this == &x): on every path on which r may still alias x (the branch conditions do not imply r != x) a loop "
        "nest must not store r[f] and load x[g] with f != g as polynomials in the loop variables - the element written in one iteration is "
        "read in another one (r[j*rows+i] = x[i*cols+j] overwrites its own source whenever r == x, square or not); such loops must read "
        "from the temporary copy (decided by enumerating the index sequences for small shapes under r == x: an element stored through r and later "
        "loaded through x). Broken -> in-place transposition mirrors one triangle into the other.", 1),
    "C02.E1.transpose-shape": (
        "every normal exit of T::transpose(const T'& x) leaves *this with rows = x.columns() and columns = x.rows(): established on each path "
        "by moving in a result constructed with (rows_in <- x.columns(), columns_in <- x.rows()), by accessor assignments `_rows() = x.columns()`, "
        "or by a dominating equality test `rows() == x.columns() && columns() == x.rows()` (re-use of an array that already has the transposed "
        "shape). Broken (re-use decided on size() == x.size() alone) -> a re-used target of equal length keeps its old shape.", 8),
    "C02.E3.bucket-order": (
        "counting-sort fill (transpose): a store A[j] = v of the variable v of an enclosing loop into an index array, at a position j taken "
        "from a per-bucket cursor C[l] that the same loop body advances, writes the keys of one bucket at positions that move in the "
        "direction of the cursor update while the keys move in the direction of the loop over v: both directions must agree (forward fill "
        "++C[l] with ascending v, or back fill --C[l] with descending v), otherwise the column indices within each row of the result are "
        "descending. Broken -> unsorted column indices: element access and operator== of the transposed matrix fail for every column with "
        "two or more entries.", 2),
    "C02.alias-safe-members": (
        "a member f(const T& x) of T that hands this's and x's arrays to an alias-aware kernel (one that branches on its two pointer "
        "parameters being equal, i.e. the call with &x == this is provided for) and has no `this == &x` guard must itself be alias safe: no "
        "accessor of x that reads scalar slot k (rows(), columns(), size(), ...) or x's arrays may execute after this's slot k / arrays were "
        "written (accessor assignment `_rows() = ...`, _scalar_index update, move/clear/clone of *this) on any CFG path - with &x == this the "
        "read returns the new value. Broken -> a.transpose(a) of an m x n DenseMatrix yields wrong dimensions.", 2),
    "C02.E2.offset-store-unconditional": (
        "count/fill loop nests (E3): a store P[v + c] = ... into a locally held index array by the variable v of an enclosing counting loop "
        "(the per-row store of a row pointer, row_ptr[l + 1] = cursor) is needed for every iteration of that row loop whether or not the "
        "inner entry loops run. Inside the enclosing loops, a skip (continue / break / return / if around the row loop) is accepted only if "
        "its condition is the row loop's own emptiness (init >= bound); a skip whose condition is the emptiness of an *inner* (entry) loop "
        "bypasses the store for rows without entries. Broken -> uninitialised / non-monotone row pointers for matrices with empty rows.", 10),
    "C02.E2.local-array-index": (
        "conversion code that builds its result in local DenseVector arrays: a subscript `p[v + c]` of such an array (p = V.elements(), V "
        "constructed with extent E) by the variable of a counting loop `for(v = ..; v < B; ++v)` needs E - B - c >= 0 as polynomials over "
        "the function's size quantities; if E and B are different size quantities (nothing in the function makes them equal) the array is "
        "indexed by the wrong kind of index (e.g. a used-row-ordinal array indexed by the row number). Broken -> out-of-bounds access / "
        "wrong offsets for every matrix where the two quantities differ (matrices with empty rows).", 14),
    "C02.E2.cscr-row-kind": (
        "SparseMatrixCSCR accessor contracts (class documentation: _indices[1] row start index per non-empty row, _indices[2] row number of each "
        "non-empty row): row_ptr() and row_numbers() are subscripted by used-row ordinals only - never by an expression containing a row number "
        "(parameter named row, loop variable bounded by rows(), a value read from row_numbers()), and an ordinal (a variable compared with "
        "used_rows()) is compared with a row number only through row_numbers()[ordinal] (as operator() does). Broken -> heap overrun / wrong "
        "row for every CSCR matrix with empty rows.", 12),
    "C02.lockstep-moves": (
        "in-place sort / permutation of an index array that has a parallel value array (col_ind/val of CSR and BCSR permute, the key/value "
        "arrays of SparseVector's insertion sort): inside the innermost loop nest in which both arrays are rearranged in place, every "
        "statement list applies the same element moves to both arrays - a move A[f] = A[g], a save t = A[h] and a restore A[f] = t (t saved "
        "from A[h]) on one array is matched by the move / save / restore with the same positions f, g, h (compared as polynomials in the "
        "loop variables) on the other. Entry k of the value array belongs to entry k of the index array, so any position permutation applied "
        "to one must be applied to the other. Broken (keys shifted one by one, blocks exchanged once at the end) -> values end up under "
        "the wrong column index as soon as an entry travels two or more slots.", 4),
    "C02.swap-sequence-order": (
        "Adjacency::Permutation (kernel/adjacency/permutation.{hpp,cpp}; the row/column permutations of every permute()) represents a "
        "permutation as the product of the transpositions (k, swap[k]), k = 0 .. n-2.  Every loop that applies that sequence - its body "
        "exchanges X[a] and X[S[a]] for a position a that is affine in the loop variable - applies it front to back when it computes the "
        "permutation itself (apply(x, false), construction from a swap array) and back to front when it computes the inverse (apply(x, true), "
        "ConstrType::inv_swap): contexts are taken from the repository's own names (enumerator / parameter names beginning with inv). "
        "Broken (the inverse-swap constructor walking forwards) -> the 'inverse' is the permutation itself for every cycle of length >= 3, "
        "so permute(P) followed by permute(P_inv) does not restore the matrix.", 3),
    "C02.permute-role": (
        "permute(perm_row, perm_col) of the sparse matrices: the position array of each permutation parameter (P.get_perm_pos(), also of "
        "P.inverse() / a local copy of it) is subscripted only by indices of the parameter's own dimension - the row permutation by row "
        "numbers (a loop variable bounded by rows()), the column permutation by column numbers (values read from col_ind() or from an array "
        "filled from it, a loop variable bounded by columns()); roles of the parameters from their names (row / col). Broken (the inverse of "
        "perm_row used as the column lookup table) -> permute(pr, pc) behaves as permute(pr, pr); for rectangular matrices the new column "
        "indices are out of range.", 4),
    "C02.size-pairing": (
        "every array pushed into _elements/_indices is paired, in order, with a push of the same extent into _elements_size/"
        "_indices_size; at every exit the size vector has exactly as many entries as its pointer vector (symbolic lengths through "
        "clear/assign/move/push, shared interpreter with C20); a re-seated slot V.at(k) = allocate_memory(E) gets V_size.at(k) = E. "
        "Broken -> clone(Deep/Weak), cross-type convert, format, copy work on a wrong number of entries (e.g. after rebuilding a matrix "
        "from a layout with another number of non-zeros).", 300),
    "C02.clone-table": (
        "for each CloneMode the arrays of Container::clone's result alias the source exactly as documented at the enum "
        "(kernel/lafem/base.hpp): Shallow share/share, Layout share/fresh, Weak share/fresh+copy, Deep copy/copy, Allocate fresh/fresh; "
        "'shared' always with the increase_memory loop, 'copy' = MemoryPool::copy of the like-indexed source array with the "
        "recorded extent. Broken -> weak/deep clones not value-independent, or shallow clones not aliasing.", 5),
    "C02.clone-cross-type": (
        "every clone overload of every container class - the templated Container::clone(const Container<DT2,IT2>&, mode), T::clone(const T<DT2,IT2>&, mode) "
        "of the derived classes and the value-returning T::clone(mode) const - is evaluated symbolically per clone mode and per (data type same/different) x "
        "(index type same/different) instantiation: calls are composed from the extracted sharing table of Container::assign, the extracted aliasing table "
        "of the same-type Container::clone and move; any other member that receives the source (T::convert(other), helpers) is followed into its body. "
        "Whenever the enum documentation promises freshly allocated arrays (data arrays for Layout, Weak, Deep, Allocate; index arrays for Deep, Allocate) "
        "the result must not alias the source. Broken (a cross-type clone that delegates to convert/assign, which share the arrays of the unchanged type; "
        "adopting the conversion temporary) -> a deep/weak clone across index types aliases the source's values.", 400),
    "C02.convert-sharing": (
        "Container::assign (same-container-kind convert): arrays of an equal data (index) type are shared with the source "
        "(+increase_memory), arrays of a different type are freshly allocated and filled by MemoryPool::convert from the like-indexed "
        "source array. Decided per instantiation (DT same/different x IT same/different).", 8),
}


def declare(ck):
    for r, (doc, mi) in RULES.items():
        ck.rule(r, doc, min_instances=mi)


# -------------------------------------------------------------------------------------------------
# E1: roles
# -------------------------------------------------------------------------------------------------

def slot_roles(fam):
    """class -> {slot index -> set(role names)} from the accessors `return _scalar_index.at(K) [* Block..]`"""
    tab = {}
    for fn in fam.functions():
        if fn.params or fn.d.get("ctor") or fn.d.get("dtor") or fn.body is None:
            continue
        rets = [n for n in walk(fn.body) if n.get("k") == "Return" and n.get("e") is not None]
        stm = [s for s in (fn.body.get("s") or [])]
        if not rets:
            continue
        slots = set()
        for r in rets:
            for x in walk(r["e"]):
                if x.get("k") == "MCall" and x.get("n") in ("at", "operator[]") and x.get("obj", {}).get("k") == "Member" \
                        and L.SCAL_RE.search(x["obj"].get("qn", "")) and L.obj_id(x["obj"].get("b")) == "this" \
                        and x.get("a") and L.unwrap(x["a"][0]).get("k") == "Int":
                    slots.add(int(L.unwrap(x["a"][0])["v"]))
        if len(slots) != 1:
            continue
        # accessor-like: at most an if(size>0) wrapper (Container::size) around the return
        if any(s.get("k") not in ("Return", "If") for s in stm):
            continue
        name = fn.name.lstrip("_")
        tab.setdefault(L.short(fn.cls), {}).setdefault(next(iter(slots)), set()).add(name)
    for c in tab:
        tab[c].setdefault(0, set()).add("size")
    return tab


class Role:
    def __init__(self, name, obj=None, persp=None, text=""):
        self.name, self.obj, self.persp, self.text = name, obj, persp, text

    def __repr__(self):
        return "%s%s%s" % (self.name, "(%s)" % self.obj.split("#")[0] if self.obj else "", "<%s>" % self.persp if self.persp else "")


def role_of(it, e, depth=0, bind=None):
    """role of an expression (see module doc); None if unknown.  bind: {parameter decl id: (caller's interp, argument)} when e
    is an expression of a helper that is read in the context of one of its call sites"""
    e = L.unwrap(e)
    k = e.get("k")
    if depth > 8:
        return None
    if k == "Int":
        return Role("zero") if e["v"] == "0" else None
    if k in ("Construct", "TempObj") and len(e.get("a", [])) == 1:
        return role_of(it, e["a"][0], depth + 1, bind)
    if k == "Ref" and e.get("dk") == "param" and bind and e.get("d") in bind:
        cit, arg = bind[e["d"]]
        return role_of(cit, arg, depth + 1)
    if k == "Ref" and e.get("dk") == "param":
        n = e["n"]
        if n.endswith("_in"):
            return Role(n[:-3], "param", None, n)
        return None
    if k == "Ref" and e.get("dk") == "local":
        d = it.localdefs.get(e["d"])
        if d is not None and not it.reassigned(e["d"]):
            return role_of(it, d, depth + 1, bind)
        return None
    if k == "MCall":
        nm = e.get("n", "")
        o = L.obj_id(e.get("obj")) if e.get("obj") is not None else "this"
        if bind and e.get("obj") is not None:
            ob0 = L.unwrap(e["obj"])
            if ob0.get("k") == "Ref" and ob0.get("dk") == "param" and ob0.get("d") in bind:
                o = L.obj_id(bind[ob0["d"]][1])         # the caller's object the helper's parameter stands for
        cf = e.get("cfull", "")
        m = re.search(r"<(.*Perspective::(\w+).*)>$", cf)
        persp = m.group(2) if m else None
        if nm in GRAPH_ROLES and "Adjacency::Graph" in e.get("ccls", ""):
            return Role(GRAPH_ROLES[nm], o, None, render(e))
        if nm in ("at", "operator[]") and e.get("obj", {}).get("k") == "Member" and L.SCAL_RE.search(e["obj"].get("qn", "")):
            # raw slot read of another container/layout: role by slot number is resolved by the caller
            return None
        if e.get("a"):
            return None
        if o is None:
            return None
        return Role(nm.lstrip("_"), o, persp, render(e))
    if k == "Bin" and e.get("op") == "*":
        a, b = role_of(it, e["lhs"], depth + 1, bind), role_of(it, e["rhs"], depth + 1, bind)
        if a and b and {a.name, b.name} == set(DIM_ROLES) and a.obj == b.obj and a.persp == b.persp:
            return Role("size", a.obj, a.persp, render(e))
        return None
    return None


def swap(name):
    return {"rows": "columns", "columns": "rows"}.get(name, name)


def e1_rules(ck, fam, roles_tab, seen_fail):
    for fn in fam.functions():
        cls = L.short(fn.cls)
        if cls not in roles_tab or fn.body is None:
            continue
        it = L.Interp(fam, fn)
        key = L.fkey(fn)
        transposing = fn.name == "transpose"
        src = None
        if transposing and fn.params:
            src = "%s#%s" % (fn.params[0]["n"], fn.params[0]["d"])
        allroles = set().union(*roles_tab[cls].values())

        def ob(rule, sub, ok, det, line, trivial=False):
            if not ok:
                if (rule, key, sub) in seen_fail:
                    return
                seen_fail.add((rule, key, sub))
            ck.ob(rule, "%s/%s" % (key, sub), ok, det, fn.file, line, trivial=trivial,
                  sample={"function": fn.full, "instance": sub, "detail": det})

        # ---- (a) fills of this->_scalar_index --------------------------------------------------
        fills = []          # (slot, expr node)

        def is_scal_push(s):
            return s.get("k") == "MCall" and s.get("n") in ("push_back", "emplace_back") and len(s.get("a") or []) == 1 and s.get("obj", {}).get("k") == "Member" \
                and L.SCAL_RE.search(s["obj"].get("qn", "")) and L.obj_id(s["obj"].get("b")) == "this"

        def is_this_scal(e):
            e = L.unwrap(e) if e is not None else {}
            return e.get("k") == "Member" and L.SCAL_RE.search(e.get("qn", "")) and L.obj_id(e.get("b")) == "this"

        def init_list(e):
            e = L.unwrap(e) if e is not None else {}
            if e.get("k") == "StdInitList":
                e = L.unwrap(e.get("e") or {})
            while e.get("k") in ("Construct", "TempObj") and len(e.get("a", [])) == 1 and "initializer_list" in str(e.get("ccls", "")):
                e = L.unwrap(e["a"][0])
                if e.get("k") == "StdInitList":
                    e = L.unwrap(e.get("e") or {})
            return e.get("a") or [] if e.get("k") == "InitList" else None

        def scal_list_fill(s):
            """(resets the list?, [expressions]) for the brace-list forms of the fill:
            _scalar_index = {a, b, c};  _scalar_index.assign({a, b, c});  _scalar_index.insert(_scalar_index.end(), {a, b, c});"""
            if s.get("k") == "OpCall" and s.get("op") == "=" and len(s.get("a") or []) == 2 and is_this_scal(s["a"][0]):
                il = init_list(s["a"][1])
                return (True, il) if il is not None else None
            if s.get("k") == "MCall" and is_this_scal(s.get("obj")):
                a = s.get("a") or []
                if s.get("n") == "assign" and len(a) == 1:
                    il = init_list(a[0])
                    return (True, il) if il is not None else None
                if s.get("n") == "insert" and len(a) == 2:
                    il = init_list(a[1])
                    at_end = any(x.get("k") == "MCall" and x.get("n") in ("end", "cend") and is_this_scal(x.get("obj")) for x in walk(a[0]))
                    return (False, il) if il is not None and at_end else None
            return None

        def is_reset(s):
            if s.get("k") != "MCall":
                return False
            if s.get("n") == "clear" and L.short(s.get("ccls", "")) in fam.classes and L.obj_id(s.get("obj")) == "this":
                return True
            return s.get("n") == "clear" and s.get("obj", {}).get("k") == "Member" and L.SCAL_RE.search(s["obj"].get("qn", "")) \
                and L.obj_id(s["obj"].get("b")) == "this"

        def helper_pushes(callee, depth=0):
            """the unconditional top-level `_scalar_index.push_back(E)` statements of a helper of this class, in order
            (nested helpers followed); None if it pushes under a condition / in a loop / resets the list"""
            out = []
            body = callee.body or {}
            for s_ in (body.get("s", []) if body.get("k") == "Block" else [body]):
                if is_reset(s_):
                    return None
                if is_scal_push(s_):
                    out.append((s_, callee, {}))
                    continue
                sub = helper_of(callee, s_) if depth < 2 else None
                if sub is not None:
                    inner = helper_pushes(sub, depth + 1)
                    if inner is None:
                        return None
                    b2 = {p_["d"]: a_ for p_, a_ in zip(sub.params, s_.get("a") or [])}
                    out.extend((ps, pc, dict(pb, **{"via": (callee, b2)}) if not pb else pb) for ps, pc, pb in inner)
                    continue
                if any(is_scal_push(x) or is_reset(x) for x in walk(s_)):
                    return None
            return out

        def helper_of(caller, s_):
            """the family member (same object, non-virtual) a statement calls, if that member pushes into _scalar_index"""
            if s_.get("k") != "MCall" or L.short(s_.get("ccls", "")) not in fam.classes or s_.get("cstatic"):
                return None
            if not (s_.get("obj") is None or L.obj_id(s_.get("obj")) == "this"):
                return None
            callee = fam.callee_fn(caller, s_)
            if callee is None or callee is caller or callee.body is None or callee.d.get("virtual") or callee.d.get("ctor"):
                return None
            if not any(is_scal_push(x) for x in walk(callee.body)):
                return None
            return callee

        def scan(stmts, slot):
            for s in stmts:
                k = s.get("k")
                hp = helper_of(fn, s)
                if hp is not None:
                    # pushes extracted into a helper (`_set_dimensions(rows, columns, nnz)`): read them at this call site
                    pushes = helper_pushes(hp)
                    if pushes is None and any(is_reset(x) for x in walk(hp.body)):
                        # a self-contained member (convert, read_from, ...): it resets the list and fills it itself; its own
                        # fills are checked in its own body
                        slot = None
                        continue
                    if pushes is None or slot is None or any("via" in pb for _, _, pb in pushes):
                        if pushes is None or slot is None:
                            ck.incomplete("C02.E1.slot-role", "%s (%s): %s() fills _scalar_index %s (line %s)" % (
                                key, fn.loc, hp.name, "under conditions the check does not follow" if pushes is None else "at an unknown slot position", s.get("l")))
                        else:
                            ck.incomplete("C02.E1.slot-role", "%s (%s): %s() fills _scalar_index through a second helper level (line %s)" % (key, fn.loc, hp.name, s.get("l")))
                        slot = None
                        continue
                    with L._alias_scope():
                        hit = L.Interp(fam, hp)
                    bind = {p_["d"]: (it, a_) for p_, a_ in zip(hp.params, s.get("a") or [])}
                    for ps, _, _ in pushes:
                        fills.append((slot, ps["a"][0], s.get("l"), (hit, bind)))
                        slot += 1
                    continue
                lf = scal_list_fill(s)
                if lf is not None:
                    if lf[0]:
                        slot = 0
                    if slot is None:
                        ck.incomplete("C02.E1.slot-role", "%s (%s): brace-list appended to _scalar_index at an unknown slot position (line %s)" % (key, fn.loc, s.get("l")))
                    else:
                        for e_ in lf[1]:
                            fills.append((slot, e_, s.get("l"), None))
                            slot += 1
                    continue
                if is_reset(s):
                    slot = 0
                elif is_scal_push(s):
                    if slot is None:
                        if not fn.d.get("ctor") and fam.called_on_this(fn) and helper_pushes(fn) is not None:
                            pass          # a helper: its pushes are read at its call sites, where the slot position is known
                        else:
                            ck.incomplete("C02.E1.slot-role", "%s (%s): push into _scalar_index at an unknown slot position (line %s)" % (key, fn.loc, s.get("l")))
                    else:
                        fills.append((slot, s["a"][0], s.get("l"), None))
                        slot += 1
                elif k == "Block":
                    slot = scan(s.get("s", []), slot)
                elif k in ("If", "For", "While", "Do", "ForRange", "Switch", "Case", "Default", "Try"):
                    inner = [c for c in featlib.children(s) if c.get("k") in ("Block", "Case", "Default", "If", "MCall", "Switch")]
                    had = len(fills)
                    for c in inner:
                        scan([c], slot)
                    if len(fills) != had:
                        slot = None if k != "Case" and k != "Default" else None
            return slot

        start = None
        if fn.d.get("ctor") and cls == "Container" and not any(i.get("base") for i in fn.d.get("inits") or []) and fn.params and fn.params[0]["n"] == "size_in":
            start = 0
        if fn.d.get("ctor"):
            for i in fn.d.get("inits") or []:
                init = i.get("init") or {}
                if i.get("base") and str(init.get("ccls", "")).startswith("FEAT::LAFEM::Container<") and init.get("pn") == ["size_in"]:
                    start = 1
                    r = role_of(it, init["a"][0]) if init.get("a") else None
                    e = init["a"][0] if init.get("a") else None
                    if e is not None and L.unwrap(e).get("k") == "MCall" and L.unwrap(e).get("n") == "at" and "_scalar_index" in render(L.unwrap(e).get("obj")) \
                            and L.unwrap(L.unwrap(e)["a"][0]).get("k") == "Int":
                        k0 = int(L.unwrap(L.unwrap(e)["a"][0])["v"])
                        ob("C02.E1.slot-role", "base-size", k0 == 0, "container size (slot 0) initialised from slot %d of %s" % (k0, render(L.unwrap(e).get("obj"))), i.get("l"))
                    elif r is None:
                        ob("C02.E1.slot-role", "base-size", True, "size initialiser %s: role not derivable" % render(e)[:60], i.get("l"), trivial=True)
                    else:
                        ok = r.name in ("size", "zero") or (r.name in allroles and r.name in roles_tab[cls].get(0, ()))
                        ob("C02.E1.slot-role", "base-size", ok, "container size (slot 0) initialised with %r (%s)" % (r, r.text or render(e)[:60]), i.get("l"))
        scan(fn.body.get("s", []) if fn.body.get("k") == "Block" else [fn.body], start)

        persp_by_obj = {}
        for slot, e, line, ctx in fills:
            want = roles_tab[cls].get(slot)
            r = role_of(it, e) if ctx is None else role_of(ctx[0], e, 0, ctx[1])
            if want is None:
                ob("C02.E1.slot-role", "slot%d" % slot, True, "slot %d of %s has no accessor naming its role" % (slot, cls), line, trivial=True)
                continue
            if r is None:
                ob("C02.E1.slot-role", "slot%d" % slot, True, "slot %d (%s) <- %s: role not derivable" % (slot, "/".join(sorted(want)), render(e)[:60]), line, trivial=True)
                continue
            if r.obj and r.obj != "param" and r.persp is not None or (r.obj and r.obj not in ("param", "this") and r.name in allroles):
                persp_by_obj.setdefault(r.obj, set()).add((r.persp or "native", slot))
            if r.name == "zero":
                ob("C02.E1.slot-role", "slot%d" % slot, True, "slot %d (%s) <- 0" % (slot, "/".join(sorted(want))), line)
                continue
            exp = {swap(w) for w in want} if transposing else want
            if r.name in exp:
                ob("C02.E1.slot-role", "slot%d" % slot, True, "slot %d (%s) <- %r" % (slot, "/".join(sorted(want)), r), line)
            elif (r.name in CORE_ROLES and want & CORE_ROLES and r.name != "size") or (slot == 0 and r.name in CORE_ROLES):
                ob("C02.E1.slot-role", "slot%d" % slot, False,
                   "slot %d of _scalar_index has role %s (accessor of %s) but receives %r (%s)" % (slot, "/".join(sorted(want)), cls, r, r.text), line)
            else:
                ob("C02.E1.slot-role", "slot%d" % slot, True, "slot %d (%s) <- %r: foreign role name, not comparable" % (slot, "/".join(sorted(want)), r), line, trivial=True)
        for o, ps in persp_by_obj.items():
            kinds = {p for p, _ in ps}
            if len(ps) >= 2:
                ob("C02.E1.perspective", "fill/%s" % o.split("#")[0], len(kinds) == 1,
                   "quantities taken from %s for slots %s use perspectives %s" % (o.split("#")[0], sorted(s for _, s in ps), sorted(kinds)), fills[0][2])

        # ---- (e) accessor assignments  this->_rows() = expr --------------------------------------
        for n in fn.nodes():
            if n.get("k") == "Assign" and n.get("op") == "=":
                l = L.unwrap(n["lhs"])
                if l.get("k") == "MCall" and not l.get("a") and L.obj_id(l.get("obj")) == "this" and l.get("n", "").startswith("_") \
                        and l["n"].lstrip("_") in allroles and L.short(l.get("ccls", "")) in fam.classes:
                    want = l["n"].lstrip("_")
                    r = role_of(it, n["rhs"])
                    if r is None or r.name not in CORE_ROLES | {"zero"} or want not in CORE_ROLES:
                        ob("C02.E1.slot-role", "set-%s" % want, True, "%s() = %s: role not derivable" % (l["n"], render(n["rhs"])[:60]), n.get("l"), trivial=True)
                        continue
                    inplace_t = fn.name.startswith("transpose")
                    exp = swap(want) if inplace_t else want
                    ok = r.name in (exp, "zero") or (want == "size" and r.name == "size")
                    ob("C02.E1.slot-role", "set-%s" % want, ok, "%s() <- %r%s" % (l["n"], r, " (transposing)" if inplace_t else ""), n.get("l"))

        # ---- (c) result constructions -------------------------------------------------------------
        sites = []
        nsite = 0
        for n in fn.nodes():
            if n.get("k") in ("Construct", "TempObj") and L.short(n.get("ccls", "")) in fam.classes and n.get("pn") \
                    and "rows_in" in n["pn"] and "columns_in" in n["pn"]:
                got = {}
                for p, a in zip(n["pn"], n.get("a") or []):
                    if p.endswith("_in") and p[:-3] in ("rows", "columns", "used_elements", "used_rows", "size"):
                        got[p[:-3]] = (role_of(it, a), a)
                rr, rc = got["rows"][0], got["columns"][0]
                cl = "unknown"
                if rr and rc and rr.name in DIM_ROLES and rc.name in DIM_ROLES:
                    cl = "plain" if (rr.name, rc.name) == ("rows", "columns") else "swapped" if (rr.name, rc.name) == ("columns", "rows") else "degenerate"
                sub = "ctor%d:%s" % (nsite, L.short(n["ccls"]))
                nsite += 1
                sites.append((cl, n))
                # rows_in / columns_in jointly (one instance per construction), other role parameters one by one
                want_cl = "swapped" if transposing else "plain"
                if cl == "unknown":
                    zero = all(r is not None and r.name == "zero" for r in (rr, rc))
                    ob("C02.E1.ctor-args", "%s/dims" % sub, True, "(rows_in, columns_in) <- (%s, %s): %s" % (
                        render(got["rows"][1])[:40], render(got["columns"][1])[:40], "both zero" if zero else "roles not derivable"), n.get("l"), trivial=not zero)
                else:
                    ok = cl == want_cl
                    det = "%s(rows_in <- %r, columns_in <- %r)%s" % (L.short(n["ccls"]), rr, rc, " in transposing context (this <- %s^T)" % fn.params[0]["n"] if transposing else "")
                    if ok and transposing and not (rr.obj == src and rc.obj == src):
                        ok = False
                        det += ": the dimensions are not taken from the matrix being transposed"
                    elif not ok and transposing:
                        det += ": rows/columns of the source are not swapped on this exit"
                    elif not ok:
                        det += ": rows and columns are exchanged (or both of one kind)"
                    ob("C02.E1.ctor-args", "%s/dims" % sub, ok, det, n.get("l"))
                for pr, (r, a) in sorted(got.items()):
                    if pr in DIM_ROLES:
                        continue
                    if r is None or r.name not in CORE_ROLES | {"zero"} or pr not in CORE_ROLES:
                        ob("C02.E1.ctor-args", "%s/%s_in" % (sub, pr), True, "%s_in <- %s: role not derivable" % (pr, render(a)[:60]), n.get("l"), trivial=True)
                        continue
                    ok = r.name in (pr, "zero")
                    ob("C02.E1.ctor-args", "%s/%s_in" % (sub, pr), ok, "%s(%s_in <- %r = %s)" % (L.short(n["ccls"]), pr, r, r.text), n.get("l"))
        known = [c for c, _ in sites if c in ("plain", "swapped")]
        if len(sites) >= 2 or (transposing and sites):
            agree = len(set(known)) <= 1
            ob("C02.E1.exit-agreement", "result-constructions", agree,
               "%d result constructions with rows/columns assignments %s%s" % (len(sites), [c for c, _ in sites],
               "" if agree else ": two exits of one function construct the result with different role assignments - one of them is wrong whichever is intended"),
               sites[0][1].get("l"))

        # ---- (d) Arch::Transpose kernel -------------------------------------------------------------
        for c in fn.calls(callee_re=r"Arch::Transpose::value$"):
            pn = c.get("pn") or []
            args = dict(zip(pn, c.get("a") or []))
            if not {"x", "rows_x", "columns_x"} <= set(args):
                ck.incomplete("C02.E1.transpose-kernel", "%s: Arch::Transpose::value with parameters %s" % (key, pn))
                continue
            xe = L.unwrap(args["x"])
            xo = L.obj_id(xe.get("obj")) if xe.get("k") == "MCall" and xe.get("obj") is not None else ("this" if xe.get("k") == "MCall" else None)
            rr, rc = role_of(it, args["rows_x"]), role_of(it, args["columns_x"])
            if not (rr and rc and rr.name in DIM_ROLES and rc.name in DIM_ROLES and xo is not None and rr.obj and rc.obj):
                ob("C02.E1.transpose-kernel", "Transpose::value", True,
                   "x = %s, rows_x <- %s, columns_x <- %s: roles not derivable" % (render(xe)[:40], render(args["rows_x"])[:30], render(args["columns_x"])[:30]), c.get("l"), trivial=True)
                continue
            ok = rr.name == "rows" and rc.name == "columns" and rr.obj == xo and rc.obj == xo
            ob("C02.E1.transpose-kernel", "Transpose::value", ok,
               "x = %s, rows_x <- %r, columns_x <- %r" % (render(xe)[:40], rr, rc), c.get("l"))


# -------------------------------------------------------------------------------------------------
# E2 (light): extents of the arrays handed to result constructors
# -------------------------------------------------------------------------------------------------

def extent_rules(ck, fam, seen_fail):
    for fn in fam.functions():
        it = None
        key = L.fkey(fn)
        nsite = 0
        for n in fn.nodes():
            if not (n.get("k") in ("Construct", "TempObj") and L.short(n.get("ccls", "")) in fam.classes and "row_ptr_in" in (n.get("pn") or [])):
                continue
            if it is None:
                it = L.Interp(fam, fn)
            args = dict(zip(n["pn"], n.get("a") or []))
            sub = "ctor%d:%s" % (nsite, L.short(n["ccls"]))
            nsite += 1

            def ext_of(a):
                a0 = L.unwrap(a)
                if a0.get("k") == "Ref" and a0.get("dk") == "local":
                    d = it.localdefs.get(a0["d"])
                    if d is not None and d.get("k") in ("Construct", "TempObj") and L.short(d.get("ccls", "")) == "DenseVector" and d.get("a") \
                            and (d.get("pn") or [""])[0] == "size_in" and not it.reassigned(a0["d"]):
                        return poly(it, d["a"][0])
                return None

            def ob(what, ok, det, trivial=False):
                if not ok:
                    if ("C02.E2.ctor-array-extents", key, sub + what) in seen_fail:
                        return
                    seen_fail.add(("C02.E2.ctor-array-extents", key, sub + what))
                ck.ob("C02.E2.ctor-array-extents", "%s/%s/%s" % (key, sub, what), ok, det, fn.file, n.get("l"), trivial=trivial,
                      sample={"function": fn.full, "site": sub, "detail": det})

            erp = ext_of(args["row_ptr_in"])
            if "row_numbers_in" in args:
                base = ext_of(args["row_numbers_in"])
                base_txt = "extent of row_numbers_in"
            else:
                base = poly(it, args["rows_in"]) if "rows_in" in args else None
                base_txt = "rows_in"
            if erp is None or base is None:
                ob("row_ptr", True, "row_ptr_in <- %s: extent not derivable from a local DenseVector(size)" % render(args["row_ptr_in"])[:40], trivial=True)
            else:
                want = dict(base)
                want[()] = want.get((), 0) + 1
                want = {m: c for m, c in want.items() if c}
                v = poly_verdict(erp, want)
                det = "row_ptr_in array allocated with %s entries; %s + 1 = %s" % (pshow(erp), base_txt, pshow(want))
                if v == "unknown":
                    ob("row_ptr", True, "undecided: " + det + " (quantities of different objects)", trivial=True)
                else:
                    ob("row_ptr", v == "eq", det)
            eci, ev = ext_of(args.get("col_ind_in", {})) if "col_ind_in" in args else None, ext_of(args.get("val_in", {})) if "val_in" in args else None
            if eci is None or ev is None:
                ob("val", True, "col_ind_in/val_in: extents not derivable", trivial=True)
            else:
                factor = {(): 1}
                ta = targs(n.get("ccls", ""))
                cls = L.short(n["ccls"])
                if cls == "SparseMatrixBCSR" and len(ta) == 4 and ta[2].isdigit() and ta[3].isdigit():
                    factor = {(): int(ta[2]) * int(ta[3])}
                elif cls == "MatrixMirrorBuffer" and "entries_per_nonzero_in" in args:
                    factor = poly(it, args["entries_per_nonzero_in"])
                want = {}
                for m1, c1 in eci.items():
                    for m2, c2 in factor.items():
                        m = tuple(sorted(m1 + m2))
                        want[m] = want.get(m, 0) + c1 * c2
                want = {m: c for m, c in want.items() if c}
                v = poly_verdict(ev, want)
                det = "val_in array allocated with %s entries; col_ind_in has %s entries, entries per non-zero %s" % (pshow(ev), pshow(eci), pshow(factor))
                if v == "unknown":
                    ob("val", True, "undecided: " + det + " (quantities of different objects)", trivial=True)
                else:
                    ob("val", v == "eq", det)


# -------------------------------------------------------------------------------------------------
# alias safety of the transpose kernel
# -------------------------------------------------------------------------------------------------

class _NoEval(Exception):
    pass


def alias_kernel_rules(ck, fam, facts, seen_fail):
    """Arch::Transpose::value_generic under r == x, decided by enumerating the index sequences of its loop nests for a few
    small shapes (the loop bounds, branch conditions and subscripts are evaluated as integer expressions of rows_x /
    columns_x / the loop variables; no FEAT3 code is executed): with r == x, a loop nest that stores through r and loads
    through the const source x is wrong iff some address is stored in one iteration and loaded through x in a later one
    (the out-of-place semantics it has for r != x would read the original value)."""
    kernels = [f for f in facts.functions if f.qn.endswith("Arch::Transpose::value_generic") and f.body is not None and f.tk in ("inst", "plain", "spec")]
    if not kernels:
        ck.incomplete("C02.alias-safe-transpose", "Arch::Transpose::value_generic is not instantiated in %s" % facts.tu)
        return
    evidence = []
    for fn in facts.functions:
        if fn.body is None:
            continue
        for c in fn.calls(callee_re=r"Arch::Transpose::value(_generic)?$"):
            args = dict(zip(c.get("pn") or [], c.get("a") or []))
            if "r" in args and "x" in args and render(L.unwrap(args["r"])) == render(L.unwrap(args["x"])) and L.unwrap(args["r"]).get("dk") != "param":
                evidence.append("%s (%s:%s)" % (L.short(fn.qn), rel(fn.file), c.get("l")))
    if not evidence:
        ck.note("C02.alias-safe-transpose: no call site passes the same array for r and x any more; the kernel is not required to be alias safe")
        return
    SHAPES = [(1, 1), (2, 2), (2, 3), (3, 2), (3, 3), (1, 4), (4, 1)]
    by_decl = {f.d.get("decl"): f for f in facts.functions if f.body is not None}
    for fn in kernels:
        names = [p["n"] for p in fn.params]
        if names[:2] != ["r", "x"] or len(names) < 4:
            ck.incomplete("C02.alias-safe-transpose", "%s: parameters (r, x, rows, columns) not found" % fn.full)
            continue
        dr, dx = fn.params[0]["d"], fn.params[1]["d"]
        key = L.fkey(fn)
        problems, hazards, nchecked = [], [], 0
        loop_ids = {}
        for (R, C) in SHAPES:
            # values: integers, or pointers ("ptr", array tag, offset, view).  Under r == x both parameters point at element 0 of
            # the one array "A"; the view records through which of the two names (or a pointer derived from it) it is accessed:
            # x is the source (const), r the destination
            env = {fn.params[2]["d"]: R, fn.params[3]["d"]: C, dr: ("ptr", "A", 0, "r"), dx: ("ptr", "A", 0, "x")}
            written = {}                 # address in A -> loop ordinal that stored it
            steps = [0]
            nbuf = [0]

            class _Ret(Exception):
                pass

            def isptr(v):
                return isinstance(v, tuple) and v and v[0] == "ptr"

            def ev(e, env):
                e = L.unwrap(e)
                k = e.get("k")
                if k == "Int":
                    return int(e["v"])
                if k == "Bool":
                    return bool(e["v"])
                if k == "SizeOf" and e.get("v") is not None:
                    return int(e["v"])
                if k in ("Construct", "TempObj", "Cast") and (len(e.get("a", [])) == 1 or e.get("e") is not None):
                    return ev(e["a"][0] if e.get("a") else e["e"], env)
                if k == "New":
                    nbuf[0] += 1
                    return ("ptr", "T%d" % nbuf[0], 0, "t")
                if k == "Ref":
                    if e.get("d") in env:
                        return env[e["d"]]
                    raise _NoEval(render(e))
                if k == "Un" and e.get("op") == "!":
                    return not ev(e["e"], env)
                if k == "Un" and e.get("op") == "-":
                    return -ev(e["e"], env)
                if k == "Un" and e.get("op") == "&" and L.unwrap(e["e"]).get("k") == "Index":
                    x0 = L.unwrap(e["e"])
                    b_, i_ = ev(x0["b"], env), ev(x0["idx"], env)
                    if isptr(b_) and isinstance(i_, int):
                        return ("ptr", b_[1], b_[2] + i_, b_[3])
                    raise _NoEval(render(e)[:40])
                if k == "Bin":
                    op = e["op"]
                    if op == "&&":
                        return bool(ev(e["lhs"], env)) and bool(ev(e["rhs"], env))
                    if op == "||":
                        return bool(ev(e["lhs"], env)) or bool(ev(e["rhs"], env))
                    a, b = ev(e["lhs"], env), ev(e["rhs"], env)
                    if isptr(a) or isptr(b):
                        if op in ("==", "!=") and isptr(a) and isptr(b):
                            same = a[1] == b[1] and a[2] == b[2]
                            return same if op == "==" else not same
                        if op == "+" and isptr(a) != isptr(b):
                            p_, n_ = (a, b) if isptr(a) else (b, a)
                            return ("ptr", p_[1], p_[2] + int(n_), p_[3])
                        if op == "-" and isptr(a) and not isptr(b):
                            return ("ptr", a[1], a[2] - int(b), a[3])
                        if op == "-" and isptr(a) and isptr(b) and a[1] == b[1]:
                            return a[2] - b[2]
                        if op in ("<", "<=", ">", ">=") and isptr(a) and isptr(b) and a[1] == b[1]:
                            return {"<": a[2] < b[2], "<=": a[2] <= b[2], ">": a[2] > b[2], ">=": a[2] >= b[2]}[op]
                        raise _NoEval("pointer expression %s" % render(e)[:40])
                    if op in ("/", "%") and b == 0:
                        raise _NoEval("division by zero")
                    if op not in ("+", "-", "*", "/", "%", "==", "!=", "<", "<=", ">", ">="):
                        raise _NoEval(op)
                    return {"+": a + b, "-": a - b, "*": a * b, "/": a // b if op == "/" else 0, "%": a % b if op == "%" else 0,
                            "==": a == b, "!=": a != b, "<": a < b, "<=": a <= b, ">": a > b, ">=": a >= b}[op]
                raise _NoEval(render(e)[:40])

            def address(node, env):
                """(array tag, offset, view) an lvalue / rvalue element expression `p[i]` / `*p` denotes, or None"""
                node = L.unwrap(node)
                if node.get("k") == "Index":
                    b_, i_ = ev(node["b"], env), ev(node["idx"], env)
                elif node.get("k") == "Un" and node.get("op") == "*":
                    b_, i_ = ev(node["e"], env), 0
                else:
                    return None
                if not isptr(b_) or not isinstance(i_, int):
                    raise _NoEval("element access %s" % render(node)[:40])
                return b_[1], b_[2] + i_, b_[3]

            def element_reads(expr, env, loopno):
                for x in walk(expr):
                    if x.get("k") == "Index" or (x.get("k") == "Un" and x.get("op") == "*"):
                        try:
                            ad = address(x, env)
                        except _NoEval:
                            raise
                        if ad is not None and ad[0] == "A" and ad[2] == "x" and ad[1] in written:
                            hazards.append((R, C, render(x)[:40], ad[1], loopno, written[ad[1]]))

            def run(n, loopno, env, depth=0):
                if n is None:
                    return True
                steps[0] += 1
                if steps[0] > 40000:
                    raise _NoEval("too many steps")
                k = n.get("k")
                if k == "Block":
                    for s_ in n.get("s", []):
                        if not run(s_, loopno, env, depth):
                            return False
                    return True
                if k == "Null_":
                    return True
                if k == "Decl":
                    for v in n.get("vars", []):
                        if v.get("init") is not None:
                            element_reads(v["init"], env, loopno)
                            try:
                                env[v["d"]] = ev(v["init"], env)
                            except _NoEval:
                                i0 = L.unwrap(v["init"])
                                while i0.get("k") in ("Construct", "TempObj", "Cast") and (len(i0.get("a", [])) == 1 or i0.get("e") is not None):
                                    i0 = L.unwrap(i0["a"][0] if i0.get("a") else i0["e"])
                                is_value = i0.get("k") == "Index" or (i0.get("k") == "Un" and i0.get("op") == "*") or i0.get("k") in ("Float", "Bin") and not v.get("ref")
                                if not is_value and any(y.get("k") == "Ref" and isptr(env.get(y.get("d"))) and env[y["d"]][1] == "A" for y in walk(v["init"])):
                                    raise          # a pointer / reference into the array that the evaluation cannot follow
                                env.pop(v["d"], None)        # a value / foreign buffer: never part of an index into the array
                    return True
                if k == "If":
                    return run(n["then"], loopno, env, depth) if ev(n["c"], env) else (run(n["else"], loopno, env, depth) if n.get("else") is not None else True)
                if k == "For":
                    ln = loop_ids.setdefault(n.get("i"), len(loop_ids)) if loopno is None else loopno
                    if n.get("init") is not None:
                        run(n["init"], ln, env, depth)
                    while n.get("c") is None or ev(n["c"], env):
                        if not run(n.get("body"), ln, env, depth):
                            return False
                        if n.get("inc") is not None:
                            run(n["inc"], ln, env, depth)
                    return True
                if k == "While":
                    ln = loop_ids.setdefault(n.get("i"), len(loop_ids)) if loopno is None else loopno
                    while ev(n["c"], env):
                        if not run(n.get("body"), ln, env, depth):
                            return False
                    return True
                if k == "Return":
                    return False
                if k == "Assign":
                    lhs = L.unwrap(n["lhs"])
                    if lhs.get("k") == "Ref" and n.get("op") in ("=", "+=", "-="):
                        element_reads(n["rhs"], env, loopno)
                        v = ev(n["rhs"], env)
                        if n["op"] == "=":
                            env[lhs["d"]] = v
                        else:
                            cur = env[lhs["d"]]
                            if isptr(cur):
                                env[lhs["d"]] = ("ptr", cur[1], cur[2] + (v if n["op"] == "+=" else -v), cur[3])
                            else:
                                env[lhs["d"]] = cur + (v if n["op"] == "+=" else -v)
                        return True
                    element_reads(n["rhs"], env, loopno)
                    ad = address(lhs, env)
                    if ad is None:
                        raise _NoEval("store %s" % render(lhs)[:40])
                    if ad[0] == "A":
                        if ad[2] == "x":
                            raise _NoEval("store through x")
                        written[ad[1]] = loopno
                    return True
                if k == "Un" and n.get("op") in ("++", "--") and L.unwrap(n["e"]).get("k") == "Ref":
                    d = L.unwrap(n["e"])["d"]
                    cur = env[d]
                    dlt = 1 if n["op"] == "++" else -1
                    env[d] = ("ptr", cur[1], cur[2] + dlt, cur[3]) if isptr(cur) else cur + dlt
                    return True
                if is_call(n):
                    cal = str(n.get("callee", ""))
                    args = n.get("a") or []
                    if cal in ("memcpy", "std::memcpy", "memmove", "std::memmove") and len(args) == 3:
                        dst, src = ev(args[0], env), ev(args[1], env)
                        if isptr(src) and src[1] == "A" and src[3] == "x" and written:
                            hazards.append((R, C, render(n)[:40], -1, loopno, min(written.values())))
                        if isptr(dst) and dst[1] == "A":
                            raise _NoEval("memcpy into r")
                        return True
                    if n.get("k") in ("New", "Delete") or cal in ("operator new[]", "operator delete[]", "FEAT::assertion"):
                        return True
                    vals = []
                    touches = False
                    for a_ in args:
                        try:
                            v = ev(a_, env)
                        except _NoEval:
                            v = None
                        vals.append(v)
                        if isptr(v) and v[1] == "A":
                            touches = True
                    if not touches:
                        return True
                    # a helper working on the array: follow its body with the parameters bound (bounded depth)
                    g = by_decl.get(n.get("cdecl"))
                    if g is None or depth >= 3 or len(g.params) != len(args) or g.d.get("virtual"):
                        raise _NoEval("r / x passed to %s" % (cal or "a call"))
                    env2 = dict(env)
                    for p_, v in zip(g.params, vals):
                        if v is None:
                            env2.pop(p_["d"], None)
                        else:
                            env2[p_["d"]] = v
                    run(g.body, loopno if loopno is not None else loop_ids.setdefault(("call", n.get("i")), len(loop_ids)), env2, depth + 1)
                    return True
                if k in ("New", "Delete"):
                    return True
                raise _NoEval("statement %s" % render(n)[:50])

            try:
                run(fn.body, None, env)
                nchecked += 1
            except (_NoEval, KeyError, TypeError) as e:
                problems.append("shape %dx%d: %s" % (R, C, e))
        if problems:
            ck.incomplete("C02.alias-safe-transpose", "%s with r == x: not evaluable (%s)" % (key, "; ".join(problems[:2])))
            continue
        ok = not hazards
        if ok:
            det = "with r == x (%s) and shapes %s no element is loaded through x after an earlier iteration stored it through r" % (evidence[0], SHAPES)
        else:
            R, C, what, a, ln, wl = hazards[0]
            det = ("with r == x (%s) and a %d x %d matrix the loop nest loads %s (element %s) after an earlier iteration already stored that element through r: "
                   "the store destroys a value that is still to be read; aliased calls must go through the temporary copy" % (evidence[0], R, C, what, a))
        if not ok and ("alias", key) in seen_fail:
            continue
        if not ok:
            seen_fail.add(("alias", key))
        ck.ob("C02.alias-safe-transpose", "%s/aliased-run" % key, ok, det, fn.file, fn.line, sample={"function": fn.full, "detail": det})


# -------------------------------------------------------------------------------------------------
# E3 (light): ordering clause of the counting-sort fill
# -------------------------------------------------------------------------------------------------

def bucket_order_rules(ck, fam, seen_fail):
    for fn in fam.functions():
        if fn.body is None:
            continue
        fors = [n for n in fn.nodes() if n.get("k") in ("For", "While")]
        if not fors:
            continue
        it = None

        def contains(a, b):
            return any(x is b for x in walk(a))

        def loop_dir(f):
            """(decl id of the loop variable, +1 / -1) of a loop that steps its variable by one per iteration"""
            if f.get("k") != "For":
                return None
            init = f.get("init")
            if init is None or init.get("k") != "Decl" or len(init.get("vars", [])) != 1:
                return None
            v = init["vars"][0]["d"]
            steps = []
            for x in walk({"k": "Block", "s": [y for y in (f.get("inc"), f.get("body")) if y is not None]}):
                if x.get("k") == "Un" and x.get("op") in ("++", "--") and L.unwrap(x["e"]).get("k") == "Ref" and L.unwrap(x["e"]).get("d") == v:
                    steps.append(1 if x["op"] == "++" else -1)
                if x.get("k") == "Assign" and L.unwrap(x["lhs"]).get("k") == "Ref" and L.unwrap(x["lhs"]).get("d") == v:
                    steps.append(0)
            if len(steps) == 1 and steps[0] != 0:
                return v, steps[0]
            return None

        def cursor_of(e):
            """(cursor array decl id, direction or None) if e reads a cursor slot C[l], possibly stepping it"""
            e = L.unwrap(e)
            while e.get("k") in ("Construct", "TempObj") and len(e.get("a", [])) == 1:
                e = L.unwrap(e["a"][0])
            if e.get("k") == "Un" and e.get("op") in ("++", "--"):
                x = L.unwrap(e["e"])
                if x.get("k") == "Index" and L.unwrap(x["b"]).get("k") == "Ref":
                    return L.unwrap(x["b"])["d"], (1 if e["op"] == "++" else -1), e
            if e.get("k") == "Index" and L.unwrap(e["b"]).get("k") == "Ref":
                return L.unwrap(e["b"])["d"], None, e
            return None

        for store in fn.nodes():
            if store.get("k") != "Assign" or store.get("op") != "=":
                continue
            lhs = L.unwrap(store["lhs"])
            if lhs.get("k") != "Index" or L.unwrap(lhs["b"]).get("k") != "Ref":
                continue
            chain = [f for f in fors if contains(f.get("body") or {}, store)]
            if not chain:
                continue
            # the stored key: a loop variable of an enclosing loop (through casts)
            rhs = L.unwrap(store["rhs"])
            while rhs.get("k") in ("Construct", "TempObj") and len(rhs.get("a", [])) == 1:
                rhs = L.unwrap(rhs["a"][0])
            if rhs.get("k") != "Ref" or rhs.get("dk") != "local":
                continue
            dirs = {d[0]: d[1] for d in (loop_dir(f) for f in chain) if d is not None}
            if it is None:
                it = L.Interp(fam, fn)
            # position: a cursor slot (directly, or through a const local)
            idx = L.unwrap(lhs["idx"])
            refalias = None
            if idx.get("k") == "Ref" and idx.get("dk") == "local" and idx.get("d") in it.localdefs and (it.localvars.get(idx["d"]) or {}).get("ref"):
                # `IT_ & cursor(C[l]); A[cursor] = v; ++cursor;` - the cursor slot through a reference
                refalias = idx["d"]
                idx = it.localdefs[idx["d"]]
            elif idx.get("k") == "Ref" and idx.get("dk") == "local" and idx.get("d") in it.localdefs and not it.reassigned(idx["d"]):
                idx = it.localdefs[idx["d"]]
            cur = cursor_of(idx)
            if cur is None:
                continue
            cd, cdir, cnode = cur
            innermost = min(chain, key=lambda f: sum(1 for _ in walk(f)))
            if cdir is None:
                # `j = C[l]; ...; ++C[l];` - the step is a separate statement of the same loop body
                steps = []
                for x in walk(innermost.get("body") or {}):
                    if x.get("k") == "Un" and x.get("op") in ("++", "--"):
                        y = L.unwrap(x["e"])
                        if y.get("k") == "Index" and L.unwrap(y["b"]).get("k") == "Ref" and L.unwrap(y["b"])["d"] == cd:
                            steps.append(1 if x["op"] == "++" else -1)
                        elif refalias is not None and y.get("k") == "Ref" and y.get("d") == refalias:
                            steps.append(1 if x["op"] == "++" else -1)
                    elif x.get("k") == "Assign" and x.get("op") in ("+=", "-=") and L.unwrap(x["rhs"]).get("k") == "Int" and L.unwrap(x["rhs"]).get("v") == "1":
                        y = L.unwrap(x["lhs"])
                        if (y.get("k") == "Index" and L.unwrap(y["b"]).get("k") == "Ref" and L.unwrap(y["b"])["d"] == cd) or \
                                (refalias is not None and y.get("k") == "Ref" and y.get("d") == refalias):
                            steps.append(1 if x["op"] == "+=" else -1)
                if len(steps) != 1:
                    continue
                cdir = steps[0]
            key = L.fkey(fn)
            sub = "fill:%s" % ("col_ind" if True else "")
            if rhs["d"] not in dirs:
                all_loop_vars = {f["init"]["vars"][0]["d"] for f in chain if f.get("k") == "For" and f.get("init") is not None and f["init"].get("k") == "Decl" and len(f["init"]["vars"]) == 1}
                if rhs["d"] in all_loop_vars:
                    ck.ob("C02.E3.bucket-order", "%s/%s" % (key, sub), True, "undecided: the loop over %s does not step its variable by one per iteration in a recognisable way" % rhs["n"], fn.file, store.get("l"), trivial=True)
                continue
            vdir = dirs[rhs["d"]]
            # a later sort of the filled array would repair the order: look for calls receiving the array after the loop nest
            arr = L.unwrap(lhs["b"])["d"]
            outer = max(chain, key=lambda f: sum(1 for _ in walk(f)))
            later_sort = any(is_call(x) and "sort" in str(x.get("callee", "")).lower() and x.get("i", 0) > outer.get("i", 0)
                             and any(y.get("k") == "Ref" and y.get("d") == arr for a in (x.get("a") or []) for y in walk(a)) for x in fn.nodes())
            if later_sort:
                ck.ob("C02.E3.bucket-order", "%s/%s" % (key, sub), True, "undecided: the filled array is handed to a sort afterwards", fn.file, store.get("l"), trivial=True)
                continue
            ok = vdir == cdir
            det = "keys %s (loop variable, %s) are stored at positions taken from the bucket cursor %s, which is stepped %s" % (
                rhs["n"], "ascending" if vdir > 0 else "descending", render(cnode)[:40], "forwards" if cdir > 0 else "backwards")
            if not ok:
                det += ": within every bucket the stored indices come out in descending order (a back fill needs the source rows in descending order, a forward fill in ascending order)"
                if ("bucket", key, sub) in seen_fail:
                    continue
                seen_fail.add(("bucket", key, sub))
            ck.ob("C02.E3.bucket-order", "%s/%s" % (key, sub), ok, det, fn.file, store.get("l"), sample={"function": fn.full, "detail": det})


# -------------------------------------------------------------------------------------------------
# E1 on paths: the shape every exit of transpose(x) establishes
# -------------------------------------------------------------------------------------------------

def transpose_shape_rules(ck, fam, seen_fail):
    for fn in fam.functions():
        if fn.name != "transpose" or len(fn.params) != 1 or fn.body is None or fn.d.get("static"):
            continue
        if not fam.is_family_type(fn.type(fn.params[0]["t"])):
            continue
        it = L.Interp(fam, fn)
        xo = "%s#%s" % (fn.params[0]["n"], fn.params[0]["d"])
        key = L.fkey(fn)
        exits = []          # (state, line)
        locs = {}           # local matrix decl id -> (rows role, cols role)

        def dim_of(e):
            r = role_of(it, e)
            if r is None:
                return "?"
            if r.name in DIM_ROLES and r.obj == xo:
                return r.name + "(x)"
            if r.name in DIM_ROLES and r.obj == "this":
                return "this." + r.name
            return "?"

        def ctor_dims(c):
            if c.get("k") in ("Construct", "TempObj") and L.short(c.get("ccls", "")) in fam.classes and c.get("pn") and "rows_in" in c["pn"] and "columns_in" in c["pn"]:
                args = dict(zip(c["pn"], c.get("a") or []))
                return dim_of(args["rows_in"]), dim_of(args["columns_in"])
            return None

        def refine(c, st, truth):
            c = L.unwrap(c)
            if c.get("k") == "Ref" and c.get("dk") == "local" and c.get("d") in it.localdefs and not it.reassigned(c["d"]):
                return refine(it.localdefs[c["d"]], st, truth)
            if c.get("k") == "Un" and c.get("op") == "!":
                return refine(c["e"], st, not truth)
            if c.get("k") == "Bin" and ((c.get("op") == "&&" and truth) or (c.get("op") == "||" and not truth)):
                return refine(c["rhs"], refine(c["lhs"], st, truth), truth)
            if c.get("k") == "Bin" and ((c.get("op") == "==" and truth) or (c.get("op") == "!=" and not truth)):
                a, b = role_of(it, c["lhs"]), role_of(it, c["rhs"])
                for p_, q_ in ((a, b), (b, a)):
                    if p_ and q_ and p_.obj == "this" and q_.obj == xo and p_.name in DIM_ROLES and q_.name in DIM_ROLES:
                        st = dict(st)
                        st[p_.name] = q_.name + "(x)"
            return st

        def touches_shape(n):
            for x in walk(n):
                if x.get("k") == "Assign" and L.unwrap(x["lhs"]).get("k") == "MCall" and L.unwrap(x["lhs"]).get("n", "").lstrip("_") in DIM_ROLES:
                    return True
                if x.get("k") == "MCall" and not x.get("cconst") and L.short(x.get("ccls", "")) in fam.classes and (x.get("obj") is None or L.obj_id(x.get("obj")) == "this") \
                        and x.get("n", "").lstrip("_") not in DIM_ROLES:
                    if not (fam.callee_fn(fn, x) is not None and it.summary(fam.callee_fn(fn, x)) == "identity"):
                        return True
            return False

        def run(n, sts):
            """sts: list of path states (dicts); returns the list of states that fall through"""
            if n is None or not sts:
                return sts
            k = n.get("k")
            if k == "Block":
                for s_ in n.get("s", []):
                    sts = run(s_, sts)
                    if not sts:
                        return []
                return sts
            if k == "Decl":
                for v in n.get("vars", []):
                    d = ctor_dims(v.get("init") or {})
                    if d:
                        locs[v["d"]] = d
                return sts
            if k == "If":
                a = run(n.get("then"), [refine(n["c"], st, True) for st in sts])
                b = [refine(n["c"], st, False) for st in sts]
                if n.get("else") is not None:
                    b = run(n["else"], b)
                out = []
                for st in a + b:
                    if st not in out:
                        out.append(st)
                return out[:16]
            if k == "Return":
                for st in sts:
                    exits.append((st, n.get("l")))
                return []
            if k in ("For", "While", "Do", "ForRange", "Switch", "Try"):
                if touches_shape(n):
                    return [{"rows": "?", "columns": "?"}]
                return sts
            if is_call(n) and n.get("noreturn"):
                return []
            if k == "Assign":
                l = L.unwrap(n["lhs"])
                if l.get("k") == "MCall" and (l.get("obj") is None or L.obj_id(l.get("obj")) == "this") and l.get("n", "").lstrip("_") in DIM_ROLES:
                    out = []
                    for st in sts:
                        st = dict(st)
                        st[l["n"].lstrip("_")] = dim_of(n["rhs"])
                        out.append(st)
                    return out
                return sts
            if k == "MCall" and (n.get("obj") is None or L.obj_id(n.get("obj")) == "this") and L.short(n.get("ccls", "")) in fam.classes and not n.get("cconst"):
                if n.get("n") == "move" and n.get("a"):
                    a = L.unwrap(n["a"][0])
                    d = ctor_dims(a) or (locs.get(a.get("d")) if a.get("k") == "Ref" else None)
                    return [dict(zip(DIM_ROLES, d)) if d else {"rows": "?", "columns": "?"}]
                callee = fam.callee_fn(fn, n)
                if callee is not None and it.summary(callee) == "identity":
                    return sts
                return [{"rows": "?", "columns": "?"}]
            return sts

        for st in run(fn.body, [{"rows": "old", "columns": "old"}]):
            exits.append((st, fn.end))
        want = {"rows": "columns(x)", "columns": "rows(x)"}
        for n_exit, (st, line) in enumerate(exits):
            for r in DIM_ROLES:
                got = st[r]
                sub = "exit-shape"
                if got.startswith("?"):
                    ck.incomplete("C02.E1.transpose-shape", "%s: %s of *this at the exit at line %s is set by a construct the check does not model" % (key, r, line))
                    continue
                ok = got == want[r]
                det = "exit at line %s: %s of *this is %s (required %s of the source)" % (
                    line, r, {"old": "never established on this path (no result moved in, no assignment, no dominating test %s() == x.%s())" % (r, swap(r))}.get(got, got), swap(r))
                if not ok:
                    if ("tshape", key, r) in seen_fail:
                        continue
                    seen_fail.add(("tshape", key, r))
                ck.ob("C02.E1.transpose-shape", "%s/%s/%s" % (key, sub, r), ok, det, fn.file, line, sample={"function": fn.full, "detail": det})


# -------------------------------------------------------------------------------------------------
# E3 (light): per-row offset stores are not skipped for rows without entries
# -------------------------------------------------------------------------------------------------

def _skip_side_stores(ifnode, when, arr_decl, idx_poly, it):
    """does the side of the If that leaves the iteration store to the same element itself (`if(len == 0) { P[i+1] = P[i]; continue; }`)?"""
    side = ifnode.get("then") if when else ifnode.get("else")
    for x in walk(side or {}):
        if x.get("k") == "Assign" and x.get("op") == "=":
            l = L.unwrap(x["lhs"])
            if l.get("k") == "Index" and L.unwrap(l["b"]).get("k") == "Ref" and L.unwrap(l["b"]).get("d") == arr_decl and poly(it, l["idx"]) == idx_poly:
                return True
    return False


def offset_store_rules(ck, fam, seen_fail):
    for fn in fam.functions():
        if fn.body is None:
            continue
        fors = [n for n in fn.nodes() if n.get("k") == "For"]
        if not fors:
            continue
        it = None

        def loop_info(f):
            init, c, inc = f.get("init"), f.get("c") or {}, f.get("inc") or {}
            if init is None or init.get("k") != "Decl" or len(init.get("vars", [])) != 1 or init["vars"][0].get("init") is None:
                return None
            v = init["vars"][0]
            if not (inc.get("k") == "Un" and inc.get("op") == "++" and L.unwrap(inc["e"]).get("d") == v["d"]):
                return None
            if not (c.get("k") == "Bin" and c.get("op") in ("<", "<=") and L.unwrap(c["lhs"]).get("d") == v["d"]):
                return None
            return v, v["init"], c["rhs"], c["op"]

        def contains(a, b):
            return any(x is b for x in walk(a))

        def skips(stmt):
            """does stmt (an If) leave the current loop iteration / function on one of its sides? -> list of (cond, when)"""
            out = []
            if stmt.get("k") != "If":
                return out
            for side, when in ((stmt.get("then"), True), (stmt.get("else"), False)):
                if side is None:
                    continue
                def leaves(n, depth=0):
                    k = n.get("k")
                    if k in ("Return", "Throw"):
                        return True
                    if k in ("Continue", "Break"):
                        return depth == 0
                    if k in ("For", "While", "Do", "ForRange", "Switch"):
                        return any(leaves(c, depth + 1) for c in featlib.children(n))
                    return any(leaves(c, depth) for c in featlib.children(n))
                if leaves(side):
                    out.append((stmt["c"], when))
            return out

        def empties(cond, when, info):
            """does (cond == when) state that the counting loop `info` runs zero times?"""
            v, a, b, op = info
            c = L.unwrap(cond)
            neg = not when
            while c.get("k") == "Un" and c.get("op") == "!":
                c = L.unwrap(c["e"])
                neg = not neg
            if c.get("k") != "Bin" or c.get("op") not in ("<", "<=", ">", ">=", "=="):
                return False
            o = c["op"]
            x, y = poly(it, c["lhs"]), poly(it, c["rhs"])
            if neg:
                if o == "==":
                    return False
                o = {"<": ">=", "<=": ">", ">": "<=", ">=": "<"}[o]
            if o in ("<", "<="):
                x, y, o = y, x, {"<": ">", "<=": ">="}[o]
            A, B = poly(it, a), poly(it, b)
            # loop runs while v < B (or <=): empty iff A >= B (A > B)
            if x == A and y == B:
                return o in (">", ">=", "==") if op == "<" else o == ">"
            return False

        for store in fn.nodes():
            if store.get("k") != "Assign" or store.get("op") != "=":
                continue
            lhs = L.unwrap(store["lhs"])
            if lhs.get("k") != "Index":
                continue
            base = L.unwrap(lhs["b"])
            if base.get("k") != "Ref" or base.get("dk") != "local" or "*" not in fn.ntype(base) or not re.search(r"\b(unsigned|int|long|Index|IT_?|IndexType)\b", fn.ntype(base)):
                continue
            # enclosing counting loops, outermost first
            chain = [f for f in fors if contains(f.get("body") or {}, store)]
            chain.sort(key=lambda f: -sum(1 for _ in walk(f)))
            infos = [(f, loop_info(f)) for f in chain]
            # index = v + c with v the variable of one of the enclosing loops
            idx_vars = [x.get("d") for x in walk(lhs["idx"]) if x.get("k") == "Ref" and x.get("dk") == "local"]
            owner = None
            for f, info in infos:
                if info is not None and info[0]["d"] in idx_vars and len(set(idx_vars)) == 1:
                    owner = (f, info)
            if owner is None:
                continue
            if it is None:
                it = L.Interp(fam, fn)
            fv, vinfo = owner
            body = fv.get("body") or {}
            top = body.get("s", []) if body.get("k") == "Block" else [body]
            if not any(t is store for t in top):
                continue                      # store under a condition / in an inner loop of the row loop: another idiom (conditional cursor)
            inner = [(f, loop_info(f)) for f in fors if f is not fv and contains(body, f)]
            key = L.fkey(fn)
            ordn = "array%d" % sorted({L.unwrap(L.unwrap(x["lhs"])["b"]).get("d") for x in fn.nodes() if x.get("k") == "Assign" and L.unwrap(x["lhs"]).get("k") == "Index"
                                        and L.unwrap(L.unwrap(x["lhs"])["b"]).get("k") == "Ref"}).index(base["d"])
            tgt = L._idx_expr(it, base)
            if tgt is not None:
                ordn = "%s._indices[%s]" % (tgt[0].split("#")[0], tgt[1])
            else:
                defs = it.ptr_defs().get(base["d"], [])
                if len(defs) == 1:
                    e0 = L.unwrap(defs[0])
                    if e0.get("k") == "MCall" and e0.get("n") == "elements" and e0.get("obj") is not None and L.unwrap(e0["obj"]).get("k") == "Ref":
                        vd = L.unwrap(e0["obj"])["d"]
                        for c_ in fn.nodes():
                            if c_.get("k") in ("Construct", "TempObj") and L.short(c_.get("ccls", "")) in fam.classes:
                                for pn_, a_ in zip(c_.get("pn") or [], c_.get("a") or []):
                                    if L.unwrap(a_).get("k") == "Ref" and L.unwrap(a_).get("d") == vd:
                                        ordn = "array:" + pn_
            sub = "store:%s[%s]" % (ordn, re.sub(r"\b%s\b" % re.escape(vinfo[0]["n"]), "v", render(lhs["idx"])))
            verdict, det = True, "stored in every iteration of its row loop; no skip inside the enclosing loops"
            # statements that can skip the store: before it in the row loop body, and before the row loop in each enclosing loop body
            regions = [(top, store)]
            for f, _ in infos:
                if f is fv or not contains(f.get("body") or {}, fv):
                    continue
                b = f.get("body") or {}
                regions.append((b.get("s", []) if b.get("k") == "Block" else [b], fv))
            undecided = None
            # running-offset recurrence  P[v + c] = P[v + c - 1] + ...  : every element is built on its predecessor, so the store is
            # needed in every iteration of its own loop; a data-dependent skip in front of it (other than the loop's own emptiness)
            # leaves P[v + c] at its initial value and every later offset is built on that
            recurrence = False
            lp_ = poly(it, lhs["idx"])
            for x in walk(store["rhs"]):
                if x.get("k") == "Index" and L.unwrap(x["b"]).get("k") == "Ref" and L.unwrap(x["b"]).get("d") == base["d"]:
                    dlt = psub(lp_, poly(it, x["idx"]))
                    if set(dlt) == {()} and dlt[()] == 1:
                        recurrence = True
            for stmts, target in regions:
                for t in stmts:
                    if t is target or contains(t, target):
                        # the row loop nested in an if: the other side skips it
                        n_ = t
                        while n_ is not target and n_.get("k") == "Block":
                            n_ = next((c for c in n_.get("s", []) if c is target or contains(c, target)), target)
                        if n_ is not target and n_.get("k") == "If":
                            in_then = n_.get("then") is not None and (n_["then"] is target or contains(n_["then"], target))
                            conds = [(n_["c"], not in_then)]
                        else:
                            conds = []
                        stop = True
                    else:
                        conds = skips(t)
                        stop = False
                    for cond, when in conds:
                        if empties(cond, when, vinfo):
                            continue
                        hit = [f for f, inf in inner if inf is not None and empties(cond, when, inf)]
                        if hit:
                            verdict = False
                            det = ("the per-row store %s is bypassed when `%s` is %s - that is the emptiness of the inner loop at line %s (no entries in this block of rows), "
                                   "not of the row loop itself: rows without entries keep an uninitialised offset" % (render(lhs)[:40], render(cond)[:40], "true" if when else "false", hit[0].get("l")))
                        elif recurrence and stmts is top and not stop and not _skip_side_stores(t, when, base["d"], lp_, it):
                            verdict = False
                            det = ("the running-offset store %s = %s is bypassed when `%s` is %s: the element keeps its initial value, and the offsets of all following rows are built on it "
                                   "(row pointers no longer monotone / wrong for every row behind a skipped one, e.g. an empty row after a non-empty one)" % (
                                       render(lhs)[:40], render(store["rhs"])[:50], render(cond)[:40], "true" if when else "false"))
                        elif undecided is None:
                            undecided = "the store %s can be skipped under `%s`, which the check can relate neither to the row loop nor to an inner loop" % (render(lhs)[:40], render(cond)[:40])
                    if stop:
                        break
            if verdict and undecided:
                ck.ob("C02.E2.offset-store-unconditional", "%s/%s" % (key, sub), True, "undecided: " + undecided, fn.file, store.get("l"), trivial=True)
                continue
            if not verdict:
                if ("offstore", key, sub) in seen_fail:
                    continue
                seen_fail.add(("offstore", key, sub))
            ck.ob("C02.E2.offset-store-unconditional", "%s/%s" % (key, sub), verdict, det, fn.file, store.get("l"), sample={"function": fn.full, "store": render(lhs)[:60], "detail": det})


# -------------------------------------------------------------------------------------------------
# alias safety of members that forward to an alias-aware kernel
# -------------------------------------------------------------------------------------------------

def alias_member_rules(ck, fam, facts, roles_tab, seen_fail):
    by_decl = {f.d.get("decl"): f for f in facts.functions if f.body is not None}

    def alias_aware(fn, depth=0):
        """does fn (or a function it forwards its pointer parameters to) compare two of its pointer parameters?"""
        ptr = {p["d"] for p in fn.params if "*" in fn.type(p["t"])}
        for n in fn.nodes():
            if n.get("k") == "Bin" and n.get("op") in ("==", "!="):
                a, b = L.unwrap(n["lhs"]), L.unwrap(n["rhs"])
                if a.get("k") == "Ref" and b.get("k") == "Ref" and a.get("d") in ptr and b.get("d") in ptr and a.get("d") != b.get("d"):
                    return True
        if depth < 2:
            for c in fn.calls():
                g = by_decl.get(c.get("cdecl"))
                if g is not None and g is not fn and sum(1 for a in (c.get("a") or []) if L.unwrap(a).get("k") == "Ref" and L.unwrap(a).get("d") in ptr) >= 2 and alias_aware(g, depth + 1):
                    return True
        return False

    for fn in fam.functions():
        cls = L.short(fn.cls)
        if fn.body is None or fn.cfg is None or fn.d.get("ctor") or cls not in roles_tab:
            continue
        xs = [p for p in fn.params if L.short(fn.type(p["t"])).replace("const ", "").replace("&", "").strip() == cls and fn.type(p["t"]).strip().endswith("&")
              and fn.type(p["t"]).strip().startswith("const ")]
        if not xs:
            continue
        slot_of = {}
        for k, names in roles_tab[cls].items():
            for nm in names:
                slot_of[nm] = k
        for px in xs:
            xd = px["d"]
            # explicit alias handling: a comparison of this with &x
            guarded = any(n.get("k") == "Bin" and n.get("op") in ("==", "!=") and {L.unwrap(n["lhs"]).get("k"), L.unwrap(n["rhs"]).get("k")} == {"This", "Un"}
                          for n in fn.nodes())
            # evidence that the aliased call is provided for
            aware = None
            for c in fn.calls():
                g = by_decl.get(c.get("cdecl"))
                if g is None or L.short(g.cls) in fam.classes:
                    continue
                from_this = from_x = False
                for a in c.get("a") or []:
                    a0 = L.unwrap(a)
                    if a0.get("k") == "MCall" and not a0.get("a"):
                        o = L.obj_id(a0.get("obj")) if a0.get("obj") is not None else "this"
                        from_this = from_this or o == "this"
                        from_x = from_x or (o is not None and o.endswith("#%s" % xd))
                if from_this and from_x and alias_aware(g):
                    aware = c
                    break
            if aware is None or guarded:
                continue
            writes, reads = [], []
            itx = L.Interp(fam, fn)
            for n in fn.nodes():
                if n.get("k") == "Assign":
                    l = L.unwrap(n["lhs"])
                    if l.get("k") == "MCall" and not l.get("a") and (l.get("obj") is None or L.obj_id(l.get("obj")) == "this") and l.get("n", "").lstrip("_") in slot_of:
                        writes.append((n, {slot_of[l["n"].lstrip("_")]}, "%s() = ..." % l["n"]))
                    elif l.get("k") == "MCall" and l.get("n") in ("at", "operator[]") and l.get("obj", {}).get("k") == "Member" and L.SCAL_RE.search(l["obj"].get("qn", "")) \
                            and L.obj_id(l["obj"].get("b")) == "this":
                        i0 = L.unwrap(l["a"][0]) if l.get("a") else {}
                        writes.append((n, {int(i0["v"])} if i0.get("k") == "Int" else "all", "_scalar_index slot write"))
                if n.get("k") == "MCall" and n.get("obj", {}).get("k") == "Member" and L.SCAL_RE.search(n["obj"].get("qn", "")) and L.obj_id(n["obj"].get("b")) == "this" \
                        and n.get("n") in ("push_back", "clear", "assign"):
                    writes.append((n, "all", "_scalar_index.%s" % n["n"]))
                if n.get("k") == "MCall" and L.short(n.get("ccls", "")) in fam.classes and not n.get("cconst") and not n.get("cstatic") \
                        and (n.get("obj") is None or L.obj_id(n.get("obj")) == "this") and n.get("n", "").lstrip("_") not in slot_of \
                        and not (itx.summary(fam.callee_fn(fn, n)) == "identity" if fam.callee_fn(fn, n) is not None else False):
                    writes.append((n, "all", "%s()" % n["n"]))
                if n.get("k") == "MCall" and n.get("obj") is not None and (L.obj_id(n["obj"]) or "").endswith("#%s" % xd):
                    nm = n.get("n", "").lstrip("_")
                    comp = {slot_of[nm]} if nm in slot_of else {"arrays"} if nm in ("elements", "val", "col_ind", "row_ptr", "indices", "offsets", "row_numbers") else "any"
                    reads.append((n, comp, "x.%s()" % n.get("n")))
            hazards = []
            for wn, wc, wt in writes:
                ww = fn.cfg.block_of(wn.get("i"))
                if ww is None:
                    continue
                for rn, rc, rt in reads:
                    rw = fn.cfg.block_of(rn.get("i"))
                    if rw is None:
                        continue
                    after = (ww[0] == rw[0] and ww[1] < rw[1]) or (ww[0] != rw[0] and rw[0] in fn.cfg.reachable(ww[0]))
                    if ww[0] == rw[0] and rw[1] > ww[1]:
                        after = True
                    elif ww[0] == rw[0]:
                        # same block, read first: only a loop back edge could bring the read after the write
                        after = ww[0] in fn.cfg.reachable(ww[0], avoid=()) and any(ww[0] in fn.cfg.reachable(s_) for s_ in fn.cfg.succ.get(ww[0], []))
                    if not after:
                        continue
                    if wc == "all" or rc == "any" or (isinstance(rc, set) and isinstance(wc, set) and rc & wc) or (rc == {"arrays"} and wc == "all"):
                        hazards.append((wt, wn.get("l"), rt, rn.get("l")))
            key = "%s/%s-aliases-this" % (L.fkey(fn), px["n"])
            ok = not hazards
            det = ("the call with &%s == this is provided for (%s at line %s goes to a kernel that tests its pointer arguments for equality) and there is no `this == &%s` guard; "
                   % (px["n"], L.short(aware.get("callee", "")), aware.get("l"), px["n"])) + \
                  ("no state of %s is read after *this was written" % px["n"] if ok else
                   "%s (line %s) executes after %s (line %s): with &%s == this it returns the value just written" % (hazards[0][2], hazards[0][3], hazards[0][0], hazards[0][1], px["n"]))
            if not ok:
                if ("aliasmem", key) in seen_fail:
                    continue
                seen_fail.add(("aliasmem", key))
            ck.ob("C02.alias-safe-members", key, ok, det, fn.file, fn.line, sample={"function": fn.full, "detail": det})


# -------------------------------------------------------------------------------------------------
# E2 (light): loop-variable subscripts of locally built arrays; CSCR used-row kinds
# -------------------------------------------------------------------------------------------------

def counting_loops(it):
    """{loop var decl id: (bound node, +1 if `<=`)} for `for(v = ..; v < B; ++v)` loops whose body does not modify v"""
    out = {}
    for n in it.fn.nodes():
        if n.get("k") != "For":
            continue
        init, c, inc = n.get("init"), n.get("c") or {}, n.get("inc") or {}
        if init is None or init.get("k") != "Decl" or len(init.get("vars", [])) != 1:
            continue
        v = init["vars"][0]
        if not (inc.get("k") == "Un" and inc.get("op") == "++" and L.unwrap(inc["e"]).get("d") == v["d"]):
            continue
        if not (c.get("k") == "Bin" and c.get("op") in ("<", "<=") and L.unwrap(c["lhs"]).get("d") == v["d"]):
            continue
        if it.reassigned_in(n.get("body"), v["d"]):
            continue
        out[v["d"]] = (c["rhs"], 1 if c["op"] == "<=" else 0)
    return out


def local_array_rules(ck, fam, seen_fail):
    for fn in fam.functions():
        if fn.body is None:
            continue
        it = L.Interp(fam, fn)
        it.is_loop_var = lambda d: False
        # local DenseVector arrays with a known extent
        vecs = {}
        for n in fn.nodes():
            if n.get("k") == "Var" and n.get("init") is not None:
                d = n["init"]
                if d.get("k") in ("Construct", "TempObj") and L.short(d.get("ccls", "")) == "DenseVector" and d.get("a") and (d.get("pn") or [""])[0] == "size_in" \
                        and not n.get("ref"):
                    vecs[n["d"]] = (n["n"], d["a"][0])
        if not vecs:
            continue
        # role of each local array: the constructor parameter it is finally handed to
        role = {}
        for n in fn.nodes():
            if n.get("k") in ("Construct", "TempObj") and L.short(n.get("ccls", "")) in fam.classes:
                for pnm, a in zip(n.get("pn") or [], n.get("a") or []):
                    a0 = L.unwrap(a)
                    if a0.get("k") == "Ref" and a0.get("d") in vecs:
                        role[a0["d"]] = pnm
        ptrs = {}
        for d, defs in it.ptr_defs().items():
            if len(defs) == 1:
                e = L.unwrap(defs[0])
                while e.get("k") == "Cast" and e.get("e") is not None:
                    e = L.unwrap(e["e"])
                if e.get("k") == "MCall" and e.get("n") == "elements" and not e.get("a") and e.get("obj") is not None:
                    o = L.unwrap(e["obj"])
                    if o.get("k") == "Ref" and o.get("d") in vecs:
                        ptrs[d] = o["d"]
        loops = counting_loops(it)
        key = L.fkey(fn)
        results = {}
        order = sorted(vecs)
        for n in fn.nodes():
            if n.get("k") != "Index":
                continue
            b = L.unwrap(n["b"])
            if b.get("k") != "Ref" or b.get("d") not in ptrs:
                continue
            vd = ptrs[b["d"]]
            idx = n["idx"]
            # the index: loop variable + constant
            lv, c, other = None, 0, False
            stack = [(L.unwrap(idx), 1)]
            while stack:
                e, sg = stack.pop()
                k = e.get("k")
                if k == "Bin" and e.get("op") in ("+", "-"):
                    stack.append((L.unwrap(e["lhs"]), sg))
                    stack.append((L.unwrap(e["rhs"]), sg if e["op"] == "+" else -sg))
                elif k == "Int":
                    c += sg * int(e["v"])
                elif k in ("Construct", "TempObj") and len(e.get("a", [])) == 1:
                    stack.append((L.unwrap(e["a"][0]), sg))
                elif k == "Ref" and e.get("d") in loops and sg == 1 and lv is None:
                    lv = e["d"]
                else:
                    other = True
            name = "array:%s" % role[vd] if vd in role else "array#%d" % order.index(vd)
            if lv is None or other:
                results.setdefault(name, []).append((True, True, "subscript %s: not a counting-loop variable plus constant" % render(n)[:60], n.get("l")))
                continue
            E = poly(it, vecs[vd][1])
            B = poly(it, loops[lv][0])
            diff = psub(psub(E, B), {(): c + loops[lv][1]} if c + loops[lv][1] else {})
            nonconst = [m for m in diff if m]
            if not nonconst:
                k0 = diff.get((), 0)
                results.setdefault(name, []).append((k0 >= 0, False,
                    "subscript %s: array extent %s, loop bound %s, offset %+d -> %s" % (render(n)[:50], pshow(E), pshow(B), c, "in range" if k0 >= 0 else "runs %d past the end" % -k0), n.get("l")))
                continue
            ea, ba = single_atom(E), single_atom(B)
            def _recv(a):
                m_ = re.match(r"^([\w>-]+)\.[\w<>:, ]+\(\)$", a)
                return m_.group(1) if m_ else None
            definite = ea is not None and ba is not None and ea != ba and (
                (_recv(ea) is not None and _recv(ea) == _recv(ba)) or re.match(r"^\w+$", ea) or re.match(r"^\w+$", ba))
            if definite:
                results.setdefault(name, []).append((False, False,
                    "subscript %s: the array (%s) has extent %s but is indexed by a loop variable bounded by %s - two different size quantities that nothing in this "
                    "function makes equal: the array is indexed by the wrong kind of index" % (render(n)[:50], vecs[vd][0], pshow(E), pshow(B)), n.get("l")))
            else:
                results.setdefault(name, []).append((True, True, "subscript %s: extent %s vs bound %s not comparable" % (render(n)[:50], pshow(E), pshow(B)), n.get("l")))
        for name, rs in sorted(results.items()):
            for ok, trivial, det, line in rs:
                if not ok:
                    if ("C02.E2.local-array-index", key, name, det) in seen_fail:
                        continue
                    seen_fail.add(("C02.E2.local-array-index", key, name, det))
                ck.ob("C02.E2.local-array-index", "%s/%s" % (key, name), ok, det, fn.file, line, trivial=trivial,
                      sample={"function": fn.full, "array": name, "detail": det} if not trivial else None)


def cscr_kind_rules(ck, fam, facts, seen_fail):
    """accessor contracts of SparseMatrixCSCR: row_ptr(): UsedRow+1 -> NZ, row_numbers(): UsedRow -> Row"""
    def is_cscr_acc(e, names):
        e = L.unwrap(e)
        return e.get("k") == "MCall" and e.get("n") in names and not e.get("a") and L.short(e.get("ccls", "")) == "SparseMatrixCSCR"

    for fn in facts.functions:
        if fn.body is None or fn.tk not in ("inst", "plain", "spec"):
            continue
        if not any(is_cscr_acc(n, ("row_ptr", "row_numbers")) for n in fn.nodes() if n.get("k") == "MCall"):
            continue
        it = L.Interp(fam, fn)
        key = L.fkey(fn)
        # pointer locals initialised from the accessors
        alias = {}
        for d, defs in it.ptr_defs().items():
            got = set()
            for e in defs:
                e = L.unwrap(e)
                while e.get("k") == "Cast" and e.get("e") is not None:
                    e = L.unwrap(e["e"])
                if is_cscr_acc(e, ("row_ptr",)):
                    got.add("row_ptr")
                elif is_cscr_acc(e, ("row_numbers",)):
                    got.add("row_numbers")
                elif e.get("k") != "Null":
                    got.add("?")
            if got and got <= {"row_ptr", "row_numbers"} and len(got) == 1:
                alias[d] = next(iter(got))

        def acc_of(b):
            b = L.unwrap(b)
            if is_cscr_acc(b, ("row_ptr",)):
                return "row_ptr"
            if is_cscr_acc(b, ("row_numbers",)):
                return "row_numbers"
            if b.get("k") == "Ref" and b.get("d") in alias:
                return alias[b["d"]]
            return None

        loops = counting_loops(it)
        used_rows_vars, row_vars = set(), set()
        for n in fn.nodes():
            if n.get("k") == "Bin" and n.get("op") in ("<", "<=", "==", "!=", ">", ">="):
                for x, y in ((n["lhs"], n["rhs"]), (n["rhs"], n["lhs"])):
                    x0, y0 = L.unwrap(x), L.unwrap(y)
                    if x0.get("k") == "Ref" and x0.get("dk") == "local" and y0.get("k") == "MCall" and y0.get("n") in ("used_rows", "_used_rows") and not y0.get("a"):
                        used_rows_vars.add(x0["d"])
        for d, (bnode, _) in loops.items():
            b0 = L.unwrap(bnode)
            if b0.get("k") == "MCall" and b0.get("n") in ("rows", "_rows") and not b0.get("a") and L.short(b0.get("ccls", "")) == "SparseMatrixCSCR":
                row_vars.add(d)

        def row_kind_atoms(e):
            """atoms of Row kind inside e (not below a subscript of row_numbers, whose *result* is Row but whose index is not)"""
            out = []
            def rec(x):
                x = L.unwrap(x)
                k = x.get("k")
                if k == "Ref" and x.get("dk") == "param" and x.get("n") == "row":
                    out.append("parameter row")
                elif k == "Ref" and x.get("d") in row_vars:
                    out.append("loop variable %s bounded by rows()" % x["n"])
                elif k == "Index" and acc_of(x["b"]) == "row_numbers":
                    out.append("value row_numbers()[..]")
                elif k == "Index":
                    return
                elif k in ("Bin",):
                    rec(x["lhs"]); rec(x["rhs"])
                elif k in ("Construct", "TempObj", "Cast") :
                    for c in featlib.children(x):
                        rec(c)
            rec(e)
            return out

        n_sub = n_cmp = 0
        for n in fn.nodes():
            if n.get("k") == "Index" and acc_of(n["b"]) in ("row_ptr", "row_numbers"):
                bad = row_kind_atoms(n["idx"])
                sub = "subscript:%s" % acc_of(n["b"])
                ok = not bad
                det = "%s: %s() is indexed by used-row ordinals; index %s %s" % (render(n)[:60], acc_of(n["b"]), render(n["idx"])[:40],
                                                                                     "contains no row number" if ok else "is built from the row number (%s)" % ", ".join(bad))
                if not ok:
                    if ("cscr", key, sub, det) in seen_fail:
                        continue
                    seen_fail.add(("cscr", key, sub, det))
                ck.ob("C02.E2.cscr-row-kind", "%s/%s" % (key, sub), ok, det, fn.file, n.get("l"), sample={"function": fn.full, "detail": det})
                n_sub += 1
            if n.get("k") == "Bin" and n.get("op") in ("<", "<=", "==", "!=", ">", ">="):
                for x, y in ((n["lhs"], n["rhs"]), (n["rhs"], n["lhs"])):
                    x0 = L.unwrap(x)
                    if x0.get("k") == "Ref" and x0.get("d") in used_rows_vars:
                        y0 = L.unwrap(y)
                        direct = [a for a in row_kind_atoms(y) if not a.startswith("value row_numbers")]
                        is_rownum = bool(row_kind_atoms(y)) and not direct
                        if direct:
                            det = "%s: the used-row ordinal %s is compared with a row number (%s) instead of with row_numbers()[%s]" % (render(n)[:60], x0["n"], ", ".join(direct), x0["n"])
                            if ("cscr", key, "cmp", det) in seen_fail:
                                continue
                            seen_fail.add(("cscr", key, "cmp", det))
                            ck.ob("C02.E2.cscr-row-kind", "%s/ordinal-vs-row" % key, False, det, fn.file, n.get("l"), sample={"function": fn.full, "detail": det})
                        elif is_rownum:
                            pass
            if n.get("k") == "Bin" and n.get("op") in ("<", "<=", "==", "!=", ">", ">="):
                l0, r0 = L.unwrap(n["lhs"]), L.unwrap(n["rhs"])
                for x, y in ((l0, r0), (r0, l0)):
                    if x.get("k") in ("Index",) or x.get("k") in ("Construct", "TempObj", "Cast"):
                        if any(a.startswith("value row_numbers") for a in row_kind_atoms(x)) and row_kind_atoms(y):
                            ck.ob("C02.E2.cscr-row-kind", "%s/rownumber-vs-row" % key, True, "%s: row number compared with row number" % render(n)[:60], fn.file, n.get("l"))
                            break


# -------------------------------------------------------------------------------------------------
# E2 (light): the band-offset convention of SparseMatrixBanded
# -------------------------------------------------------------------------------------------------

BANDED_DOC = "main diagonal has offset rows - 1"      # kernel/lafem/sparse_matrix_banded.hpp, class documentation


def helper_return_expr(callee):
    """the expression a small pure helper returns: a body of const-local declarations followed by one `return E;`
    (`static Index _band_offset(Index row, Index col, Index num_rows) { return col + num_rows - 1 - row; }`); None otherwise"""
    if callee is None or callee.body is None or callee.d.get("virtual"):
        return None
    body = callee.body
    stmts = body.get("s", []) if body.get("k") == "Block" else [body]
    stmts = [x for x in stmts if x.get("k") != "Null_" and not (is_call(x) and x.get("callee") == "FEAT::assertion")]
    if not stmts or stmts[-1].get("k") != "Return" or stmts[-1].get("e") is None:
        return None
    if any(x.get("k") != "Decl" for x in stmts[:-1]):
        return None
    return stmts[-1]["e"]


def lin(it, e, depth=0, bind=None):
    """linear normal form of an integer expression: ({atom key: coeff}, const, {atom key: node}) or None.
    bind: {parameter decl id: (caller's interp, argument node)} while reading the return expression of an inlined helper"""
    e = L.unwrap(e)
    k = e.get("k")
    if depth > 14:
        return None
    if k == "Int":
        return {}, int(e["v"]), {}
    if k in ("Construct", "TempObj") and len(e.get("a", [])) == 1:
        return lin(it, e["a"][0], depth + 1, bind)
    if k == "Ref" and e.get("dk") == "param" and bind and e.get("d") in bind:
        cit, arg = bind[e["d"]]
        return lin(cit, arg, depth + 1)
    if k == "Ref" and e.get("dk") == "local" and L.INT_T.match(it.fn.ntype(e)):
        d = it.localdefs.get(e["d"])
        if d is not None and not it.reassigned(e["d"]) and not it.is_loop_var(e["d"]):
            return lin(it, d, depth + 1, bind)
    if k == "Bin" and e.get("op") in ("+", "-"):
        a, b = lin(it, e["lhs"], depth + 1, bind), lin(it, e["rhs"], depth + 1, bind)
        if a is None or b is None:
            return None
        sg = 1 if e["op"] == "+" else -1
        co = dict(a[0])
        for m, c in b[0].items():
            co[m] = co.get(m, 0) + sg * c
        nodes = dict(a[2])
        nodes.update(b[2])
        return {m: c for m, c in co.items() if c}, a[1] + sg * b[1], nodes
    if k == "Un" and e.get("op") == "-":
        a = lin(it, e["e"], depth + 1, bind)
        return None if a is None else ({m: -c for m, c in a[0].items()}, -a[1], a[2])
    if k == "Bin" and e.get("op") == "*":
        a, b = lin(it, e["lhs"], depth + 1, bind), lin(it, e["rhs"], depth + 1, bind)
        if a is not None and b is not None:
            for x, y in ((a, b), (b, a)):
                if not x[0]:
                    return {m: c * x[1] for m, c in y[0].items() if c * x[1]}, y[1] * x[1], y[2]
        # a product of two non-constants is one opaque atom
    if k in ("Call", "MCall") and depth < 8 and not bind:
        # the relation behind a small helper: read its return expression with the parameters bound to the arguments
        callee = it.any_callee(e)
        rx = helper_return_expr(callee)
        if rx is not None and len(callee.params) == len(e.get("a") or []) and callee is not it.fn:
            with L._alias_scope():
                cit = L.Interp(it.fam, callee)
            cit.is_loop_var = lambda d: False
            b2 = {p_["d"]: (it, a_) for p_, a_ in zip(callee.params, e["a"])}
            r = lin(cit, rx, depth + 1, b2)
            if r is not None and not any(x.get("k") == "Ref" and x.get("dk") == "local" and x.get("d") in cit.localdefs
                                         for nd in r[2].values() for x in walk(nd)):
                return r
    if bind and any(x.get("k") == "Ref" and x.get("dk") == "param" and x.get("d") in bind for x in walk(e)):
        return None          # an opaque atom over the helper's parameters cannot be named in the caller's terms
    key = L._norm_extent(it, e)
    return {key: 1}, 0, {key: e}


def dim_role(it, node, roles_tab):
    """'rows' / 'columns' if the atom is a matrix dimension (by accessor, slot, parameter or member name)"""
    node = L.unwrap(node)
    k = node.get("k")
    if k == "Ref" and node.get("dk") == "param":
        nm = node["n"]
        nm = nm[:-3] if nm.endswith("_in") else nm
        return nm if nm in DIM_ROLES else None
    if k == "Member":
        nm = node.get("n", "").lstrip("_")
        nm = {"num_rows": "rows", "num_cols": "columns", "num_columns": "columns"}.get(nm, nm)
        return nm if nm in DIM_ROLES else None
    if k == "MCall" and node.get("n") in ("at", "operator[]") and node.get("obj", {}).get("k") == "Member" and L.SCAL_RE.search(node["obj"].get("qn", "")) \
            and node.get("a") and L.unwrap(node["a"][0]).get("k") == "Int":
        cls = L.short(node["obj"].get("qn", "").rsplit("::", 1)[0])
        r = roles_tab.get("SparseMatrixBanded", {}).get(int(L.unwrap(node["a"][0])["v"]), set()) if "Container" in cls else set()
        for x in DIM_ROLES:
            if x in r:
                return x
        return None
    r = role_of(it, node)
    if r is not None and r.name in DIM_ROLES:
        return r.name
    return None


def banded_candidates(fam, facts, roles_tab):
    """yield (fn, interp, node, text of the linear form, dimension atom node, its role) for every linear expression /
    equality inside banded code that has the shape  +-(D - 1) + (other atoms with coefficients +-1)  with exactly one
    matrix-dimension atom D: these are the statements of the band-offset relation offset = col - row + D - 1."""
    seen_fn = set()
    fns = []
    for fn in facts.functions:
        if fn.body is None or fn.tk not in ("inst", "plain", "spec"):
            continue
        in_scope = L.short(fn.cls).startswith("SparseMatrixBanded") or re.search(r"Arch::\w+::banded|ApplyBanded", fn.qn) \
            or any("SparseMatrixBanded" in fn.type(p["t"]) for p in fn.params)
        if in_scope:
            fns.append(fn)
    for fn in fns:
        it = L.Interp(fam, fn)
        loopvars = set()
        for n in fn.nodes():
            if n.get("k") == "For" and n.get("init") is not None and n["init"].get("k") == "Decl":
                for v in n["init"]["vars"]:
                    loopvars.add(v["d"])
        it.is_loop_var = lambda d, lv=loopvars: d in lv
        par = it.par
        for n in fn.nodes():
            k = n.get("k")
            form = None
            if k == "Bin" and n.get("op") == "==":
                a, b = lin(it, n["lhs"]), lin(it, n["rhs"])
                if a is None or b is None:
                    continue
                co = dict(a[0])
                for m, c in b[0].items():
                    co[m] = co.get(m, 0) - c
                nodes = dict(a[2])
                nodes.update(b[2])
                form = ({m: c for m, c in co.items() if c}, a[1] - b[1], nodes)
            elif (k == "Bin" and n.get("op") in ("+", "-")) or (k in ("Call", "MCall") and helper_return_expr(it.any_callee(n)) is not None):
                p = par.get(id(n))
                while p is not None and p.get("k") in ("Cast",) or (p is not None and p.get("k") in ("Construct", "TempObj") and len(p.get("a", [])) == 1):
                    p = par.get(id(p))
                if p is not None and p.get("k") == "Bin" and p.get("op") in ("+", "-", "=="):
                    continue
                form = lin(it, n)
            if form is None:
                continue
            co, const, nodes = form
            if any(abs(c) != 1 for c in co.values()) or len(co) < 2:
                continue
            dims = [(m, dim_role(it, nodes[m], roles_tab)) for m in co]
            dims = [(m, r) for m, r in dims if r]
            if len(dims) != 1:
                continue
            m, role = dims[0]
            if const != -co[m]:
                continue
            txt = " ".join("%s%s" % ("+" if c > 0 else "-", a) for a, c in sorted(co.items())) + " %+d" % const
            key = (fn.full, n.get("l"), txt)
            if key in seen_fn:
                continue
            seen_fn.add(key)
            yield fn, it, n, txt, nodes[m], role


def banded_rules(ck, fam, facts, roles_tab, seen_fail):
    src = featlib.repo_path("kernel/lafem/sparse_matrix_banded.hpp")
    try:
        doc_ok = BANDED_DOC in re.sub(r"\s+", " ", re.sub(r"\n\s*\*", " ", open(src).read()))
    except OSError:
        doc_ok = False
    if not doc_ok:
        ck.incomplete("C02.E2.banded-offset", "the class documentation of SparseMatrixBanded no longer states %r" % BANDED_DOC)
        return
    counts = {}
    for fn, it, n, txt, D, role in banded_candidates(fam, facts, roles_tab):
        key = L.fkey(fn)
        i = counts.get(fn.full, 0)
        counts[fn.full] = i + 1
        sub = "offset-form%d" % i
        ok = role == "rows"
        if not ok:
            if ("C02.E2.banded-offset", key, sub) in seen_fail:
                continue
            seen_fail.add(("C02.E2.banded-offset", key, sub))
        ck.ob("C02.E2.banded-offset", "%s/%s" % (key, sub), ok,
              "%s  [linear form: %s]: the dimension entering the band-offset relation offset = col - row + rows - 1 is %s (%s)%s" % (
                  render(n)[:80], txt, role, render(D)[:40],
                  "" if ok else "; the class documentation ('%s'), the constructor, operator(), start/end_offset, CSR<-Banded and the banded kernels all use the row count: for rows != columns the bands are shifted by columns - rows" % BANDED_DOC),
              fn.file, n.get("l"), sample={"function": fn.full, "expression": render(n)[:100], "dimension": role})


# -------------------------------------------------------------------------------------------------
# parallel arrays: lock-step element moves of in-place sorts / permutations
# -------------------------------------------------------------------------------------------------

def lockstep_rules(ck, fam, seen_fail):
    for fn in fam.functions():
        if fn.body is None:
            continue
        loops = [n for n in fn.nodes() if n.get("k") in ("For", "While", "Do")]
        if not loops:
            continue
        def as_assign(n):
            """(lhs, rhs) of a plain assignment - built-in `=` or the copy/move assignment operator of a class-typed element"""
            if n.get("k") == "Assign" and n.get("op") == "=":
                return n["lhs"], n["rhs"]
            if n.get("k") == "OpCall" and n.get("op") == "=" and len(n.get("a") or []) == 2:
                return n["a"][0], n["a"][1]
            return None
        if not any(as_assign(n) is not None and L.unwrap(as_assign(n)[0]).get("k") == "Index" for n in fn.nodes()):
            continue
        it = L.Interp(fam, fn)
        it.is_loop_var = lambda d: False
        par = it.par

        def strip(e):
            e = L.unwrap(e)
            while e is not None and e.get("k") in ("Construct", "TempObj") and len(e.get("a", [])) == 1:
                e = L.unwrap(e["a"][0])
            return e

        def arr_id(e, depth=0):
            """(array name, offset polynomial) of a pointer expression: accessor of an object, pointer parameter, local pointer
            (resolved through its single definition), base + offset"""
            e = strip(e)
            if e is None or depth > 5:
                return None
            k = e.get("k")
            if k == "Bin" and e.get("op") in ("+", "-"):
                b = arr_id(e["lhs"], depth + 1)
                if b is None:
                    return None
                off = poly(it, e["rhs"])
                return b[0], (L.psub(b[1], off) if e["op"] == "-" else {m: b[1].get(m, 0) + off.get(m, 0) for m in set(b[1]) | set(off) if b[1].get(m, 0) + off.get(m, 0)})
            if k == "Ref" and e.get("dk") == "param":
                return "param:" + e["n"], {}
            if k == "Ref" and e.get("dk") == "local" and "*" in (fn.ntype(e) or ""):
                defs = it.ptr_defs().get(e["d"], [])
                if len(defs) == 1:
                    r = arr_id(defs[0], depth + 1)
                    if r is not None:
                        return r
                return "local:%s" % e["n"], {}
            if k == "MCall":
                return L._norm_extent(it, e), {}
            return None

        def nf(idx, off):
            p_ = poly(it, idx)
            tot = {m: p_.get(m, 0) + off.get(m, 0) for m in set(p_) | set(off)}
            return pshow({m: c for m, c in tot.items() if c})

        # temporaries that hold a saved element of one array
        saves = {}          # temp decl -> set of (array, position)
        other_defs = set()
        for n in fn.nodes():
            tgt = src = None
            if n.get("k") == "Var" and n.get("init") is not None and not n.get("ref") and "*" not in (fn.type(n.get("t")) or ""):
                tgt, src = n["d"], n["init"]
            elif n.get("k") == "Assign" and L.unwrap(n["lhs"]).get("k") == "Ref" and L.unwrap(n["lhs"]).get("dk") == "local":
                tgt, src = L.unwrap(n["lhs"])["d"], (n["rhs"] if n.get("op") == "=" else None)
            elif n.get("k") == "OpCall" and n.get("a") and L.unwrap(n["a"][0]).get("k") == "Ref" and L.unwrap(n["a"][0]).get("dk") == "local" \
                    and n.get("op") in ("=", "+=", "-=", "*=", "/="):
                tgt, src = L.unwrap(n["a"][0])["d"], (n["a"][1] if n.get("op") == "=" and len(n["a"]) == 2 else None)
            if tgt is None:
                continue
            if n.get("k") == "Var" and src is not None and L.unwrap(src).get("k") in ("Construct", "TempObj", "ValueInit") and not L.unwrap(src).get("a"):
                continue          # `ValueType swap_val;` - default construction, not a value
            s0 = strip(src) if src is not None else None
            a = arr_id(s0["b"]) if s0 is not None and s0.get("k") == "Index" else None
            if a is not None:
                saves.setdefault(tgt, set()).add((a[0], nf(s0["idx"], a[1])))
            else:
                other_defs.add(tgt)
        temps = {d: v for d, v in saves.items() if d not in other_defs and len({a for a, _ in v}) == 1}

        def block_of(n):
            p_ = par.get(id(n))
            while p_ is not None and p_.get("k") not in ("Block", "For", "While", "Do", "If"):
                p_ = par.get(id(p_))
            return p_

        events = []          # (array, kind, signature tuple, node)
        opaque = []          # (array, node): a store into / call on the array that is not a move
        for n in fn.nodes():
            if as_assign(n) is not None:
                lhs, rhs = strip(as_assign(n)[0]), strip(as_assign(n)[1])
                if lhs.get("k") == "Index":
                    a = arr_id(lhs["b"])
                    if a is None:
                        continue
                    f = nf(lhs["idx"], a[1])
                    if rhs.get("k") == "Index" and (arr_id(rhs["b"]) or (None,))[0] == a[0]:
                        b = arr_id(rhs["b"])
                        events.append((a[0], "move", ("move", f, nf(rhs["idx"], b[1])), n))
                    elif rhs.get("k") == "Ref" and rhs.get("d") in temps and next(iter(temps[rhs["d"]]))[0] == a[0]:
                        events.append((a[0], "restore", ("restore", f, tuple(sorted(h for _, h in temps[rhs["d"]]))), n))
                    else:
                        opaque.append((a[0], n))
                elif lhs.get("k") == "Ref" and lhs.get("d") in temps and rhs.get("k") == "Index":
                    a = arr_id(rhs["b"])
                    if a is not None:
                        events.append((a[0], "save", ("save", nf(rhs["idx"], a[1])), n))
            elif n.get("k") == "Var" and n.get("d") in temps and n.get("init") is not None and strip(n["init"]).get("k") == "Index":
                s0 = strip(n["init"])
                a = arr_id(s0["b"])
                if a is not None:
                    events.append((a[0], "save", ("save", nf(s0["idx"], a[1])), n))
        movers = {a for a, kind, _, _ in events if kind in ("move", "restore")}
        if len(movers) < 2:
            continue

        def inside(loop, n):
            return any(x is n for x in walk(loop))

        key = L.fkey(fn)
        done = set()
        pairs = sorted((a, b) for a in movers for b in movers if a < b)
        for a, b in pairs:
            common = [lp for lp in loops if any(x[0] == a and x[1] in ("move", "restore") and inside(lp, x[3]) for x in events)
                      and any(x[0] == b and x[1] in ("move", "restore") and inside(lp, x[3]) for x in events)]
            # the outermost loops in which both arrays are rearranged: everything below them is one rearrangement
            minimal = [lp for lp in common if not any(o is not lp and inside(o, lp) for o in common)]
            for ordn, lp in enumerate(minimal):
                sub = "%s~%s%s" % (a.replace("param:", "").replace("local:", ""), b.replace("param:", "").replace("local:", ""), "#%d" % ordn if len(minimal) > 1 else "")
                if (key, sub) in done:
                    continue
                done.add((key, sub))
                # anything else that writes one of the two arrays inside the loop makes the comparison meaningless
                blur = [n_ for arr, n_ in opaque if arr in (a, b) and inside(lp, n_)]
                for c in walk(lp):
                    if is_call(c) and c.get("k") in ("Call", "MCall") and not c.get("cconst"):
                        for arg in c.get("a") or []:
                            r = arr_id(arg) if "*" in (fn.ntype(L.unwrap(arg)) or "") else None
                            if r is not None and r[0] in (a, b):
                                blur.append(c)
                if blur:
                    ck.ob("C02.lockstep-moves", "%s/%s" % (key, sub), True, "undecided: %s is also written by `%s` inside the loop at line %s" % (
                        a if any(arr == a for arr, n_ in opaque if n_ is blur[0]) else b, render(blur[0])[:60], lp.get("l")), fn.file, lp.get("l"), trivial=True)
                    continue
                sig = {}
                for arr, kind, tup, n_ in events:
                    if arr in (a, b) and inside(lp, n_):
                        blk = block_of(n_)
                        sig.setdefault(id(blk), {"blk": blk, a: [], b: []})[arr].append(tup)
                bad = None
                for v in sig.values():
                    if sorted(v[a]) != sorted(v[b]):
                        bad = v
                        break
                ok = bad is None
                if ok:
                    det = "loop at line %s: %s and %s are rearranged by the same moves in every statement list (%d statement lists, %d moves each)" % (
                        lp.get("l"), a, b, len(sig), sum(len(v[a]) for v in sig.values()))
                else:
                    def show(lst):
                        return "; ".join("%s[%s] <- %s" % ("A", t[1], "A[%s]" % t[2] if t[0] == "move" else "saved A[%s]" % "|".join(t[2])) if t[0] != "save" else "save A[%s]" % t[1] for t in sorted(lst)) or "nothing"
                    det = ("loop at line %s: the statement list at line %s moves %s by {%s} but %s by {%s}: the two arrays are parallel (entry k of one belongs to entry k of the other), "
                           "so after this loop the values no longer sit under their indices whenever the differing moves take effect (an entry travelling two or more positions)" % (
                               lp.get("l"), (bad["blk"] or {}).get("l"), a, show(bad[a]), b, show(bad[b])))
                    if ("lockstep", key, sub) in seen_fail:
                        continue
                    seen_fail.add(("lockstep", key, sub))
                ck.ob("C02.lockstep-moves", "%s/%s" % (key, sub), ok, det, fn.file, lp.get("l"), sample={"function": fn.full, "arrays": [a, b], "detail": det})


# -------------------------------------------------------------------------------------------------
# permute(perm_row, perm_col): each permutation indexes its own dimension
# -------------------------------------------------------------------------------------------------

def permute_role_rules(ck, fam, seen_fail):
    for fn in fam.functions():
        if fn.name != "permute" or fn.body is None:
            continue
        roles = {}
        for p_ in fn.params:
            if "Permutation" in (fn.type(p_["t"]) or ""):
                nm = p_["n"].lower()
                r = "row" if "row" in nm and "col" not in nm else "col" if "col" in nm and "row" not in nm else None
                if r:
                    roles[p_["d"]] = (r, p_["n"])
        if len(roles) < 2:
            continue
        it = L.Interp(fam, fn)
        key = L.fkey(fn)

        def strip(e):
            e = L.unwrap(e)
            while e is not None and e.get("k") in ("Construct", "TempObj") and len(e.get("a", [])) == 1:
                e = L.unwrap(e["a"][0])
            return e

        # permutation objects: the parameters and locals initialised / assigned from P.inverse() or copies
        perm_obj = {d: d for d in roles}          # decl id -> parameter decl id
        changed = True
        while changed:
            changed = False
            for n in fn.nodes():
                if n.get("k") == "Var" and n.get("init") is not None and n["d"] not in perm_obj and "Permutation" in (fn.type(n.get("t")) or ""):
                    srcs = {perm_obj[x["d"]] for x in walk(n["init"]) if x.get("k") == "Ref" and x.get("d") in perm_obj}
                    if len(srcs) == 1:
                        perm_obj[n["d"]] = next(iter(srcs))
                        changed = True

        def perm_of_ptr_expr(e):
            e = strip(e)
            if e is not None and e.get("k") == "MCall" and e.get("n") in ("get_perm_pos",) and e.get("obj") is not None:
                o = L.unwrap(e["obj"])
                if o.get("k") == "Ref" and o.get("d") in perm_obj:
                    return perm_obj[o["d"]]
            return None
        # definitions of pointer locals holding a position array, in source order
        defs = {}          # local decl id -> [(node id, parameter decl id or None)]
        for n in fn.nodes():
            tgt = src = None
            if n.get("k") == "Var" and n.get("init") is not None and "*" in (fn.type(n.get("t")) or ""):
                tgt, src = n["d"], n["init"]
            elif n.get("k") == "Assign" and n.get("op") == "=" and L.unwrap(n["lhs"]).get("k") == "Ref" and "*" in (fn.ntype(L.unwrap(n["lhs"])) or ""):
                tgt, src = L.unwrap(n["lhs"])["d"], n["rhs"]
            if tgt is not None:
                defs.setdefault(tgt, []).append((n.get("i", 0), perm_of_ptr_expr(src)))
        # arrays that hold column indices: col_ind() of a matrix, and local arrays filled from such an array
        def is_colind(b):
            b = strip(b)
            if b is None:
                return False
            if b.get("k") == "MCall" and b.get("n") in ("col_ind", "_col_ind"):
                return True
            if b.get("k") == "Ref" and b.get("d") in col_arrays:
                return True
            return False
        col_arrays = set()
        for _ in range(3):
            for n in fn.nodes():
                if n.get("k") == "Assign" and n.get("op") == "=":
                    l, r = strip(n["lhs"]), strip(n["rhs"])
                    if l.get("k") == "Index" and L.unwrap(l["b"]).get("k") == "Ref" and r is not None and r.get("k") == "Index" and is_colind(r["b"]):
                        col_arrays.add(L.unwrap(l["b"])["d"])
                if n.get("k") == "Var" and n.get("init") is not None and "*" in (fn.type(n.get("t")) or "") and is_colind(n["init"]):
                    col_arrays.add(n["d"])
        # loop variables bounded by rows() / columns()
        loopdim = {}
        for n in fn.nodes():
            if n.get("k") == "For" and n.get("init") is not None and n["init"].get("k") == "Decl" and n["init"].get("vars") and n.get("c") is not None:
                c = L.unwrap(n["c"])
                if c.get("k") == "Bin" and c.get("op") in ("<", "<=", "!="):
                    b = strip(c["rhs"])
                    if b is not None and b.get("k") == "MCall" and not b.get("a") and (b.get("obj") is None or L.obj_id(b.get("obj")) == "this"):
                        nm = b.get("n", "").lstrip("_")
                        if nm in ("rows", "columns"):
                            loopdim[n["init"]["vars"][0]["d"]] = "row" if nm == "rows" else "col"

        def index_role(idx):
            idx = strip(idx)
            if idx is None:
                return None
            if idx.get("k") == "Ref" and idx.get("d") in loopdim:
                return loopdim[idx["d"]]
            if idx.get("k") == "Index" and is_colind(idx["b"]):
                return "col"
            return None
        found = {}
        for n in fn.nodes():
            if n.get("k") != "Index":
                continue
            b = strip(n["b"])
            pd = perm_of_ptr_expr(b)
            if pd is None and b is not None and b.get("k") == "Ref" and b.get("d") in defs:
                before = [d_ for d_ in defs[b["d"]] if d_[0] < n.get("i", 0)]
                if before:
                    pd = max(before)[1]
            if pd is None:
                continue
            r = index_role(n["idx"])
            if r is None:
                continue
            found.setdefault((pd, r), []).append(n)
        for (pd, r), uses in sorted(found.items(), key=lambda kv: (kv[0][0], kv[0][1])):
            prole, pname = roles[pd]
            ok = prole == r
            sub = "%s@%s" % (pname, "rows" if r == "row" else "columns")
            det = "the position array of %s (%s permutation) is subscripted by %s indices at line %s (%s)" % (
                pname, "row" if prole == "row" else "column", "row" if r == "row" else "column", uses[0].get("l"), render(uses[0])[:50])
            if not ok:
                det += ": the %s permutation is applied to the %s - permute(%s) then ignores the other permutation for that dimension; for rectangular matrices the mapped indices are out of range" % (
                    "row" if prole == "row" else "column", "column indices" if r == "col" else "rows", ", ".join(v[1] for v in roles.values()))
                if ("prole", key, sub) in seen_fail:
                    continue
                seen_fail.add(("prole", key, sub))
            ck.ob("C02.permute-role", "%s/%s" % (key, sub), ok, det, fn.file, uses[0].get("l"), sample={"function": fn.full, "detail": det})


# -------------------------------------------------------------------------------------------------
# Adjacency::Permutation: order in which the transposition sequence is applied
# -------------------------------------------------------------------------------------------------

def swap_order_rules(ck, pfacts, seen_fail):
    fam = L.Family([pfacts])
    fns = [f for f in pfacts.functions if f.body is not None and f.tk in ("inst", "plain", "spec") and f.cls.endswith("Adjacency::Permutation")]
    if not fns:
        ck.incomplete("C02.swap-sequence-order", "no member of Adjacency::Permutation found in %s" % pfacts.tu)
        return
    seen_keys = set()
    for fn in fns:
        loops = [n for n in fn.nodes() if n.get("k") == "For"]
        if not loops:
            continue
        it = L.Interp(fam, fn)
        it.is_loop_var = lambda d: False
        par = it.par

        def strip(e):
            e = L.unwrap(e)
            while e is not None and e.get("k") in ("Construct", "TempObj") and len(e.get("a", [])) == 1:
                e = L.unwrap(e["a"][0])
            return e

        def element(e):
            """(container text, index node) of an element expression p[i] / vec[i] / vec.at(i)"""
            e = strip(e)
            if e is None:
                return None
            if e.get("k") == "Index":
                return render(L.unwrap(e["b"])), e["idx"]
            if e.get("k") == "OpCall" and e.get("op") == "[]" and len(e.get("a") or []) == 2:
                return render(L.unwrap(e["a"][0])), e["a"][1]
            if e.get("k") == "MCall" and e.get("n") in ("at", "operator[]") and len(e.get("a") or []) == 1 and e.get("obj") is not None:
                return render(L.unwrap(e["obj"])), e["a"][0]
            return None

        nloop = 0
        for lp in loops:
            init = lp.get("init")
            if init is None or init.get("k") != "Decl" or not init.get("vars"):
                continue
            lv = init["vars"][0]
            body = lp.get("body") or {}
            inner_loops = [x for x in walk(body) if x is not body and x.get("k") in ("For", "While", "Do")]
            stmts = [x for x in walk(body) if not any(any(y is x for y in walk(il)) for il in inner_loops)]
            # direction of the loop variable
            steps = []
            for x in [lp.get("inc"), lp.get("c")] + stmts:
                if x is None:
                    continue
                for y in (walk(x) if (x is lp.get("inc") or x is lp.get("c")) else [x]):
                    if y.get("k") == "Un" and y.get("op") in ("++", "--") and L.unwrap(y["e"]).get("d") == lv["d"]:
                        steps.append(1 if y["op"] == "++" else -1)
                    elif y.get("k") == "Assign" and L.unwrap(y["lhs"]).get("d") == lv["d"]:
                        steps.append(0)
            # the exchange  t = X[a]; X[a] = X[b]; X[b] = t   (or std::swap(X[a], X[b]))
            moves, temps = [], {}
            for x in stmts:
                if x.get("k") == "Var" and x.get("init") is not None and element(x["init"]) is not None:
                    temps[x["d"]] = element(x["init"])
                lhs = rhs = None
                if x.get("k") == "Assign" and x.get("op") == "=":
                    lhs, rhs = x["lhs"], x["rhs"]
                elif x.get("k") == "OpCall" and x.get("op") == "=" and len(x.get("a") or []) == 2:
                    lhs, rhs = x["a"]
                if lhs is not None and element(lhs) is not None:
                    moves.append((element(lhs), strip(rhs)))
                if x.get("k") == "Call" and str(x.get("callee", "")) in ("std::swap", "std::iter_swap") and len(x.get("a") or []) == 2 \
                        and element(x["a"][0]) is not None and element(x["a"][1]) is not None:
                    moves.append((element(x["a"][0]), strip(x["a"][1])))
                    moves.append((element(x["a"][1]), {"k": "Ref", "d": "swaptmp"}))
                    temps["swaptmp"] = element(x["a"][0])
            exch = None
            for (e1, r1) in moves:
                e2 = element(r1)
                if e2 is None or e2[0] != e1[0]:
                    continue
                for (e3, r3) in moves:
                    if e3[0] == e1[0] and r3.get("k") == "Ref" and r3.get("d") in temps and temps[r3["d"]][0] == e1[0] \
                            and poly(it, temps[r3["d"]][1]) == poly(it, e1[1]) and poly(it, e3[1]) == poly(it, e2[1]):
                        exch = (e1, e2)
            if exch is None:
                continue
            (cont, a_idx), (_, b_idx) = exch
            # b must be read from a swap-position array at the position a (directly or through a local)
            b0 = strip(b_idx)
            if b0.get("k") == "Ref" and b0.get("dk") == "local" and b0.get("d") in it.localdefs and not it.reassigned(b0["d"]):
                b0 = strip(it.localdefs[b0["d"]])
            be = element(b0)
            a_pos, other = a_idx, None
            if be is not None and poly(it, be[1]) == poly(it, a_idx):
                other = be[0]
            else:
                # written the other way round: X[S[a]] first
                a0 = strip(a_idx)
                if a0.get("k") == "Ref" and a0.get("dk") == "local" and a0.get("d") in it.localdefs and not it.reassigned(a0["d"]):
                    a0 = strip(it.localdefs[a0["d"]])
                ae = element(a0)
                if ae is not None and poly(it, ae[1]) == poly(it, b_idx):
                    other, a_pos = ae[0], b_idx
            if other is None or other == cont:
                continue
            pa = poly(it, a_pos)
            coef = pa.get((lv["n"],), 0)
            key = "%s/swap-loop%d" % (L.fkey(fn), nloop)
            nloop += 1
            if key in seen_keys:
                continue
            seen_keys.add(key)
            if len(steps) != 1 or steps[0] == 0 or coef == 0 or any(lv["n"] in m and len(m) > 1 for m in pa):
                ck.incomplete("C02.swap-sequence-order", "%s: transposition loop at line %s: direction of the position %s not derivable" % (L.fkey(fn), lp.get("l"), render(a_pos)[:40]))
                continue
            direction = steps[0] * (1 if coef > 0 else -1)
            # context: inverse or forward, from the names the repository uses
            ctx, why = None, ""
            q = par.get(id(lp))
            child = lp
            while q is not None and ctx is None:
                if q.get("k") == "Case" and q.get("v") is not None:
                    nm = render(q["v"]).rsplit("::", 1)[-1]
                    ctx, why = ("inverse" if nm.lower().startswith("inv") else "forward"), "case %s" % nm
                elif q.get("k") == "If":
                    c = L.unwrap(q["c"])
                    neg = False
                    while c.get("k") == "Un" and c.get("op") == "!":
                        c = L.unwrap(c["e"])
                        neg = not neg
                    if c.get("k") == "Ref" and c.get("dk") == "param" and c.get("n", "").lower().startswith("inv"):
                        in_then = q.get("then") is child or any(y is child for y in walk(q.get("then") or {}))
                        inv = in_then != neg
                        ctx, why = ("inverse" if inv else "forward"), "%s == %s" % (c["n"], "true" if inv else "false")
                elif q.get("k") == "Block":
                    # a switch body: the case label is an earlier sibling of the statements it governs
                    sib = q.get("s", [])
                    idx = next((i_ for i_, y in enumerate(sib) if y is child), None)
                    pq = par.get(id(q))
                    # behind a guard `if(<inv-parameter test>) { ...; return; }`: the rest of the block runs in the opposite context
                    for y in (reversed(sib[:idx]) if idx is not None else []):
                        if y.get("k") == "If" and y.get("else") is None and any(z.get("k") == "Return" for z in walk(y.get("then") or {})):
                            c = L.unwrap(y["c"])
                            neg = False
                            while c.get("k") == "Un" and c.get("op") == "!":
                                c = L.unwrap(c["e"])
                                neg = not neg
                            if c.get("k") == "Ref" and c.get("dk") == "param" and c.get("n", "").lower().startswith("inv"):
                                inv_then = not neg
                                ctx, why = ("forward" if inv_then else "inverse"), "behind the early return for %s == %s" % (c["n"], "true" if inv_then else "false")
                                break
                    if idx is not None and pq is not None and pq.get("k") == "Switch":
                        for y in reversed(sib[:idx]):
                            if y.get("k") == "Case" and y.get("v") is not None:
                                nm = render(y["v"]).rsplit("::", 1)[-1]
                                ctx, why = ("inverse" if nm.lower().startswith("inv") else "forward"), "case %s" % nm
                                break
                            if y.get("k") in ("Break", "Return", "Default"):
                                break
                child, q = q, par.get(id(q))
            if ctx is None:
                ctx = "inverse" if re.search(r"(^|_)inv", fn.name or "") else "forward"
                why = "function %s" % fn.name
            want = -1 if ctx == "inverse" else 1
            ok = direction == want
            det = "loop at line %s exchanges %s[%s] with %s[%s[..]] for positions that %s over the iterations; context: %s (%s) -> the transposition sequence must be applied %s" % (
                lp.get("l"), cont, render(a_pos)[:30], cont, other, "ascend" if direction > 0 else "descend", ctx, why, "back to front" if want < 0 else "front to back")
            if not ok:
                det += ": applying the swaps in this order yields %s" % ("the permutation itself instead of its inverse (they coincide only for involutions)" if ctx == "inverse" else "the inverse instead of the permutation")
                if ("swaporder", key) in seen_fail:
                    continue
                seen_fail.add(("swaporder", key))
            ck.ob("C02.swap-sequence-order", key, ok, det, fn.file, lp.get("l"), sample={"function": fn.full, "detail": det})


# -------------------------------------------------------------------------------------------------
# E13: clone table / convert sharing
# -------------------------------------------------------------------------------------------------

def copy_extent_ok(it, kind):
    """content copies into this._<kind>: -> (definitely wrong extents, extents of a form the check cannot relate to the slot)"""
    bad, unknown = [], []
    otherkind = "indices" if kind == "elements" else "elements"
    for ev_ in it.copy_events:
        ds, ss, callee, line = ev_[:4]
        es = ev_[4] if len(ev_) > 4 else None
        if ds[0] != "this" or ds[1] != kind:
            continue
        if es is not None:
            # the extent was resolved where the copy happens (also inside an inlined helper): slot idx of the size vector of the same kind
            if es[1] != kind or es[2] != ds[2]:
                bad.append((line, "%s._%s_size.at(%s)" % (es[0], es[1], es[2])))
            continue
        # find the call again to read its count argument
        for n in it.fn.nodes():
            if is_call(n) and n.get("l") == line and n.get("callee") == callee and len(n.get("a", [])) >= 3:
                ext = L._norm_extent(it, n["a"][2])
                if re.match(r"^(this|\w+)\._%s_size\.at\(%s\)$" % (kind, re.escape(ds[2])), ext) or \
                        re.match(r"^\w+\.get_%s_size\(\)\.at\(%s\)$" % (kind, re.escape(ds[2])), ext):
                    continue
                if re.search(r"_%s_size\b|get_%s_size\b" % (otherkind, otherkind), ext) or re.search(r"_%s_size\.at\((?!%s\))" % (kind, re.escape(ds[2])), ext):
                    bad.append((line, ext))       # the size vector of the other array kind / of another slot
                else:
                    unknown.append((line, ext))
    return bad, unknown


def clone_rules(ck, fam, seen_fail):
    doc, err = documented_clone_table()
    if doc is None:
        ck.incomplete("C02.clone-table", err)
        return
    fns = [f for f in fam.functions() if f.name == "clone" and L.short(f.cls) == "Container" and len(f.params) == 2
           and "Container" in L.short(f.type(f.params[0]["t"])) and f.full.count("<") == f.cls.count("<")]
    if not fns:
        ck.incomplete("C02.clone-table", "Container::clone(const Container&, CloneMode) not found")
        return
    for fn in fns:
        other = fn.params[0]["n"]
        modep = fn.params[1]["n"]
        for mode, (val, want_i, want_e) in sorted(doc.items(), key=lambda kv: kv[1][0]):
            it = L.Interp(fam, fn, env={modep: val}).run()
            if it.unknown:
                ck.incomplete("C02.clone-table", "%s with %s: %s" % (L.fkey(fn), mode, it.unknown[0]))
                continue
            st = None
            for s, _ in it.exits:
                st = L.join_state(st, s)
            if st is None:
                ck.incomplete("C02.clone-table", "%s with %s has no normal exit" % (L.fkey(fn), mode))
                continue
            fl = st.get(("flag", "this"))
            got_i = classify(st[("this", "indices")], fl, it, "indices", other)
            got_e = classify(st[("this", "elements")], fl, it, "elements", other)
            for kind, got in (("indices", got_i), ("elements", got_e)):
                if got == "fresh+copy":
                    bad, unk = copy_extent_ok(it, kind)
                    if bad:
                        got = "other(copy with extent %s instead of the recorded size of the slot)" % bad[0][1]
                    elif unk:
                        got = "unknown(copy with extent %s, which the check cannot relate to the recorded size of the slot)" % unk[0][1]
                if kind == "indices":
                    got_i = got
                else:
                    got_e = got
            ok_fail = [o for o in it.obligations if not o[2]]
            ok = (got_i, got_e) == (want_i, want_e) and not ok_fail
            sub = "CloneMode::%s" % mode
            if not ok and not ok_fail and any(g.startswith("unknown") for g in (got_i, got_e)):
                ck.incomplete("C02.clone-table", "%s with %s: %s" % (L.fkey(fn), mode, [g for g in (got_i, got_e) if g.startswith("unknown")][0]))
                continue
            if not ok and it.mode_undecided:
                # both sides of a mode-dependent branch were interpreted and joined: the extracted row is not the row of this mode
                ck.incomplete("C02.clone-table", "%s with %s: the branch condition %s depends on %s but is not evaluable by the check (extracted over both sides: indices %s, elements %s)" % (
                    L.fkey(fn), mode, it.mode_undecided[0], modep, got_i, got_e))
                continue
            if not ok and ("C02.clone-table", sub) in seen_fail:
                continue
            if not ok:
                seen_fail.add(("C02.clone-table", sub))
            ck.ob("C02.clone-table", "Container::clone/%s" % sub, ok,
                  "documented (base.hpp): indices %s, elements %s; extracted from the code paths with clone_mode == %s: indices %s, elements %s%s" % (
                      want_i, want_e, mode, got_i, got_e, "; typestate violations: %s" % ok_fail[0][3] if ok_fail else ""),
                  fn.file, fn.line, sample={"mode": mode, "documented": [want_i, want_e], "extracted": [got_i, got_e]})


def assign_rules(ck, fam, seen_fail):
    fns = [f for f in fam.functions() if f.name == "assign" and L.short(f.cls) == "Container" and len(f.params) == 1]
    combos = set()
    for fn in fns:
        ca, fa = targs(fn.cls), targs(fn.full)
        if len(ca) != 2 or len(fa) != 2:
            ck.incomplete("C02.convert-sharing", "template arguments of %s not recognised" % fn.full)
            continue
        same = {"elements": ca[0] == fa[0], "indices": ca[1] == fa[1]}
        other = fn.params[0]["n"]
        it = L.Interp(fam, fn).run()
        if it.unknown:
            ck.incomplete("C02.convert-sharing", "%s: %s" % (fn.full, it.unknown[0]))
            continue
        st = None
        for s, _ in it.exits:
            st = L.join_state(st, s)
        fl = st.get(("flag", "this"))
        for kind in ("elements", "indices"):
            vs = st[("this", kind)]
            got = classify(vs, fl, it, kind, other)
            if got == "fresh+copy":
                # must be MemoryPool::convert of the like-indexed source array with the recorded extent
                conv = [c for c in it.copy_events if c[0][0] == "this" and c[0][1] == kind]
                if not conv or any(not c[2].endswith("::convert") for c in conv):
                    got = "other(fresh arrays filled by %s)" % sorted({c[2] for c in conv})
                elif copy_extent_ok(it, kind)[0]:
                    got = "other(convert with extent %s)" % copy_extent_ok(it, kind)[0][0][1]
                elif copy_extent_ok(it, kind)[1]:
                    got = "unknown(convert with extent %s)" % copy_extent_ok(it, kind)[1][0][1]
            want = "shared" if same[kind] else "fresh+copy"
            sub = "%s:%s" % (kind, "same-type" if same[kind] else "cross-type")
            combos.add((same["elements"], same["indices"]))
            ok = got == want
            key = "Container::assign/%s" % sub
            if not ok and got.startswith("unknown"):
                ck.incomplete("C02.convert-sharing", "%s: %s arrays: %s" % (fn.full, kind, got))
                continue
            if not ok:
                if ("C02.convert-sharing", key) in seen_fail:
                    continue
                seen_fail.add(("C02.convert-sharing", key))
            ck.ob("C02.convert-sharing", key, ok,
                  "%s: %s type %s -> expected %s, extracted %s" % (fn.full, "data" if kind == "elements" else "index", "equal" if same[kind] else "different", want, got),
                  fn.file, fn.line, sample={"function": fn.full, "array": kind, "expected": want, "extracted": got})
    need = {(True, True), (False, False), (True, False), (False, True)}
    if not need <= combos:
        ck.incomplete("C02.convert-sharing", "instantiations of Container::assign missing for (same DT, same IT) in %s" % sorted(need - combos))


def typestate_size_rules(ck, fam, seen_fail):
    """size bookkeeping decided by the shared ownership/length interpreter (lib/lafem_rules, also used by C20): at every exit the
    size vector has as many entries as its pointer vector, and a re-seated array slot gets the matching extent recorded"""
    summaries = {}
    for fn in fam.functions():
        if L.is_inlined_helper(fam, fn):
            continue
        cases = L.interpret_cases(fam, fn, summaries)
        if not any(it.touched or it.unknown for _, it in cases):
            continue
        key = L.fkey(fn)
        merged = {}
        for label, it in cases:
            all_obs = it.obligations + L.exit_obligations(it)        # exit obligations may add to it.unknown (tainted verdicts)
            for u in it.unknown:
                ck.incomplete("C02.size-pairing", "%s (%s): %s" % (key, fn.loc, u))
            for (r, sub, ok, det, line) in all_obs:
                if r == "size-vector-length":
                    sub = sub + "/length"
                elif r != "size-pairing":
                    continue
                k = (sub, line)
                if k not in merged or (merged[k][0] and not ok):
                    merged[k] = (ok, det)
        for (sub, line), (ok, det) in merged.items():
            if not ok:
                if ("C02.size-pairing", key, sub) in seen_fail:
                    continue
                seen_fail.add(("C02.size-pairing", key, sub))
            ck.ob("C02.size-pairing", "%s/%s" % (key, sub), ok, det, fn.file, line, trivial=det.startswith("undecided"))


def pairing_rules(ck, fam, seen_fail):
    for fn in fam.functions():
        obs, unknown = L.pair_pushes(fam, fn)
        key = L.fkey(fn)
        for u in unknown:
            ck.incomplete("C02.size-pairing", "%s (%s): %s" % (key, fn.loc, u))
        for (sub, ok, det, line, trivial) in obs:
            if not ok:
                if ("C02.size-pairing", key, sub) in seen_fail:
                    continue
                seen_fail.add(("C02.size-pairing", key, sub))
            ck.ob("C02.size-pairing", "%s/%s" % (key, sub), ok, det, fn.file, line, trivial=trivial)


def is_driver_tu(fx):
    return bool(fx.tu) and fx.tu.endswith("c02_convert.cpp")


def _included_digest():
    """the driver includes tu/c20_containers.cpp; the fact cache is keyed by the driver file only, so key it by the
    included file as well (an otherwise unused macro)"""
    import hashlib
    try:
        h = hashlib.sha256(open(os.path.join(os.path.dirname(os.path.dirname(os.path.abspath(__file__))), "tu", "c20_containers.cpp"), "rb").read()).hexdigest()[:12]
    except OSError:
        h = "none"
    return "-DVERIF_INCLUDED_DIGEST_%s" % h


def run(tier):
    ck = Check("C02", tier)
    declare(ck)
    facts = featlib.extract(DRIVER, files=FILES, extra=(_included_digest(),))
    ck.tu(facts)
    all_facts = [facts]
    if tier == "thorough":
        f2 = featlib.extract(DRIVER, files=FILES, extra=ALT + (_included_digest(),))
        ck.tu(f2)
        all_facts.append(f2)
        for t in ("kernel/lafem/sparse_matrix_conversion-test.cpp", "kernel/lafem/sparse_matrix_csr-test.cpp", "kernel/lafem/sparse_matrix_bcsr-test.cpp",
                  "kernel/lafem/dense_matrix-test.cpp", "kernel/lafem/sparse_matrix_banded-test.cpp"):
            p = featlib.repo_path(t)
            if os.path.exists(p):
                ft = featlib.extract(p, files=LAFEM)
                ck.tu(ft)
                all_facts.append(ft)
    for fx in all_facts:
        for e in fx.errors_outside_repo():
            ck.incomplete("C02.E1.slot-role", "driver %s no longer matches the API: %s:%s %s" % (fx.tu, e["file"], e["line"], e["msg"][:160]))
    seen_fail = set()
    pp = featlib.repo_path("kernel/adjacency/permutation.cpp")
    if os.path.exists(pp):
        pfacts = featlib.extract(pp, files=featlib.repo_path("kernel/adjacency/permutation"))
        ck.tu(pfacts)
        swap_order_rules(ck, pfacts, seen_fail)
    else:
        ck.incomplete("C02.swap-sequence-order", "kernel/adjacency/permutation.cpp not found")
    for n, fx in enumerate(all_facts):
        fam = L.Family([fx])
        roles_tab = slot_roles(fam)
        if n == 0:
            for c, need in (("SparseMatrixCSR", {1: "rows", 2: "columns", 3: "used_elements"}), ("SparseMatrixBCSR", {1: "rows", 2: "columns", 3: "used_elements"}),
                            ("DenseMatrix", {1: "rows", 2: "columns"}), ("SparseMatrixBanded", {1: "rows", 2: "columns"}), ("SparseMatrixCSCR", {1: "rows", 2: "columns"})):
                for k, r in need.items():
                    if r not in roles_tab.get(c, {}).get(k, ()):
                        ck.incomplete("C02.E1.slot-role", "accessor %s::%s() no longer returns _scalar_index.at(%d) (role table: %s)" % (c, r, k, roles_tab.get(c)))
            ck.note("slot roles from accessors: " + "; ".join("%s: %s" % (c, {k: sorted(v) for k, v in sorted(t.items())}) for c, t in sorted(roles_tab.items())))
        for msg in L.errors_in_family(fam, fx):
            ck.incomplete("C02.E1.slot-role", msg)
        e1_rules(ck, fam, roles_tab, seen_fail)
        pairing_rules(ck, fam, seen_fail)
        typestate_size_rules(ck, fam, seen_fail)
        extent_rules(ck, fam, seen_fail)
        banded_rules(ck, fam, fx, roles_tab, seen_fail)
        local_array_rules(ck, fam, seen_fail)
        transpose_shape_rules(ck, fam, seen_fail)
        bucket_order_rules(ck, fam, seen_fail)
        offset_store_rules(ck, fam, seen_fail)
        cscr_kind_rules(ck, fam, fx, seen_fail)
        lockstep_rules(ck, fam, seen_fail)
        permute_role_rules(ck, fam, seen_fail)
        if is_driver_tu(fx):
            alias_kernel_rules(ck, fam, fx, seen_fail)
            alias_member_rules(ck, fam, fx, roles_tab, seen_fail)
        is_driver = fx.tu.endswith("c02_convert.cpp")
        if is_driver:
            clone_rules(ck, fam, seen_fail)
            assign_rules(ck, fam, seen_fail)
            cross_clone_rules(ck, fam, seen_fail)
    ck.assume("constructor parameters named <role>_in and accessors named <role>() carry that role (the repository's own naming); Adjacency::Graph domain = rows, image = columns")
    ck.assume("std::vector / MemoryPool::copy / MemoryPool::convert have their documented meaning; a moved-from std::vector is empty")
    return ck.finish(
        "E1 role agreement of the _scalar_index dimension slots (roles from the classes' own accessors) at every fill, result construction "
        "and Transpose kernel call, with rows<->columns swapped on every exit of transpose; allocate/size pairing; per-CloneMode aliasing table "
        "of Container::clone extracted by path-sensitive interpretation and compared with the enum documentation; sharing vs converting in "
        "Container::assign for the four (data type, index type) same/different combinations, composed with the clone table for the templated "
        "cross-type clone (promised-fresh arrays never alias the source); extents of arrays handed to result constructors; the band-offset "
        "convention offset = col - row + rows - 1 at every statement of it in banded code (siblings must agree with the class documentation); "
        "size-vector/pointer-vector length agreement and re-seated slot extents (shared interpreter with C20); loop-variable subscripts of locally "
        "built arrays; CSCR used-row kinds; alias safety of the transpose kernel for r == x. "
        "Not decided: kind-correctness and completeness of the "
        "conversion loops themselves beyond these (CSR<-Banded/BCSR coverage of row_ptr, transpose counting sort, permute; DESIGN clause 3 / E2), value equality after chains of "
        "operations, sortedness of produced column indices, cross-type CSR<-Banded (does not instantiate for DT2_!=DT_, a compile error, not a wrong result).")
